#!/bin/bash
# usage: tools/seedtest.sh <PROP> <patch.diff> [extra check args]
# applies a seeded change to a scratch worktree of /repo's HEAD and runs the quick check against it
P=$1; PATCH=$2; shift 2
WT=$(mktemp -d /tmp/wt-eval-XXXXXX); rmdir $WT
git -C /repo worktree add -q --detach $WT HEAD || exit 9
( cd $WT && git apply "$PATCH" ) || { echo "PATCH DOES NOT APPLY"; git -C /repo worktree remove --force $WT; exit 9; }
cd /verif && VERIF_REPO=$WT timeout 1800 ./check $P "$@" > /tmp/seedtest.$$.out 2>&1; rc=$?
grep -c "^VIOLATION" /tmp/seedtest.$$.out | sed 's/^/violations: /'
grep "^VIOLATION" /tmp/seedtest.$$.out | sed 's/.*# //' | cut -c1-220 | head -${SEEDLINES:-4}
tail -1 /tmp/seedtest.$$.out | cut -c1-200
echo "rc=$rc"
rm -f /tmp/seedtest.$$.out
git -C /repo worktree remove --force $WT
