#!/usr/bin/env python3
# usage: tools/seedkeep.py <seed-id> <property> <src dir with patch.diff, demo.*, README.md> [check-property [check args...]]
# Confirms the seeded change (tools/seedconfirm.sh), runs the check against it (tools/seedtest.sh) and stores
# everything under /verif/seeded/<seed-id>/ with meta.json.
import sys, os, subprocess, json, shutil, re
sid, prop, src = sys.argv[1:4]
chk = sys.argv[4] if len(sys.argv) > 4 else prop
extra = sys.argv[5:]
here = os.path.dirname(os.path.dirname(os.path.abspath(__file__)))
dst = os.path.join(here, "seeded", sid)
os.makedirs(dst, exist_ok=True)
for f in os.listdir(src):
    p = os.path.join(src, f)
    if os.path.isfile(p) and not f.endswith((".log", ".exe", ".o", ".out")):
        shutil.copy(p, dst)
    elif os.path.isdir(p):
        shutil.copytree(p, os.path.join(dst, f), dirs_exist_ok=True)
conf = subprocess.run([os.path.join(here, "tools/seedconfirm.sh"), src], capture_output=True, text=True).stdout
conf = "\n".join(l for l in conf.split("\n") if "WARNING" not in l)
m = re.search(r"RESULT base_rc=(\d+) maketest_rc=(\d+) mutated_rc=(\d+)", conf)
det = subprocess.run([os.path.join(here, "tools/seedtest.sh"), chk, os.path.join(src, "patch.diff")] + extra, capture_output=True, text=True,
                     env=dict(os.environ, SEEDLINES="6")).stdout
det = "\n".join(l for l in det.split("\n") if "WARNING" not in l)
mv = re.search(r"violations: (\d+)", det)
rc = re.search(r"rc=(\d+)", det)
readme = open(os.path.join(src, "README.md")).read() if os.path.exists(os.path.join(src, "README.md")) else ""
meta = dict(id=sid, property=prop, origin="independent sub-agent given only the property text and a scratch worktree",
            needs_to_manifest=readme[:1500],
            confirmed=dict(demo_passes_on_head=(m and m.group(1) == "0"), make_test_passes_with_patch=(m and m.group(2) == "0"),
                           demo_fails_with_patch=(m and m.group(3) != "0"), log=conf[-1500:]),
            detection=dict(check="./check %s %s" % (chk, " ".join(extra)), violations=int(mv.group(1)) if mv else None,
                           exit_code=int(rc.group(1)) if rc else None, detected=bool(mv and int(mv.group(1)) > 0 and rc and rc.group(1) == "1"),
                           log=det[-2000:]),
            what_i_ran=["tools/seedconfirm.sh %s" % src, "tools/seedtest.sh %s %s/patch.diff %s" % (chk, src, " ".join(extra))])
json.dump(meta, open(os.path.join(dst, "meta.json"), "w"), indent=1)
print(sid, "confirmed:", meta["confirmed"]["demo_passes_on_head"], meta["confirmed"]["make_test_passes_with_patch"], meta["confirmed"]["demo_fails_with_patch"],
      "| detected:", meta["detection"]["detected"], "violations:", meta["detection"]["violations"], "rc:", meta["detection"]["exit_code"])
