#!/usr/bin/env python3
# Regenerates MANIFEST.json from the table below (keeps it valid and consistent).
import json, os
HERE = os.path.dirname(os.path.dirname(os.path.abspath(__file__)))
props = [json.loads(l)["id"] for l in open(os.path.join(HERE, "properties.jsonl"))]

E1 = "cbmc-src"; E2 = "asm-smt"; E3 = "asm-threads"
CLAIMED = {
 "C01": dict(engine=E2, level="model_checking",
   text="every integer operator x every ordered pair of the 9 integer types x every operand value (symbolic 64-bit registers), in return/initializer/assignment/argument/condition/op=/++-- contexts and at expression depth 2: z3 proves the emitted x86-64 code computes the C11 value and the _Generic/sizeof type; counterexamples are replayed natively",
   note="trusts z3, the asm executor (differentially validated against the CPU on every run), gcc/as for replay; expression depth > 2 is outside",
   technique="SMT (z3 bit-vectors) over symbolic execution of the assembly emitted by the freshly built compiler"),
 "C02": dict(engine=E2, level="model_checking",
   text="every conversion among the 12 arithmetic types that involves a floating type, + - * / and the six comparisons, negation and truth tests on float/double/long double, for ALL operand values incl. NaN, infinities, signed zeros, denormals: z3 (FP theory, x87 modelled as FP(15,64) with the control word the code loads) proves the emitted SSE/x87 sequences yield the C11/IEEE result; floating constants for a boundary list plus solver-found double-rounding witnesses",
   note="trusts z3's FP theory, the asm executor (validated against the CPU each run); NaN payloads unspecified; literal text->binary (strtold) not encoded beyond the listed spellings",
   technique="SMT (z3 floating-point + bit-vectors) over symbolic execution of the emitted SSE/x87 code"),
 "C16": dict(engine=E2, level="model_checking",
   text="thread-modular linearizability: the emitted sequence of every op=, ++/--, atomic_fetch_*, atomic_exchange and compare-exchange on 1/2/4/8-byte _Atomic objects (static, via pointer, struct member) is executed symbolically against ARBITRARY interference (each read of the shared cell is a fresh symbol = any number of other threads); z3 decides that every completed path contains exactly one successful lock-prefixed step of the right width whose written value is f(value observed by that step), that the returned value is consistent with it, that failed compare-exchanges write nothing and store the observed value into *expected; violations are replayed with real threads",
   note="assumes each x86 instruction is a step and locked RMW instructions are indivisible; TSO store buffering not modelled (all writers are locked); up to 2 failed CAS rounds unrolled, longer paths cut and shown write-free",
   technique="SMT over symbolic execution of emitted atomic sequences under arbitrary interference (rely/guarantee style)"),
 "C20": dict(engine=E2, level="model_checking",
   text="for every statement/expression form x 11 result types (incl. long double and four struct shapes): the emitted code is executed symbolically between two marker calls and z3 decides that the stack pointer and the x87 register-stack depth are identical before and after, for single statements and for one iteration of for/while/do bodies and for-increments (an inductive step); value-producing forms are checked by using the value; x87 over/underflow is a violation",
   note="trusts z3 and the asm executor; external callees assumed psABI-conforming; alloca/VLA exempt; asm statements outside",
   technique="SMT over symbolic execution of the emitted code, stack-pointer and x87-depth invariants between marker calls"),
 "C03": dict(engine=E2, level="model_checking",
   text="switch dispatch for 8 controlling types x 9 label sets (negative, > 32 bit, ranges, unsigned, boundaries) x default placement with the controlling value symbolic; statement order for all depth-1/depth-2 nestings of 20 statement forms where every branch condition is a distinct symbolic input and the emitted code's marker-call sequence is compared, path by path, with a reference abstract machine run in lock-step (z3 decides which reference branches each path condition allows); 19 scoping/shadowing patterns with symbolic values; truth tests of every integer type",
   note="trusts z3, the asm executor and the reference interpreter in props/c03.py; nesting depth > 2 and loop trip counts > 2 outside",
   technique="SMT path-condition reasoning over symbolic execution of emitted code vs a reference interpreter"),
 "C04": dict(engine=E2, level="model_checking",
   text="bit-field store/load for (base type, width, bit offset) triples with symbolic stored value and ALL other memory symbolic: read-back value, value of the assignment expression, op= and ++, neighbours and every byte outside the storage unit untouched; aggregate copies of 1..40 bytes; address computation of nested members and symbolic indices against the psABI layout model; frame layout (disjointness, alignment, containment) of local object lists; alloca/VLA alignment, disjointness and temporary relocation; zero-fill of partially initialised locals",
   note="trusts z3 and the asm executor; pointer arguments are distinct objects outside the callee's frame; _Alignas > 16 on locals is a recorded finding; heavy alloca shapes only in the thorough tier",
   technique="SMT over symbolic execution of the emitted code with per-object memory regions and a frame condition on all stores"),
 "C06": dict(engine=E2, level="model_checking",
   text="caller side and callee side are checked SEPARATELY against an independently written psABI model (classification of 22 struct/union shapes + 7 scalar classes, register/stack placement, hidden return pointer, 16-byte alignment, %al, callee-saved registers, x87 stack): every argument/return byte is symbolic and z3 decides that it sits in the psABI location, for each menu type placed after k INTEGER and j SSE arguments around register exhaustion; va_start image and va_arg walkers likewise; counterexamples are replayed between gcc-compiled and chibicc-compiled code",
   note="trusts z3, the asm executor, the psABI model in lib/abi.py (validated by the native gcc<->chibicc replays); padding bytes and >17 parameters outside",
   technique="SMT over symbolic execution of emitted call sites / prologues against a psABI placement model"),
 "C05": dict(engine=E1 + "+" + E2, level="model_checking",
   text="two views: (E1, cbmc) the real write_gvar_data/create_lvar_init/new_initializer on symbolic Initializer trees over four aggregate shapes (bit-fields incl. long:40, nested, array of struct, union) with ANY int/long leaf value and every presence pattern: static byte image and automatic assignment chain equal the 6.7.9 reference; (E2) generated initializer spellings (designators, brace elision, strings, unions, bit-fields incl. unnamed, arrays of unknown bound, trailing commas) through the whole compiler: every scalar leaf of the static object (emitted data image) and of the automatic object (emitted code) read back by symbolic execution equals the C11 6.7.9 reference, which is first validated against gcc on each generated program",
   note="trusts cbmc, z3, the asm executor, the reference in lib/cinit.py (gcc-validated per program); re-initialisation of a partly initialised aggregate (DR 413) and floating/pointer members outside",
   technique="cbmc bounded model checking of the real initializer back-ends + SMT-backed symbolic execution of emitted code/data vs a reference"),
 "C07": dict(engine=E1 + "+" + E2, level="model_checking",
   text="(E1, cbmc) the real add_type + eval/eval2 on symbolic ASTs: every root operator over leaves that are optionally-cast literals of int/unsigned/long/unsigned long with ANY 64-bit value equals a C11 reference evaluator (gcc-validated), depth 2 for selected operator pairs, division by zero reaches a diagnostic; (E2) generated constant expressions over boundary literals used as static initializer, enumerator, array bound, bit-field width, _Alignas, case label and #if, plus the same expression evaluated at run time over variables: all agree with the C11 value",
   note="for * / % the right operand is restricted to [-4,3] in E1 (stated); host-UB checks inside eval2 off; eval_double cut",
   technique="cbmc bounded model checking of the real constant folder + symbolic execution of emitted code/data for folded constants in every constant context"),
 "C08": dict(engine=E1 + "+" + E2, level="model_checking",
   text="(E1, cbmc) the real struct_decl/union_decl offset loops on symbolic member lists (<=4 members: 14 scalar types, arrays, nested aggregates, bit-fields of any base/width incl. 0 and unnamed, _Alignas, packed, aligned(N)) against a psABI reference validated on ~11000 shapes against gcc; the real declspec over every sequence of 1-5 type-specifier keywords against the C11 6.7.2p2 table; (E2) generated declarations and hand-written declarator/attribute/anonymous-member shapes through the whole compiler: sizeof/_Alignof/offsets/bit-field images returned by the emitted code equal the psABI values",
   note="5 recorded findings (packed+bit-field, packed+_Alignas, `signed signed`); >5 members outside",
   technique="cbmc bounded model checking of the real layout/specifier code + symbolic execution of emitted sizeof/offsetof code"),
 "C10": dict(engine=E1, level="model_checking",
   text="cbmc over the real preprocess2/skip_cond_incl* on symbolic directive sequences (<=7 items, nesting <=3, controlling values symbolic) against a C11 6.10.1 group-selection reference incl. trailing tokens; the real detect_include_guard on symbolic token lists vs the 'whole file is one guarded group' predicate; the real parse_args/search_include_paths/search_include_next with file_exists a symbolic relation: first hit in (includer dir, -I, system, -idirafter) order, incl. the include_next index after cache hits",
   note="eval_const_expr cut to the embedded bit (its arithmetic is C07); -include/-D/-U interplay beyond ordering outside",
   technique="cbmc bounded model checking of the real preprocessor/driver functions with a symbolic file system"),
 "C13": dict(engine=E1, level="model_checking",
   text="bounded kernels only: (a) the real error_at/verror_at for EVERY NUL-terminated buffer of <= 6 bytes and every location: the reported line is the line containing the location, the echoed source line lies inside the buffer, no out-of-bounds read; (b) the real read_include_filename on 6 operand-line shapes x 6 macro-expansion results: returns a name or diagnoses, and an operand is macro-expanded at most once (termination); the other former crash sites are decided under the property they belong to (constant division by zero: C07; member lookup with unnamed members: C05/C08 E2; assembler acceptance of every generated probe program: all E2 checks; signal propagation in the driver: C14)",
   note="whole-parser robustness on arbitrary token streams and 'every conforming program is accepted' are NOT claimed (not reachable by bounded symbolic execution of this code base); cbmc cannot execute tokenize()'s main loop (see C19)",
   technique="cbmc bounded model checking of diagnostic-location and #include-operand kernels of the real code"),
 "C14": dict(engine=E1, level="model_checking",
   text="cbmc over the real main() of main.c for each command shape (-E/-S/-c/link x -o x 1-2 inputs) with fork/execvp/wait/mkstemp/unlink/fopen/atexit replaced by an environment model in which every child's wait status is symbolic (any exit code or signal): a failing child makes the driver exit non-zero and spawn nothing further, every mkstemp name is unlinked at exit, only requested outputs are produced; in cc1() the output file is opened only after codegen returned",
   note="same-output races between concurrent invocations outside (non-interference argued from mkstemp's uniqueness contract)",
   technique="cbmc bounded model checking of the real driver with a nondeterministic process/file-system environment"),
 "C17": dict(engine=E1, level="model_checking",
   text="inductive step in cbmc: ONE put2/get2/delete2 (and rehash, and the load-factor trigger) from EVERY table state satisfying the representation invariant (capacity 4 and 8; keys with symbolic bytes hashed by the real fnv_hash): invariant preserved, abstract dictionary updated exactly, unreachable() unreachable - covers histories of any length; counterexamples are turned into public-API histories from an empty map and replayed natively",
   note="capacity 16 only for get/delete; macro-table/scope clients rely on the map specification; memcmp/calloc contract stubs (listed in evidence)",
   technique="cbmc inductive-step model checking of the real hashmap.c"),
 "C18": dict(engine=E1, level="model_checking",
   text="cbmc over the real canonicalize_newline/remove_backslash_newline/add_line_numbers on every buffer of <=6 bytes over {\\, LF, CR, letter, space} against a C11 phase-1/2 reference, and over the real preprocess/read_line_marker/line_macro with symbolic physical lines and #line values (both directive forms)",
   note="3 recorded findings (#line off-by-one pinned by test/line.c, marker form, line lag after a splice); positions across nested includes and .loc emission outside",
   technique="cbmc bounded model checking of the real tokenizer/preprocessor line bookkeeping"),
 "C19": dict(engine=E1, level="model_checking",
   text="for every pair of token spellings (each 1-2 symbolic ASCII bytes, identifiers / pp-numbers / punctuators) the real print_tokens output for [A,B] without intervening space is re-lexed and must give exactly [A,B]; the lexer under cbmc is a dispatch model calling the real read_punct/read_ident, validated against the real tokenize() on 4.5 million buffers on every run; counterexamples are replayed through chibicc -E",
   note="string/character literals and spellings >2 bytes outside; cbmc cannot execute tokenize()'s main loop directly (documented)",
   technique="cbmc bounded model checking of the real token printer against a validated lexer model"),
 "C11": dict(engine=E1, level="model_checking",
   text="cbmc over the real unicode.c and tokenize.c literal kernels: UTF-8 encode/decode for EVERY scalar value, Annex D identifier classes for every code point, convert_pp_int's type ladder for every 64-bit value x base x all 23 suffix spellings against the C11 6.4.4.1 table, read_escaped_char on every 5-byte sequence, UTF-16 surrogate arithmetic and UTF-32/wchar readers for every scalar value",
   note="strtoul is a contract stub (digit text -> value not encoded); floating literals are under C02; universal character names and literal concatenation outside",
   technique="solver-based bounded model checking of the real C source (cbmc/SAT)"),
}
NA = {
 "C12": "self-hosting fixpoint is a whole-program relational property of two ~9k-line binaries over all inputs; no available engine (cbmc, z3 encoder) can encode either binary, and a bounded slice says nothing about the fixpoint (DESIGN.md C12)",
}
checks = []
for pid in props:
    if pid in CLAIMED:
        c = CLAIMED[pid]
        checks.append({
            "property_id": pid,
            "quick_cmd": "./check %s --tier quick" % pid,
            "thorough_cmd": "./check %s --tier thorough" % pid,
            "evidence_file": "/verif/evidence/%s.json" % pid,
            "replay_cmd_template": "./check %s --replay {path}" % pid,
            "engine": c["engine"],
            "level_claimed": {"category": c["level"], "text": c["text"], "design_ref": "DESIGN.md section 1, " + pid},
            "level_note": c["note"],
            "technique": c["technique"],
        })
na = [{"property_id": p, "reason": NA.get(p, "check not built yet (work in progress)")} for p in props if p not in CLAIMED]
m = {
 "version": 1,
 "setup_cmd": "python3-vt -c 'import z3' && cbmc --version >/dev/null && mkdir -p /verif/evidence",
 "hooks": {"guard": "CHIBICC_VERIF",
           "enable": "no source hooks are needed: checks copy /repo's working tree to a scratch dir and build it with gcc -DCHIBICC_VERIF; cbmc harnesses #include the real .c files via goto-cc -DCHIBICC_VERIF -I /repo",
           "baseline_off_cmd": "cd /repo && make test", "source_commits": [], "add_only": True},
 "engines": [
  {"name": E1, "path": "lib/e1.py", "serves_properties": [p for p in props if CLAIMED.get(p, {}).get("engine") == E1],
   "kind_free_text": "cbmc over harnesses that #include the real translation units; nondeterministic environment stubs; unwinding assertions; witness twins; native replay"},
  {"name": E2, "path": "lib/asmx.py, lib/e2.py", "serves_properties": [p for p in props if CLAIMED.get(p, {}).get("engine") == E2],
   "kind_free_text": "z3 symbolic executor for the closed x86-64 vocabulary codegen.c can print; probes compiled by the freshly built chibicc"},
 ],
 "checks": checks,
 "not_applicable": na,
 "notes": "exit 0 = held within stated bounds; exit 1 + VIOLATION line = reproduced violation; exit 2 = inconclusive/encoding mismatch (nothing claimed). Known genuine defects: known_findings.json.",
}
json.dump(m, open(os.path.join(HERE, "MANIFEST.json"), "w"), indent=1)
print("claimed:", [c["property_id"] for c in checks])
