#!/bin/bash
# usage: tools/seedconfirm.sh <seed-out-dir/X> ; confirms: demo passes on HEAD, patch applies, make test passes with it, demo fails with it
D=$1
WT=$(mktemp -d /tmp/wt-conf-XXXXXX); rmdir $WT
git -C /repo worktree add -q --detach $WT HEAD || exit 9
cd $WT && make -s -j8 chibicc >/dev/null 2>&1
rundemo() { # $1 = chibicc binary
  T=$(mktemp -d /tmp/demo-XXXXXX); cp -r $D/* $T/ 2>/dev/null; rm -f $T/patch.diff; cd $T
  if [ -f demo.sh ]; then timeout 300 bash demo.sh $1 > out.txt 2>&1; rc=$?; else timeout 120 $1 -I$WT/include -o demo demo.c -lpthread > out.txt 2>&1 && timeout 120 ./demo >> out.txt 2>&1; rc=$?; fi
  tail -3 out.txt | cut -c1-200
  if [ $rc -eq 0 ] && grep -Eq "WRONG|FAIL|MISMATCH|BAD|LOST|exit=[1-9]" out.txt; then rc=1; fi
  cd /; rm -rf $T; return $rc
}
echo "--- demo on unmodified HEAD:"; rundemo $WT/chibicc; base=$?
cd $WT && git apply $D/patch.diff || { echo "patch does not apply"; git -C /repo worktree remove --force $WT; exit 9; }
make -s -j8 chibicc >/dev/null 2>&1 || { echo "BUILD FAILS"; }
rm -f test/*.exe test/*.o; make -j8 test > /tmp/seedconf.$$.log 2>&1; mt=$?
echo "--- make test with patch: rc=$mt ($(grep -c '^OK' /tmp/seedconf.$$.log) OK lines, $(grep -c '\.\.\. passed' /tmp/seedconf.$$.log) driver tests passed)"
echo "--- demo with patch:"; rundemo $WT/chibicc; mut=$?
echo "RESULT base_rc=$base maketest_rc=$mt mutated_rc=$mut"
rm -f /tmp/seedconf.$$.log
git -C /repo worktree remove --force $WT
