# C17 — name tables behave as dictionaries under any history (E1: cbmc over hashmap.c)
# Inductive step: one operation from an arbitrary state satisfying the representation invariant.
import os, re
import vf, e1

KLEN = 2


def step_harnesses(cap, tier, real=False):
    d = ("CAP=%d" % cap, "KLEN=%d" % KLEN)
    k = "cap%d" % cap
    base = ["fnv_hash.0:%d" % (KLEN + 1), "memcmp.0:%d" % (KLEN + 1)]
    U = 2 * cap + 3           # harness loops (slots of a possibly doubled table, key objects)
    one = base + ["get_entry.0:%d" % (cap + 1), "get_or_insert_entry.0:%d" % (cap + 1)]
    # after a rebuild the table has <= cap-1 keys and no tombstones: a probe sees at most cap slots
    two = base + ["get_entry.0:%d" % (cap + 1), "get_or_insert_entry.0:%d" % (cap + 1),
                  "rehash.0:%d" % (cap + 1), "rehash.1:3", "rehash.2:%d" % (cap + 1)]
    to = 900 if tier == "thorough" else 300
    hs = [
        e1.H("h_get", "step/get/" + k, unwind=U, unwindset=one, defines=d, timeout=to),
        e1.H("h_delete", "step/delete/" + k, unwind=U, unwindset=one, defines=d, timeout=to),
        e1.H("h_put", "step/put/" + k, unwind=U, unwindset=one, defines=d, timeout=to,
             replace_calls=("rehash:stub_rehash_never",)),
        e1.H("h_put_trigger", "step/put-at-trigger/" + k, unwind=U, unwindset=one, defines=d, timeout=to,
             replace_calls=("rehash:stub_rehash_contract",), native=False),
        e1.H("h_rehash_modular", "rehash/modular/" + k, unwind=U, unwindset=two, defines=d, timeout=to,
             replace_calls=("hashmap_put2:stub_put_contract",), native=False),
    ]
    if real:
        rec = ["rehash:0", "hashmap_put2:1", "get_or_insert_entry:1"]
        hs += [
            e1.H("h_rehash_real", "rehash/real/" + k, unwind=U, unwindset=two + rec, defines=d, timeout=1500),
            e1.H("h_put_real", "step/put-real-rehash/" + k, unwind=U, unwindset=two + rec, defines=d, timeout=1500),
        ]
    return hs


def main(tier, only=None):
    chk = vf.Check("C17", tier)
    caps = [4, 8] if tier == "quick" else [4, 8, 16]
    chk.bounds += [
        "inductive step: ONE hashmap_put2/get2/delete2 (or rehash) from EVERY table state satisfying the "
        "representation invariant, start capacity in %s; every slot NULL / TOMBSTONE / live with its own key "
        "object; keys 1..%d symbolic bytes hashed by the real fnv_hash (all home-slot / collision / "
        "probe-overlap patterns at these capacities); operated key and an observer key arbitrary" % (caps, KLEN),
        "rehash: real rehash() against the put contract (modular) at the same capacities; real rehash with the "
        "real nested put at capacity 4 in the thorough tier",
    ]
    chk.assumptions += [
        "calloc -> fixed zeroed arena (contract: fresh zeroed storage), request asserted to fit",
        "step/put: rehash replaced by assert-false stub (proves no rehash below 70% load); "
        "step/put-at-trigger: rehash replaced by its contract (arbitrary valid tombstone-free table with the same "
        "entries, load<50%, capacity cap or 2*cap) which rehash/modular + step/put establish",
        "rehash/modular: hashmap_put2 replaced by a logging contract stub (used++), justified by step/put",
        "client obligation assumed: key bytes are not modified while the key is in a table; keylen >= 1",
        "real capacities are 16*2^k: the code is capacity-generic; 4, 8 (16 thorough) are small-scope instances",
    ]
    chk.outside += [
        "capacities > 16, keys longer than %d bytes (hash only matters through home slots, all of which occur)" % KLEN,
        "the clients (macro table in preprocess.c, scopes in parse.c, include memo tables): only the map "
        "specification they rely on is checked, not their call discipline",
        "hashmap_put/get/delete strlen wrappers; hashmap_test",
    ]
    for cap in caps:
        hs = step_harnesses(cap, tier, real=(tier == "thorough" and cap == 4))
        if only:
            hs = [h for h in hs if any(h.key.startswith(o) or o in h.key.split("/") for o in only)]
        if not hs:
            continue
        e1.run_set(chk, "c17/step.c", hs, workers=int(os.environ.get("VERIF_WORKERS", "8")))
    if os.environ.get("VERIF_VERBOSE"):
        for o in chk.obl:
            print("  %-40s %-12s %6.1fs  %s" % (o["key"], o["status"], o["secs"], o["detail"][:100]))
    return chk.finish()


replay = vf.generic_replay
