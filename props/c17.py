# C17 — name tables behave as dictionaries under any history (E1: cbmc over hashmap.c)
# Inductive step: one operation from an arbitrary state satisfying the representation invariant.
import os, re
import vf, e1
import c17hist

KLEN = 2


def step_harnesses(cap, tier, real=False, readonly=False):
    d = ("CAP=%d" % cap, "KLEN=%d" % KLEN)
    k = "cap%d" % cap
    base = ["fnv_hash.0:%d" % (KLEN + 1), "memcmp.0:%d" % (KLEN + 1)]
    U = 2 * cap + 3           # harness loops (slots of a possibly doubled table, key objects)
    one = base + ["get_entry.0:%d" % (cap + 1), "get_or_insert_entry.0:%d" % (cap + 1)]
    # after a rebuild the table has <= cap-1 keys and no tombstones: a probe sees at most cap slots
    two = base + ["get_entry.0:%d" % (cap + 1), "get_or_insert_entry.0:%d" % (cap + 1),
                  "rehash.0:%d" % (cap + 1), "rehash.1:3", "rehash.2:%d" % (cap + 1)]
    to = 900 if tier == "thorough" else 300
    M = "memcmp:stub_memcmp_keys"
    hs = [
        e1.H("h_memcmp_contract", "lemma/memcmp-is-EQ/" + k, unwind=U, unwindset=base, defines=d, timeout=to),
        e1.H("h_fnv_congruence", "lemma/fnv-congruence/" + k, unwind=U, unwindset=base, defines=d, timeout=to),
        e1.H("h_get", "step/get/" + k, unwind=U, unwindset=one, defines=d, timeout=to, replace_calls=(M,)),
        e1.H("h_delete", "step/delete/" + k, unwind=U, unwindset=one, defines=d, timeout=to, replace_calls=(M,)),
        e1.H("h_put", "step/put/" + k, unwind=U, unwindset=one, defines=d, timeout=to,
             replace_calls=(M, "rehash:stub_rehash_never")),
        e1.H("h_put_trigger", "step/put-at-trigger/" + k, unwind=U, unwindset=one, defines=d, timeout=to,
             replace_calls=(M, "rehash:stub_rehash_contract"), native=False),
        e1.H("h_rehash_modular", "rehash/modular/" + k, unwind=U, unwindset=two, defines=d, timeout=to,
             replace_calls=("hashmap_put2:stub_put_contract",), native=False),
    ]
    if readonly:   # capacity 16: put / put-at-trigger did not finish in 900 s, rehash/modular took ~600 s
        hs = [h for h in hs if h.fn in ("h_memcmp_contract", "h_fnv_congruence", "h_get", "h_delete")]
        for h in hs:
            h.timeout = 2400
    if real:
        rec = ["rehash:0", "hashmap_put2:1", "get_or_insert_entry:1"]
        hs += [
            e1.H("h_rehash_real", "rehash/real/" + k, unwind=U, unwindset=two + rec, defines=d, timeout=1500,
                 replace_calls=(M,)),
            e1.H("h_put_real", "step/put-real-rehash/" + k, unwind=U, unwindset=two + rec, defines=d, timeout=1500,
                 replace_calls=(M,)),
        ]
    return hs


def history_replays(chk):
    """For a violated step obligation: re-derive the counterexample as a history through the public API
    from an EMPTY map (real initial capacity 16) and run it natively; when it reproduces, that history
    becomes the replay file (the harness-level replay stays next to it)."""
    for o in chk.obl:
        m = re.match(r"step/(put|get|delete)/cap\d+$", o["key"])
        if o["status"] != "violated" or not m or not o.get("replay"):
            continue
        try:
            text = open(o["replay"]).read()
            src, desc = c17hist.build_history(text, {"put": "put", "get": "get", "delete": "del"}[m.group(1)])
            if src is None:
                o["detail"] += " | no public-API history: " + desc
                continue
            path = chk.write_replay(o["key"] + "-history", src)
            exe = os.path.join(vf.subdir("hist"), "h.exe")
            rc, out, err, _ = vf.run(["gcc", "-w", "-O0", "-I", vf.REPO, "-o", exe, path], timeout=120)
            if rc != 0:
                o["detail"] += " | history replay did not build: " + err[-200:]
                continue
            rc, out, err, _ = vf.run([exe], timeout=60)
            last = [l for l in out.splitlines() if "VIOLATION" in l]
            if rc == 1 and last:
                o["harness_replay"] = o["replay"]
                o["replay"] = path
                o["detail"] = "public-API history from an EMPTY map reproduces it: %s => %s | %s" % (
                    desc, last[0], o["detail"])
                chk.extra["validated"] = chk.extra.get("validated", 0) + 1
            else:
                o["detail"] += " | (state-level replay only; derived public-API history did not expose it)"
        except Exception as ex:  # replay generation is best effort; the harness-level replay stands
            o["detail"] += " | history replay failed: %r" % (ex,)


def main(tier, only=None):
    chk = vf.Check("C17", tier)
    caps = [4, 8] if tier == "quick" else [4, 8, 16]
    chk.bounds += [
        "inductive step: ONE hashmap_put2/get2/delete2 (or rehash) from EVERY table state satisfying the "
        "representation invariant, start capacity in %s (capacity 16: get2 and delete2 only; put2 at 16 did not "
        "finish in 900 s and is NOT claimed); every slot NULL / TOMBSTONE / live with its own key "
        "object; keys 1..%d symbolic bytes hashed by the real fnv_hash (all home-slot / collision / "
        "probe-overlap patterns at these capacities); operated key and an observer key arbitrary" % (caps, KLEN),
        "rehash: real rehash() against the put contract (modular) at the same capacities; real rehash with the "
        "real nested put at capacity 4 in the thorough tier",
    ]
    chk.assumptions += [
        "calloc -> fixed zeroed arena (contract: fresh zeroed storage), request asserted to fit",
        "step/put: rehash replaced by assert-false stub (proves no rehash below 70% load); "
        "step/put-at-trigger: rehash replaced by its contract (arbitrary valid tombstone-free table with the same "
        "entries, load<50%, capacity cap or 2*cap) which rehash/modular + step/put establish",
        "rehash/modular: hashmap_put2 replaced by a logging contract stub (used++), justified by step/put",
        "client obligation assumed: key bytes are not modified while the key is in a table; keylen >= 1",
        "real capacities are 16*2^k: the code is capacity-generic; 4, 8 (16 thorough) are small-scope instances",
    ]
    chk.outside += [
        "capacities > 16, keys longer than %d bytes (hash only matters through home slots, all of which occur)" % KLEN,
        "the clients (macro table in preprocess.c, scopes in parse.c, include memo tables): only the map "
        "specification they rely on is checked, not their call discipline (except the driver's -D/-U discipline: history/cmdline)",
        "hashmap_put/get/delete strlen wrappers; hashmap_test",
    ]
    for cap in caps:
        hs = step_harnesses(cap, tier, real=(tier == "thorough" and cap == 4), readonly=(cap == 16))
        if only:
            hs = [h for h in hs if any(h.key.startswith(o) or o in h.key.split("/") for o in only)]
        if not hs:
            continue
        e1.run_set(chk, "c17/step.c", hs, workers=int(os.environ.get("VERIF_WORKERS", "8")))
    if not only or "history" in only or "cmdline" in only:
        names = ["DA", "DB=2", "UA", "D_A=3", "U_B", "Ulinux", "Dunix=42"]
        seqs = [(i,) for i in range(7)] + [(0, 2), (2, 0), (5, 6), (6, 5), (1, 4), (3, 0)] + ([(a_, b_, c_) for a_ in (0, 5) for b_ in (2, 6) for c_ in (3, 4)] if tier == "thorough" else [(0, 2, 3)])
        chk.bounds += ["history/cmdline: `cc -c -o out.o <1..3 of 7 -D/-U spellings> a.c d/b.c` for %d listed option sequences (joined/separate, with/without body, predefined names); "
                       "NO symbolic input here (cbmc does not finish parse_args on symbolically selected argv strings): the real main()/parse_args()/define() are executed on each "
                       "listed command line and must issue init_macros first, then exactly the command line's operations in order" % len(seqs)]
        hs = []
        for sq in seqs:
            pad = tuple(sq) + (0, 0, 0)
            hs.append(e1.H("h_macro_history", "history/cmdline/" + "+".join(names[i] for i in sq), unwind=101, timeout=300,
                           defines=("MH_N=%d" % len(sq), "MH_0=%d" % pad[0], "MH_1=%d" % pad[1], "MH_2=%d" % pad[2]),
                           desc="operations issued on the macro table by the driver for this -D/-U command line"))
        e1.run_set(chk, "c14/driver.c", hs, workers=8, extra_src=[os.path.join(vf.REPO, "strings.c")])
    if not only or "history" in only or "cmdline" in only:
        chk.bounds += ["history/cc1-cmdline: the cc1 child of `cc -c <opts> a.c` for <opts> in {-UA -DA=3, -DA=3 -UA, -U B -DB=2 -U A}: by the time the source is read the macro table "
                       "has received init_macros and then exactly these operations in command-line order, wherever main()/parse_args()/cc1() issue them (listed command lines, no symbolic argv)"]
        e1.run_set(chk, "c14/cc1.c", [e1.H("h_cc1_macro_order", "history/cc1-cmdline/%s" % nm, unwind=40, timeout=300, defines=("MO_SEQ=%d" % k,),
                                            desc="operations applied to the macro table before the source is read") for k, nm in enumerate(("UA+DA=3", "DA=3+UA", "U_B+DB=2+U_A"))],
                   workers=3, extra_src=[os.path.join(vf.REPO, "strings.c")])
    if not only or "history" in only or "macros" in only:
        chk.bounds += ["history/macro-table: every history of <= 4 operations over {#define A (two bodies/kinds), #undef A, builtin A, -D A, #define B, #undef B} through the real "
                       "add_macro/define_macro/undef_macro/add_builtin, observed through the real find_macro (symbolic history)"]
        e1.run_set(chk, "c17/macros.c", [e1.H("h_macro_history", "history/macro-table/last-operation-wins", unwind=12, timeout=600,
                                              desc="real macro-table operations of preprocess.c under a symbolic history")], workers=2)
    history_replays(chk)
    if os.environ.get("VERIF_VERBOSE"):
        for o in chk.obl:
            print("  %-40s %-12s %6.1fs  %s" % (o["key"], o["status"], o["secs"], o["detail"][:100]))
    return chk.finish()


replay = vf.generic_replay
