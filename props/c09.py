# C09 — macro expansion kernels (E1: cbmc over the real preprocess.c)
import vf, e1, c09shapes

SUBST_CUTS = ("preprocess2:stub_preprocess2", "paste:stub_paste", "stringize:stub_stringize",
              "find_arg:stub_find_arg")
SYM = "x y # ## a ,".split()


def main(tier, only=None):
    chk = vf.Check("C09", tier)
    want = lambda fam: (not only) or fam in only
    q, allsh = c09shapes.shapes()
    shapes = allsh if tier != "quick" else q
    nb = c09shapes.nbatches(len(shapes))
    chk.bounds += [
        "hideset: hideset_union/intersection/contains on every pair of lists of <= 3 names over the pool {A, AB, B} "
        "(one name a proper prefix of another), every queried name",
        "subst: %d macro bodies over {x, y, #, ##, a, ','}%s, each with the two arguments independently empty or "
        "one token (symbolic): every body of <= 2 tokens%s, all `P ## Q ## R` and `a P ## Q ## a` chains"
        % (len(shapes), "" if tier != "quick" else " (quick subset)",
           ", every body of 3 tokens, every 4-token body over {x,y,#,##,a} with an operator, every 5/6-token body "
           "over {x,y,##,a} with two inner non-adjacent ##" if tier != "quick" else ", every `P ## Q` with P,Q in {x,y,a,',',#}"),
    ]
    chk.assumptions += [
        "bodies are enumerated shapes (lib/c09shapes.py); IN.shape / IN.xempty / IN.yempty are symbolic, but one cbmc "
        "run explores its batch of 16 shapes x 4 emptiness combinations case by case with concrete data inside each "
        "case (a symbolic body or symbolic emptiness on 5-6 token bodies does not finish: cbmc's pointer reasoning over "
        "the copied token lists)",
        "subst harness: paste()/stringize() cut to spelling-level equivalents (one token l.r / one string literal), "
        "find_arg() cut to the same contract on the packed spelling, argument pre-expansion (preprocess2) cut to the "
        "identity (asserted: arguments contain no macro); pastes that do not form one valid token (C11: undefined) "
        "are excluded",
        "tokens are built by the harness; equal() compares a packed copy of the spelling kept in Token.val",
    ]
    chk.outside += [
        "ATTEMPTED, NOT FINISHING (dropped, nothing claimed): a fully symbolic macro body for subst(); termination / "
        "complete rescanning of <= 3 mutually referential object-like macros through the real expand_macro/preprocess2 "
        "(harness h_terminate is kept in harness/c09/macro.c; even 3 one-token macros exceed 200 s in cbmc 6.11 symex)",
        "`##` with an operand that is the result of `#` (e.g. `x ## # y`: chibicc gives `# q`, gcc `\"q\"`): the order of "
        "evaluation of # and ## is unspecified (C11 6.10.3.2p2), nothing claimed",
        "whether ill-formed replacement lists (`#` not followed by a parameter, `##` at an end) are diagnosed — e.g. "
        "`x ## #` is accepted silently (gcc rejects it): constraint violation, no token sequence prescribed",
        "function-like rescanning across the invocation boundary, variadic forms beyond the __VA_OPT__ kernel (`, ##`), "
        "read_macro_args, stringification of arguments beyond the kernels/stringize alphabet, arguments of more than one token",
    ]
    if want("hideset"):
        e1.run_set(chk, "c09/macro.c", [e1.H("h_hideset", "hideset/algebra", unwind=10, timeout=300),
                                         e1.H("h_expand_hideset", "hideset/expansion-gets-intersection-plus-name", unwind=12, timeout=600, object_bits=11,
                                              desc="real expand_macro on `FM ( ) z` / `OM z` with symbolic hide sets on the macro token, the closing paren and the next token")], workers=3)
    if want("kernels"):
        chk.bounds += ["stringize: the real stringize() on 1..2 tokens of symbolic kind over { ab, \\, \"x\\n\", '\\\\', \"q\", + } with symbolic white space (none, blanks, or a new-line inside the invocation)",
                       "__VA_OPT__: the real subst() on `__VA_OPT__ ( x a ) y` with __VA_ARGS__ present/absent and x, y independently empty"]
        e1.run_set(chk, "c09/strz.c", [e1.H("h_stringize", "kernels/stringize-escapes-only-in-literals", unwind=42, timeout=900, object_bits=12),
                                        e1.H("h_vaopt", "kernels/va-opt-contents-substituted", unwind=14, timeout=600,
                                             replace_calls=("preprocess2:stub_preprocess2",), native=False)], workers=2)
    if want("subst"):
        hs = []
        for j in range(nb):
            lo = j * c09shapes.BATCH
            sample = " | ".join(" ".join(SYM[t] for t in b) for b in shapes[lo:lo + 3])
            hs.append(e1.H("h_sb_%d" % j, "subst/batch-%03d" % j, unwind=10, object_bits=12, timeout=900,
                           unwindset=("run_batch.0:17", "run_batch.1:17", "run_batch.2:17", "run_batch.3:17"),
                           replace_calls=SUBST_CUTS, defines=("HK_subst",),
                           desc="shapes %d..%d e.g. %s" % (lo, min(lo + 15, len(shapes) - 1), sample)))
        e1.run_set(chk, "c09/macro.c", hs, workers=8)
    return chk.finish()


replay = vf.generic_replay
