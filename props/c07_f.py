# C07 (E2, floating part): constant expressions with floating operands. The folder (parse.c eval_double and the
# floating entry points of eval2: casts, comparisons, truth tests, ?:) is a second implementation of C arithmetic
# in host arithmetic; here generated constant expressions over boundary literals of float/double/long double and
# the integer types are used as static initializers of objects of several types; the emitted data image is read
# back by symbolic execution and must equal the C11 value, computed by an independent reference (z3 floating-point
# theory, IEEE-754 round-to-nearest-even at the type of every node, x87 extended for long double). The same
# expression compiled as run-time code must give the same bits. The reference is validated against gcc for every
# generated program first (oracle validation only; disagreeing programs are dropped and counted).
import os, random, z3
import vf, e2, asmx, cref
import c02
from cref import INT, UINT, LONG, ULONG, CHAR, UCHAR, SHORT, USHORT, BOOL, FLOAT, DOUBLE, LDOUBLE, is_fp

TRUE = z3.BoolVal(True)
RNE = z3.RNE()

FLITS = {
    FLOAT: ["0.1f", "0.5f", "1.0f", "3.0f", "0.7f", "16777216.0f", "1e10f", "2.5f", "0.0f"],
    DOUBLE: ["0.1", "0.2", "0.7", "0.5", "2.5", "1e19", "3e9", "16777217.0", "1.9", "2.9", "9007199254740993.0", "1e300", "4.9e-324", "0.0",
             "18446744073709549568.0", "0.25", "1.25"],
    LDOUBLE: ["0.1L", "1.0L", "3.0L", "1e19L", "18446744073709551615.0L", "9223372036854775807.0L", "0.5L", "2.5L"],
}
ILITS = {
    INT: ["0", "1", "2", "3", "(-1)", "16777217", "2147483647", "7"],
    UINT: ["4294967295u", "3u"],
    LONG: ["9007199254740993L", "9223372036854775807L", "(-3L)"],
    ULONG: ["18446744073709551615UL", "9223372036854775809UL", "5UL"],
}
CAST_TO = [FLOAT, DOUBLE, LDOUBLE, INT, UINT, LONG, ULONG, BOOL, CHAR, UCHAR, SHORT]
FMT = {FLOAT: (8, 24), DOUBLE: (11, 53), LDOUBLE: (15, 64)}


def flit(text, t):
    base = text.rstrip("fLl")
    eb, prec = FMT[t]
    bits = c02.round_bits(c02.parse_literal(base), eb, prec, explicit_int=(t is LDOUBLE))
    if t is LDOUBLE:
        return asmx.x87_from_bits(z3.BitVecVal(bits, 80))
    return z3.fpBVToFP(z3.BitVecVal(bits, t.bits), t.sort)


def ilit(text, t):
    s = text.strip("()").rstrip("uUlL")
    return z3.BitVecVal(int(s), t.bits)


class E:
    def __init__(self, text, val, ty, ok=True):
        self.text, self.val, self.ty, self.ok = text, z3.simplify(val), ty, ok
        if not is_fp(ty) and not z3.is_bv_value(self.val):          # undefined integer operation (e.g. division by zero)
            self.val, self.ok = z3.BitVecVal(0, ty.bits), False


def raw(e):
    """raw bit pattern as expected by c02.ref_conv/ref_bin"""
    if not is_fp(e.ty):
        return e.val
    if e.ty is LDOUBLE:
        return z3.simplify(asmx.x87_to_bits(e.val))
    return z3.simplify(z3.fpToIEEEBV(e.val))


def finite(v):
    return z3.is_true(z3.simplify(z3.And(z3.Not(z3.fpIsNaN(v)), z3.Not(z3.fpIsInf(v)))))


def truth(e):
    if is_fp(e.ty):
        return not z3.is_true(z3.simplify(z3.fpIsZero(e.val)))
    return z3.simplify(e.val).as_long() != 0


def conv(e, t):
    v, d = c02.ref_conv(raw(e), e.ty, t)
    ok = e.ok and z3.is_true(z3.simplify(d))
    v = z3.simplify(v)
    if is_fp(t) and not finite(v):
        ok = False
    return v, ok


def gen(rnd, depth, need_fp=False):
    if depth == 0 or rnd.random() < 0.15:
        if need_fp or rnd.random() < 0.7:
            t = rnd.choice(list(FLITS))
            txt = rnd.choice(FLITS[t])
            return E(txt, flit(txt, t), t)
        t = rnd.choice(list(ILITS))
        txt = rnd.choice(ILITS[t])
        return E(txt, ilit(txt, t), t)
    k = rnd.random()
    if k < 0.45:
        op = rnd.choice(["+", "-", "*", "/", "+", "*", "<", "<=", ">", ">=", "==", "!="])
        a, b = gen(rnd, depth - 1), gen(rnd, depth - 1)
        if not (is_fp(a.ty) or is_fp(b.ty)):
            v, t, d = cref.binop(op, a.val, a.ty, b.val, b.ty)
            return E("(%s %s %s)" % (a.text, op, b.text), v, t, a.ok and b.ok and z3.is_true(z3.simplify(d)))
        v, t, d = c02.ref_bin(op, raw(a), a.ty, raw(b), b.ty)
        ok = a.ok and b.ok
        v = z3.simplify(v)
        if op == "/":
            bz, _ = conv(b, t)
            ok = ok and not z3.is_true(z3.simplify(z3.fpIsZero(bz)))
        if is_fp(t) and not finite(v):
            ok = False
        return E("(%s %s %s)" % (a.text, op, b.text), v, t, ok)
    if k < 0.55:
        a = gen(rnd, depth - 1, need_fp=True)
        if not is_fp(a.ty):
            v, t, d = cref.unop("-", a.val, a.ty)
            return E("(-%s)" % a.text, v, t, a.ok and z3.is_true(z3.simplify(d)))
        return E("(-%s)" % a.text, z3.fpNeg(a.val), a.ty, a.ok)
    if k < 0.62:
        a = gen(rnd, depth - 1)
        return E("(!%s)" % a.text, z3.BitVecVal(0 if truth(a) else 1, 32), INT, a.ok)
    if k < 0.72:
        op = rnd.choice(["&&", "||"])
        a, b = gen(rnd, depth - 1), gen(rnd, depth - 1)
        ta = truth(a)
        if op == "&&":
            v, ok = (ta and truth(b)), a.ok and (b.ok or not ta)
        else:
            v, ok = (ta or truth(b)), a.ok and (b.ok or ta)
        return E("(%s %s %s)" % (a.text, op, b.text), z3.BitVecVal(1 if v else 0, 32), INT, ok)
    if k < 0.9:
        t = rnd.choice(CAST_TO)
        a = gen(rnd, depth - 1)
        v, ok = conv(a, t)
        return E("((%s)%s)" % (t.name, a.text), v, t, ok)
    c, a, b = gen(rnd, depth - 1), gen(rnd, depth - 1), gen(rnd, depth - 1)
    t = c02.fp_common(a.ty, b.ty) if (is_fp(a.ty) or is_fp(b.ty)) else cref.cond_type(a.ty, b.ty)
    tc = truth(c)
    v, ok = conv(a if tc else b, t)
    return E("(%s ? %s : %s)" % (c.text, a.text, b.text), v, t, c.ok and (a.ok if tc else b.ok) and ok)


def has_fp(text):
    return any(ch in text for ch in ".") or "e1" in text


def hexof(v, t):
    if is_fp(t):
        b = z3.simplify(asmx.x87_to_bits(v) if t is LDOUBLE else z3.fpToIEEEBV(v))
        return "%0*x" % (20 if t is LDOUBLE else t.bits // 4, b.as_long())
    return "%0*x" % (t.bits // 4, z3.simplify(v).as_long())


def double_rounding_witnesses(seed, per_op=6):
    """operand pairs (as C literals of type double) for which rounding the exact result first to the x87 extended format
    and then to double differs from rounding it to double directly -- the inputs on which a folder that computes in a
    wider host type goes wrong by one ulp. Found by exact rational search over structured candidates (small-integer
    quotients, products of 33-bit integers, sums across 2^64); each is verified exactly before use."""
    from fractions import Fraction as Fr
    rnd = random.Random(seed * 9176 + 5)

    def to_frac(bits, eb, prec, explicit):
        bias = (1 << (eb - 1)) - 1
        if explicit:
            e, m = bits >> prec, bits & ((1 << prec) - 1)
            return Fr(m, 1 << (prec - 1)) * Fr(2) ** ((e if e else 1) - bias)
        e, m = bits >> (prec - 1), bits & ((1 << (prec - 1)) - 1)
        if e == 0:
            return Fr(m, 1 << (prec - 1)) * Fr(2) ** (1 - bias)
        return (1 + Fr(m, 1 << (prec - 1))) * Fr(2) ** (e - bias)

    def differs(r):
        if r <= 0:
            return False
        d = c02.round_bits(r, 11, 53)
        x = to_frac(c02.round_bits(r, 15, 64, explicit_int=True), 15, 64, True)
        return c02.round_bits(x, 11, 53) != d

    out = {"/": [], "*": [], "+": [], "-": []}
    tries = 0
    while len(out["/"]) < per_op and tries < 200000:
        tries += 1
        a, b = rnd.randrange(1, 64), rnd.randrange(3, 8000) | 1
        if differs(Fr(a, b)):
            out["/"].append(("%d.0" % a, "%d.0" % b))
    tries = 0
    while len(out["*"]) < per_op and tries < 200000:
        tries += 1
        a, b = (1 << 32) + rnd.randrange(1, 1 << 13), (1 << 32) + rnd.randrange(1, 1 << 13)
        if differs(Fr(a * b)):
            out["*"].append(("%d.0" % a, "%d.0" % b))
    tries = 0
    while len(out["+"]) < per_op and tries < 200000:
        tries += 1
        k = rnd.randrange(60, 70)
        a, b = 1 << k, (rnd.randrange(1, 64) | 1) * (1 << (k - 53)) + rnd.randrange(1, 8)
        if differs(Fr(a + b)):
            out["+"].append(("%d.0" % a, "%d.0" % b))
        if a - b > 0 and differs(Fr(a - b)) and len(out["-"]) < per_op:
            out["-"].append(("%d.0" % a, "%d.0" % b))
    return out


def mk_probes(seed, count):
    rnd = random.Random(seed * 7727 + 3)
    out, seen = [], set()
    tries = 0
    n = 0
    while len(out) < count and tries < count * 60:
        tries += 1
        e = gen(rnd, rnd.choice([1, 1, 2, 2, 3]))
        if not e.ok or e.text in seen or not e.text.startswith("(") or "." not in e.text:
            continue
        seen.add(e.text)
        targets = [e.ty] + rnd.sample([t for t in (FLOAT, DOUBLE, LDOUBLE, LONG, ULONG, BOOL, INT, UCHAR) if t is not e.ty], 2)
        for t in targets:
            v, ok = conv(e, t)
            if not ok:
                continue
            n += 1
            ref = (lambda v: lambda: (v, TRUE))(v)
            p = e2.ScalarProbe("fconst/static/%s/%d" % (t.cid, n), "fs%d" % n, t, [], "static %s g_ = %s; return g_;" % (t.name, e.text), ref, family="fconst")
            p.expected_hex_ = hexof(v, t)
            p.expr = e.text
            out.append(p)
        n += 1
        v0, _ = conv(e, e.ty)
        p = e2.ScalarProbe("fconst/run-time/%s/%d" % (e.ty.cid, n), "fr%d" % n, e.ty, [], "return %s;" % e.text, (lambda v: lambda: (v, TRUE))(v0), family="fconst")
        p.expected_hex_ = hexof(v0, e.ty)
        p.expr = e.text
        out.append(p)
    # double-rounding witnesses: double operations whose exact result rounds differently via the x87 extended format
    W = double_rounding_witnesses(seed)
    for op, pairs in W.items():
        for (a, b) in pairs:
            ea, eb_ = E(a, flit(a, DOUBLE), DOUBLE), E(b, flit(b, DOUBLE), DOUBLE)
            v, t, d = c02.ref_bin(op, raw(ea), DOUBLE, raw(eb_), DOUBLE)
            v = z3.simplify(v)
            text = "(%s %s %s)" % (a, op, b)
            for kind, body in (("static", "static double g_ = %s; return g_;" % text), ("run-time", "return %s;" % text),
                               ("static-float-operands", None)):
                if body is None:
                    continue
                n += 1
                p = e2.ScalarProbe("fconst/double-rounding/%s/%s/%d" % (kind, {"+": "add", "-": "sub", "*": "mul", "/": "div"}[op], n), "fw%d" % n, DOUBLE, [], body,
                                   (lambda v: lambda: (v, TRUE))(v), family="fconst")
                p.expected_hex_ = hexof(v, DOUBLE)
                p.expr = text
                out.append(p)
    return out


def gcc_filter(probes):
    """oracle validation: keep only probes on which gcc computes the reference's bits"""
    d = vf.subdir("c07f")
    keep, dropped = [], []
    B = 60
    for i in range(0, len(probes), B):
        grp = probes[i:i + B]
        src = e2.ScalarProbe.DRIVER_PRE + "".join(p.csrc for p in grp) + "int main(void){\n"
        for p in grp:
            nbytes = 10 if p.ret is LDOUBLE else p.ret.bits // 8
            src += "  { %s r = %s(); show(&r, %d); }\n" % (p.ret.name, p.fn, nbytes)
        src += "  return 0; }\n"
        base = os.path.join(d, "g%d_%d" % (os.getpid(), i))
        with open(base + ".c", "w") as fh:
            fh.write(src)
        rc, o, e, _ = vf.run(["gcc", "-w", "-O0", "-o", base + ".exe", base + ".c"], timeout=120)
        lines = []
        if rc == 0:
            rc, o, e, _ = vf.run([base + ".exe"], timeout=30)
            lines = o.split()
        for suf in (".c", ".exe"):
            try:
                os.remove(base + suf)
            except OSError:
                pass
        if len(lines) != len(grp):
            # gcc rejects one of them (e.g. not a constant expression for gcc): fall back to one by one
            if len(grp) > 1:
                for p in grp:
                    k, dr = gcc_filter_one(p, d)
                    keep += k
                    dropped += dr
            else:
                dropped += grp
            continue
        for p, ln in zip(grp, lines):
            (keep if ln == p.expected_hex_ else dropped).append(p)
    return keep, dropped


def gcc_filter_one(p, d):
    src = e2.ScalarProbe.DRIVER_PRE + p.csrc + "int main(void){ %s r = %s(); show(&r, %d); return 0; }\n" % (p.ret.name, p.fn, 10 if p.ret is LDOUBLE else p.ret.bits // 8)
    base = os.path.join(d, "o%d_%s" % (os.getpid(), p.fn))
    with open(base + ".c", "w") as fh:
        fh.write(src)
    rc, o, e, _ = vf.run(["gcc", "-w", "-O0", "-o", base + ".exe", base + ".c"], timeout=60)
    ok = False
    if rc == 0:
        rc, o, e, _ = vf.run([base + ".exe"], timeout=30)
        ok = o.strip() == p.expected_hex_
    for suf in (".c", ".exe"):
        try:
            os.remove(base + suf)
        except OSError:
            pass
    return ([p], []) if ok else ([], [p])


def run(chk, tier):
    count = 700 if tier == "quick" else 8000
    probes = mk_probes(chk.seed, count)
    keep, dropped = gcc_filter(probes)
    chk.extra["fconst_probes"] = len(keep)
    chk.extra["fconst_dropped_reference_vs_gcc"] = len(dropped)
    chk.extra["fconst_dropped_examples"] = [p.expr for p in dropped[:5]]
    if len(dropped) > len(probes) // 5:
        chk.add("fconst/oracle-validation", "inconclusive", "reference and gcc disagree on %d of %d generated floating constant expressions" % (len(dropped), len(probes)))
    e2.run_probes(chk, keep, chunk=16)
    for p in keep[:3]:
        chk.sample(dict(key=p.key, c=p.csrc.strip()))
    chk.bounds.append("floating constant expressions (E2): %d (expression, object type) pairs: expressions of depth <= 3 over %d boundary literals of float/double/long double and the integer "
                      "types, + - * /, six comparisons, unary -, !, && ||, ?:, casts to 11 types; each as static initializer of an object of its own type and of two other types "
                      "(float, double, long double, long, unsigned long, _Bool, int, unsigned char), and compiled as run-time code" % (len(keep), sum(len(v) for v in FLITS.values()) + sum(len(v) for v in ILITS.values())))
    chk.outside.append("floating constant expressions whose value (at any node) is infinite or NaN, or whose conversion to an integer type is out of range (undefined in C11)")
    chk.functions.update(["parse.c:eval_double/eval_fround/eval_truth/eval_fcmp (via emitted data)", "parse.c:write_gvar_data (float/double/long double/_Bool)"])
