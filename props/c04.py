# C04 — every lvalue designates exactly its object's bytes and bits (E2: asm-smt)
import z3
import vf, e2, asmx, cref, abi
from cref import BOOL, CHAR, SHORT, INT, LONG, UCHAR, USHORT, UINT, ULONG, conv

TRUE = z3.BoolVal(True)
bv = asmx.bv
BF_TYPES = [CHAR, UCHAR, SHORT, USHORT, INT, UINT, LONG, ULONG]


def bf_value(v, t, w):
    """value of a bit-field of declared type t and width w that holds the low w bits of v"""
    low = z3.Extract(w - 1, 0, v)
    if w == t.bits:
        return v
    return z3.SignExt(t.bits - w, low) if t.signed else z3.ZeroExt(t.bits - w, low)


class MemProbe(e2.Probe):
    """A function taking pointers to objects. Each pointer argument is bound to a distinct named object
    (&P0, &P1, ...), so accesses are tracked per object. Checks: return value (post) and the frame condition:
    no store outside the bytes [lo, hi) of the objects the function may write, nothing else in memory written."""

    def __init__(self, key, fn, csrc, ret, nptr, objsize, post, extern_ret=None, max_visits=4):
        self.key, self.fn, self.family, self.csrc = key, fn, key.split("/")[0], csrc
        self.ret, self.nptr, self.objsize, self.post = ret, nptr, objsize, post
        self.extern_ret = extern_ret
        self.max_visits = max_visits

    def init(self, M, s):
        for i in range(self.nptr):
            s.regs[abi.GP_ARGS[i]] = M.symaddr("P%d_%s" % (i, self.fn))

    def obj(self, M, i):
        return M.symaddr("P%d_%s" % (i, self.fn))

    def initial(self, M, i, off, n=1):
        bs = [z3.Select(M.M0, asmx.simp(self.obj(M, i) + bv(off + k))) for k in range(n)]
        return asmx.simp(z3.Concat(*reversed(bs))) if n > 1 else bs[0]

    def write_window(self, i):
        """byte range of object i that the function is allowed to modify"""
        return (0, self.objsize) if i == 0 else (0, 0)

    def goals(self, M, finals):
        out = []
        ptrs = [self.obj(M, i) for i in range(self.nptr)]
        H0 = [z3.Extract(3, 0, M.RSP0) == bv(8, 4)]
        for pi, s in enumerate(finals):
            if s.dead:
                continue
            H = H0 + s.pc
            out.append(e2.Goal("frame/p%d" % pi, H, z3.And(s.regs["rsp"] == M.RSP0 + bv(8), s.regs["rbp"] == z3.BitVec("in_rbp", 64))))
            for g in self.post(M, s, ptrs, H):
                g.name += "/p%d" % pi
                out.append(g)
            # frame condition (decided on the executor's own store sets: all offsets are concrete here)
            stray = []
            if not s.heap.eq(M.M0):
                stray.append("a store through a pointer that is none of the arguments")
            for k, reg in s.regions.items():
                if k == "RSP":
                    continue
                idx = [i for i in range(self.nptr) if k == "&P%d_%s" % (i, self.fn)]
                lo, hi = self.write_window(idx[0]) if idx else (0, 0)
                bad = sorted(o for o in reg if not (lo <= o < hi))
                if bad:
                    stray.append("object %s written at byte offsets %s outside [%d,%d)" % (k, bad[:6], lo, hi))
            if s.spilled_regions - {"RSP"}:
                stray.append("symbolic-offset access to %s" % sorted(s.spilled_regions))
            out.append(e2.Goal("untouched/p%d" % pi, H, z3.BoolVal(not stray), note="; ".join(stray)))
        return out


def bitfield_probes(fn, tier):
    P = []
    full = tier == "thorough"
    for t in BF_TYPES + [BOOL]:
        widths = range(1, t.bits + 1) if full else sorted(set([1, 2, 3, 7, 8, 9, 15, 16, 17, 31, 32, 33, 63, 64]) & set(range(1, t.bits + 1)))
        if t is BOOL:
            widths = [1]          # a _Bool bit-field holds 0 or 1; the stored value is (v != 0), v an int
        for w in widths:
            if full or t is BOOL:
                offs = range(0, t.bits - w + 1)
            else:
                offs = sorted(set([0, 1, 3, 5, 8, 13, 24, 31, t.bits - w]) & set(range(0, t.bits - w + 1)))
            for o in offs:
                rest = t.bits - w - o
                nt = "unsigned char" if t is BOOL else t.name       # neighbours of a _Bool bit-field: same storage unit size
                rt_ = "int" if t is BOOL else t.name                 # a _Bool bit-field is read back as an int (promotion)
                decl = "struct B { long lead; %s%s f : %d;%s long tail; };" % (
                    ("%s a : %d; " % (nt, o)) if o else "", t.name, w, (" %s c : %d;" % (nt, rest)) if rest else "")
                key = "%s/w%d/o%d" % (t.cid, w, o)

                def mk(f):
                    return decl.replace("struct B", "struct B_%s" % f), "struct B_%s" % f
                f = fn()
                src, sname = mk(f)
                vt = "int" if t is BOOL else t.name
                body = ("%s\nlong %s(%s *p, %s v) {\n" % (src, f, sname, vt) +
                        "  long a0 = %s, c0 = %s, l0 = p->lead, t0 = p->tail;\n" % ("p->a" if o else "0", "p->c" if rest else "0") +
                        "  p->f = v;\n  %s r = p->f;\n" % rt_ +
                        "  return (long)(r == r) | ((%s == a0) << 1) | ((%s == c0) << 2) | ((p->lead == l0) << 3) | ((p->tail == t0) << 4);\n}\n"
                        % ("p->a" if o else "0", "p->c" if rest else "0"))
                P.append(BitfieldProbe("bf/neighbours/" + key, f, body, t, w, o, rest, "neighbours"))
                f = fn()
                src, sname = mk(f)
                P.append(BitfieldProbe("bf/readback/" + key, f, "%s\n%s %s(%s *p, %s v) { p->f = v; return p->f; }\n" % (src, rt_, f, sname, vt),
                                       t, w, o, rest, "readback"))
                if full or o in (0, 3) or w in (1, t.bits):
                    f = fn()
                    src, sname = mk(f)
                    P.append(BitfieldProbe("bf/assignvalue/" + key, f, "%s\n%s %s(%s *p, %s v) { return p->f = v; }\n" % (src, rt_, f, sname, vt),
                                           t, w, o, rest, "assignvalue"))
    return P


class BitfieldProbe(MemProbe):
    def __init__(self, key, fn, csrc, t, w, o, rest, mode):
        self.key, self.fn, self.family = key, fn, "bf"
        self.csrc = csrc or ""
        self.t, self.w, self.o, self.rest, self.mode = t, w, o, rest, mode
        self.nptr, self.objsize = 1, 8 + t.size + 8 + 16
        self.extern_ret = None
        self.max_visits = 4

    def write_window(self, i):
        return (8, 8 + self.t.size)       # only the bit-field's storage unit (after `long lead`)

    def post(self, M, s, ptrs, H):
        t, w = self.t, self.w
        reg = z3.BitVec("in_rsi", 64)
        v = z3.Extract(t.bits - 1, 0, reg) if t.bits < 64 else reg
        rax = s.regs["rax"]
        if self.mode == "neighbours":
            return [e2.Goal("bits", H, rax == bv(31), {"v": v}, note="stored value not read back, or a neighbouring member / bit-field changed (result bit mask %s)" % "r|a|c|lead|tail")]
        want = bf_value(v, t, w)
        if t is BOOL:
            want = z3.If(z3.Extract(31, 0, reg) != 0, bv(1, 32), bv(0, 32))
            return [e2.Goal("value", H, z3.Extract(31, 0, rax) == want, {"v": v, "__expected": want}, note="read-back (as int) of a _Bool bit-field")]
        got = z3.Extract(t.bits - 1, 0, rax) if t.bits < 64 else rax
        return [e2.Goal("value", H, got == want, {"v": v, "__expected": want},
                        note="%s of a %d-bit %s bit-field" % ("value of the assignment expression" if self.mode == "assignvalue" else "read-back", w, t.name))]

    def runtime_replay(self):
        return None


def mk_probes(tier, only=None):
    P = []
    n = [0]

    def fn():
        n[0] += 1
        return "m%d" % n[0]

    def want(f):
        return only is None or f in only

    full = tier == "thorough"
    if want("bf"):
        P += bitfield_probes(fn, tier)
        # compound assignment and ++ on bit-fields
        for t in [INT, UINT, CHAR, ULONG]:
            for w, o in [(3, 0), (5, 3), (t.bits, 0)] + ([(13, 9)] if t.bits >= 32 else []):
                f = fn()
                decl = "struct C_%s { %s%s f : %d; %s rest; };" % (f, ("%s a : %d; " % (t.name, o)) if o else "", t.name, w, t.name)
                def refadd(p, v, t=t, w=w):
                    return None
                P.append(BfOpProbe("bf/addassign/%s/w%d/o%d" % (t.cid, w, o), f, decl, t, w, o, "p->f += v; return p->f;", "+"))
                f = fn()
                P.append(BfOpProbe("bf/xorassign/%s/w%d/o%d" % (t.cid, w, o), f, decl.replace("C_" + P[-1].fn, "C_" + f), t, w, o, "p->f ^= v; return p->f;", "^"))
                f = fn()
                P.append(BfOpProbe("bf/preinc/%s/w%d/o%d" % (t.cid, w, o), f, decl.replace("C_" + P[-2].fn, "C_" + f), t, w, o, "++p->f; return p->f;", "inc"))
                f = fn()
                P.append(BfOpProbe("bf/postinc-value/%s/w%d/o%d" % (t.cid, w, o), f, decl.replace("C_" + P[-3].fn, "C_" + f), t, w, o, "return p->f++;", "postinc"))
                f = fn()
                P.append(BfOpProbe("bf/postdec-stored/%s/w%d/o%d" % (t.cid, w, o), f, decl.replace("C_" + P[-4].fn, "C_" + f), t, w, o, "p->f--; return p->f;", "dec"))
    if want("copy"):
        sizes = range(1, 41) if full else [1, 2, 3, 4, 7, 8, 9, 12, 15, 16, 17, 24, 31, 32, 33, 40]
        for sz in sizes:
            f = fn()
            src = "struct K_%s { char c[%d]; };\nvoid %s(struct K_%s *d, struct K_%s *s) { *d = *s; }\n" % (f, sz, f, f, f)
            P.append(CopyProbe("copy/assign/%d" % sz, f, src, sz))
            f = fn()
            src = ("struct K_%s { char c[%d]; };\nstruct W_%s { long pre; struct K_%s in; long post; };\n"
                   "void %s(struct W_%s *d, struct K_%s *s) { d->in = *s; }\n" % (f, sz, f, f, f, f, f))
            P.append(CopyProbe("copy/member/%d" % sz, f, src, sz, dst_off=8))
    if want("addr"):
        P += addr_probes(fn, full)
    if want("frame"):
        P += frame_probes(fn, full)
    if want("alloca"):
        P += alloca_probes(fn, full)
    if want("zero"):
        P += zero_probes(fn, full)
    if want("vla"):
        P += vla_probes(fn, full)
    return P


class BfOpProbe(MemProbe):
    def __init__(self, key, fn, decl, t, w, o, body, op):
        self.key, self.fn, self.family = key, fn, "bf"
        self.t, self.w, self.o, self.op = t, w, o, op
        self.csrc = "%s\n%s %s(struct C_%s *p, %s v) { %s }\n" % (decl, t.name, fn, fn, t.name, body)
        self.nptr, self.objsize = 1, 2 * t.size + 8
        self.extern_ret = None
        self.max_visits = 4

    def write_window(self, i):
        return (0, self.t.size)

    def post(self, M, s, ptrs, H):
        t, w, o = self.t, self.w, self.o
        reg = z3.BitVec("in_rsi", 64)
        v = z3.Extract(t.bits - 1, 0, reg) if t.bits < 64 else reg
        # initial field value from initial memory (little endian, storage unit at offset 0 of the struct)
        unit = self.initial(M, 0, 0, t.size)
        old = bf_value(z3.LShR(unit, bv(o, t.bits)), t, w)
        if self.op == "postinc":
            # the value of p->f++ is the OLD value of the bit-field (6.5.2.4p2); the store wraps at the field width
            got = z3.Extract(t.bits - 1, 0, s.regs["rax"]) if t.bits < 64 else s.regs["rax"]
            return [e2.Goal("value", H, got == old, note="value of postfix ++ on a %d-bit %s bit-field at bit %d is its old value" % (w, t.name, o))]
        if self.op == "inc":
            newv, rt, d = cref.binop("+", old, t, z3.BitVecVal(1, 32), INT)
        elif self.op == "dec":
            newv, rt, d = cref.binop("-", old, t, z3.BitVecVal(1, 32), INT)
        else:
            newv, rt, d = cref.binop(self.op, old, t, v, t)
        stored = conv(newv, rt, t)
        want = bf_value(stored, t, w)
        got = z3.Extract(t.bits - 1, 0, s.regs["rax"]) if t.bits < 64 else s.regs["rax"]
        # signed overflow in the promoted type is excluded (d); the narrowing store wraps
        return [e2.Goal("value", H + [d], got == want, note="%s on a %d-bit %s bit-field at bit %d" % (self.op, w, t.name, o))]


class CopyProbe(MemProbe):
    def __init__(self, key, fn, csrc, sz, dst_off=0):
        self.key, self.fn, self.family, self.csrc = key, fn, "copy", csrc
        self.sz, self.dst_off = sz, dst_off
        self.nptr, self.objsize = 2, sz + 2 * dst_off
        self.extern_ret = None
        self.max_visits = 4

    def write_window(self, i):
        return (self.dst_off, self.dst_off + self.sz) if i == 0 else (0, 0)

    def post(self, M, s, ptrs, H):
        out = []
        for i in range(self.sz):
            got = s.copy().load(ptrs[0] + bv(self.dst_off + i), 1)
            out.append(e2.Goal("byte%d" % i, H, got == self.initial(M, 1, i), note="destination byte %d differs from source" % i))
        return out


def addr_probes(fn, full):
    """address computations against the psABI layout model (lib/abi.py)"""
    P = []
    # pointer to a whole array: &arr has type int (*)[4], so &arr + k advances by k whole arrays (6.5.3.2p3, 6.5.6p8)
    for nm, body, scale in [("address-of-array-plus-k", "static int arr[4]; return (char *)(&arr + a) - (char *)arr;", 16),
                            ("pointer-to-array-plus-k", "static int arr[3][4]; int (*p)[4] = arr; return (char *)(p + a) - (char *)arr;", 16),
                            ("address-of-row-plus-k", "static int arr[3][4]; return (char *)(&arr[1] + a) - (char *)arr;", 16),
                            ("deref-address-of-array", "static int arr[4]; return (char *)(*&arr + a) - (char *)arr;", 4)]:
        P.append(e2.ScalarProbe("addr/array/%s" % nm, fn(), LONG, [LONG], body,
                                (lambda scale, nm: lambda a: (z3.BitVecVal(scale, 64) * a + (16 if nm == "address-of-row-plus-k" else 0), TRUE))(scale, nm), family="addr"))
    INNER = abi.struct("In", [("x", abi.CHAR), ("y", abi.DOUBLE), ("z", (abi.SHORT, 3))])
    OUTER = abi.struct("Out", [("a", abi.CHAR), ("in", (INNER, 2)), ("b", abi.INT), ("ld", abi.LDOUBLE), ("u", abi.struct("Un", [("i", abi.INT), ("d", abi.DOUBLE)], union=True))])
    PT = cref.T("struct Out *", 64, False, rank=4)
    VP = cref.T("void *", 64, False, rank=4)
    decl = OUTER.decl
    offs = dict(zip(OUTER.field_paths, [o for o, _ in OUTER.fields]))
    for path, off in offs.items():
        cpath = "a->" + path[1:]
        P.append(e2.ScalarProbe("addr/member/%s" % path.strip(".").replace(".", "_").replace("[", "").replace("]", ""), fn(), VP, [PT],
                                "return &%s;" % cpath, (lambda off: lambda p: (p + z3.BitVecVal(off, 64), TRUE))(off), pre=decl, family="addr"))
    # symbolic indices at every nesting level
    P.append(e2.ScalarProbe("addr/index/outer", fn(), VP, [PT, LONG], "return &p_[b];".replace("p_", "a"),
                            lambda p, i: (p + i * z3.BitVecVal(OUTER.size, 64), TRUE), pre=decl, family="addr"))
    in_off = offs[".in[0].x"]
    P.append(e2.ScalarProbe("addr/index/inner", fn(), VP, [PT, INT], "return &a->in[b].y;",
                            lambda p, i: (p + z3.BitVecVal(in_off + 8, 64) + z3.SignExt(32, i) * z3.BitVecVal(INNER.size, 64), TRUE), pre=decl, family="addr"))
    zoff = [o for pth, o in offs.items() if pth == ".in[0].z[0]"][0]
    P.append(e2.ScalarProbe("addr/index/inner2", fn(), VP, [PT, UCHAR, SHORT], "return &a->in[b].z[c];",
                            lambda p, i, j: (p + z3.BitVecVal(zoff, 64) + z3.ZeroExt(56, i) * z3.BitVecVal(INNER.size, 64) + z3.SignExt(48, j) * z3.BitVecVal(2, 64), TRUE),
                            pre=decl, family="addr"))
    P.append(e2.ScalarProbe("addr/sizeof", fn(), LONG, [], "return sizeof(struct Out) * 1000 + _Alignof(struct Out);",
                            lambda: (z3.BitVecVal(OUTER.size * 1000 + OUTER.align, 64), TRUE), pre=decl, family="addr"))
    # load/store through computed lvalues: store then load each scalar member type
    for mt, ct in [(abi.CHAR, CHAR), (abi.SHORT, SHORT), (abi.INT, INT), (abi.LONG, LONG)]:
        P.append(e2.ScalarProbe("addr/storeload/%s" % ct.cid, fn(), ct, [PT, ct, INT],
                                "struct { %s pre; %s m[4]; %s post; } *q = (void *)a; q->m[c & 3] = b; return q->m[c & 3];" % (ct.name, ct.name, ct.name),
                                lambda p, v, i: (v, TRUE), pre=decl, family="addr"))
    return P


class FrameProbe(e2.Probe):
    """void f(void) { locals...; sink(&l1, &l2, ...); } : objects are pairwise disjoint, aligned, inside the frame."""

    def __init__(self, key, fn, locs):
        self.key, self.fn, self.family, self.locs = key, fn, "frame", locs
        decls = " ".join("%s;" % d for d, sz, al in locs)
        names = ["v%d" % i for i in range(len(locs))]
        self.csrc = "void sink_%s(%s);\nvoid %s(void) { %s sink_%s(%s); }\n" % (
            fn, ", ".join("void *" for _ in locs), fn, " ".join(d.replace("@", names[i]) + ";" for i, (d, sz, al) in enumerate(locs)),
            fn, ", ".join("&%s" % nme for nme in names))
        self.extern_ret = {"sink_" + fn: "int"}

    def goals(self, M, finals):
        out = []
        for pi, s in enumerate(finals):
            calls = [e for e in s.events if e.kind == "call"]
            if len(calls) != 1:
                out.append(e2.Goal("onecall", s.pc, z3.BoolVal(False)))
                continue
            ev = calls[0]
            H = [z3.Extract(3, 0, M.RSP0) == bv(8, 4), z3.UGE(M.RSP0, bv(1 << 24)), z3.ULE(M.RSP0, bv(1 << 62))] + s.pc
            addrs = []
            for i, (d, sz, al) in enumerate(self.locs):
                a = ev.regs[abi.GP_ARGS[i]]
                addrs.append((a, sz))
                out.append(e2.Goal("align%d" % i, H, z3.URem(a, bv(al)) == bv(0), note="local %d (%s) must be %d-byte aligned" % (i, d, al)))
                out.append(e2.Goal("inframe%d" % i, H, z3.And(z3.UGE(a, ev.regs["rsp"]), z3.ULE(a + bv(sz), ev.regs["rbp"])),
                                   note="local %d (%s) must lie between rsp and rbp" % (i, d)))
            for i in range(len(addrs)):
                for j in range(i + 1, len(addrs)):
                    (a, sa), (b, sb) = addrs[i], addrs[j]
                    out.append(e2.Goal("disjoint%d_%d" % (i, j), H, z3.Or(z3.ULE(a + bv(sa), b), z3.ULE(b + bv(sb), a)),
                                       note="locals %d and %d overlap" % (i, j)))
        return out


def frame_probes(fn, full):
    menu = [("char @", 1, 1), ("short @", 2, 2), ("int @", 4, 4), ("long @", 8, 8), ("long double @", 16, 16), ("char @[3]", 3, 1),
            ("char @[16]", 16, 16), ("char @[17]", 17, 16), ("int @[5]", 20, 16), ("_Alignas(8) char @", 1, 8), ("_Alignas(16) int @[3]", 12, 16),
            ("struct { char c; long l; } @", 16, 8), ("struct { char c[5]; } @", 5, 1), ("double @", 8, 8), ("_Alignas(16) short @", 2, 16)]
    over = [("_Alignas(32) char @", 1, 32), ("_Alignas(64) int @[3]", 12, 64), ("_Alignas(32) long double @", 16, 32)]
    P = []
    import itertools
    combos = []
    for i in range(len(menu)):
        combos.append([menu[i], menu[(i * 7 + 3) % len(menu)], menu[(i * 5 + 1) % len(menu)], menu[(i * 11 + 2) % len(menu)]])
        combos.append([menu[(i + 1) % len(menu)], menu[i], menu[0], menu[(i * 3 + 9) % len(menu)], menu[9], menu[5]])
    if full:
        for a, b, c in itertools.permutations(menu, 3):
            combos.append([a, b, c])
        combos = combos[:600]
    for k, c in enumerate(combos):
        P.append(FrameProbe("frame/%d" % k, fn(), c))
    # alignments above 16 need a realigned frame
    for k, o in enumerate(over):
        P.append(FrameProbe("frame/overaligned/%d" % k, fn(), [menu[0], o, menu[3]]))
    return P


class AllocaProbe(e2.Probe):
    def __init__(self, key, fn, csrc, mode, extern_ret):
        self.key, self.fn, self.family, self.csrc, self.mode = key, fn, "alloca", csrc, mode
        self.extern_ret = extern_ret
        self.max_visits = 40

    def goals(self, M, finals):
        out = []
        n = z3.BitVec("in_rdi", 64)
        for pi, s in enumerate(finals):
            if s.dead:
                continue
            H = [z3.Extract(3, 0, M.RSP0) == bv(8, 4), z3.ULT(n, bv(1 << 31)), z3.UGE(M.RSP0, bv(1 << 40)), z3.ULE(M.RSP0, bv(1 << 62))] + s.pc
            calls = [e for e in s.events if e.kind == "call"]
            out.append(e2.Goal("frame/p%d" % pi, H, z3.And(s.regs["rsp"] == M.RSP0 + bv(8), s.regs["rbp"] == z3.BitVec("in_rbp", 64))))
            if self.mode == "block":
                ev = calls[-1]
                p, loc = ev.regs["rdi"], ev.regs["rsi"]        # sink(p, &local)
                out.append(e2.Goal("aligned/p%d" % pi, H, z3.Extract(3, 0, p) == bv(0, 4), note="alloca result must be 16-byte aligned"))
                out.append(e2.Goal("abovesp/p%d" % pi, H, z3.UGE(p, ev.regs["rsp"]), note="alloca block must lie above the stack pointer"))
                out.append(e2.Goal("belowlocals/p%d" % pi, H, z3.ULE(p + n, loc), note="alloca block overlaps a local"))
                out.append(e2.Goal("callalign/p%d" % pi, H, z3.Extract(3, 0, ev.regs["rsp"]) == bv(0, 4)))
            elif self.mode == "twoblocks":
                ev = calls[-1]
                p, q = ev.regs["rdi"], ev.regs["rsi"]
                m = z3.BitVec("in_rsi", 64)
                H = H + [z3.ULT(m, bv(1 << 31))]
                out.append(e2.Goal("disjoint/p%d" % pi, H, z3.Or(z3.ULE(p + n, q), z3.ULE(q + m, p)), note="two alloca blocks overlap"))
                out.append(e2.Goal("aligned/p%d" % pi, H, z3.And(z3.Extract(3, 0, p) == bv(0, 4), z3.Extract(3, 0, q) == bv(0, 4))))
            elif self.mode == "pending":
                # long f(long n) { return (long)alloca(n) + v2(); } : the pending temporary survives the relocation
                ret = calls[0].ret_rax
                out.append(e2.Goal("temp/p%d" % pi, H, z3.Extract(3, 0, s.regs["rax"] - ret) == bv(0, 4),
                                   note="a temporary pushed before alloca was lost when the temporary area was moved"))
            elif self.mode == "vlasize":
                out.append(e2.Goal("sizeof/p%d" % pi, H, s.regs["rax"] == n * bv(4), note="sizeof(int[n]) must be 4*n"))
        return out


def alloca_probes(fn, full):
    P = []
    for p in alloca_probes_all(fn):
        # after alloca the stack pointer is symbolic and every temporary goes through the array theory:
        # the three heavy shapes need the thorough budget
        p.timeout_ms = 900000 if full else 120000
        P.append(p)
    return P


def alloca_probes_all(fn):
    P = []
    f = fn()
    P.append(AllocaProbe("alloca/block", f, "void *alloca(long); void sink_%s(void *, void *);\nvoid %s(long n) { long loc = 1; char *p = alloca(n); sink_%s(p, &loc); }\n" % (f, f, f),
                         "block", {"sink_" + f: "int"}))
    f = fn()
    P.append(AllocaProbe("alloca/twoblocks", f, "void *alloca(long); void sink_%s(void *, void *);\nvoid %s(long n, long m) { char *p = alloca(n); char *q = alloca(m); sink_%s(p, q); }\n" % (f, f, f),
                         "twoblocks", {"sink_" + f: "int"}))
    f = fn()
    P.append(AllocaProbe("alloca/pending-temp", f, "void *alloca(long); long v2_%s(void);\nlong %s(long n) { return (long)alloca(n) + v2_%s(); }\n" % (f, f, f),
                         "pending", {"v2_" + f: "int"}))
    f = fn()
    P.append(AllocaProbe("alloca/vla-sizeof", f, "long %s(long n) { int a[n]; return sizeof(a); }\n" % f, "vlasize", None))
    f = fn()
    P.append(AllocaProbe("alloca/vla-block", f, "void sink_%s(void *, void *);\nvoid %s(long n) { long loc = 1; char a[n]; sink_%s(a, &loc); }\n" % (f, f, f),
                         "block", {"sink_" + f: "int"}))
    return P


def vla_probes(fn, full):
    """pointer arithmetic on pointers to variable-length array rows: the element size is the run-time row size.
    The row length is a run-time value that is concrete for the executor (n = 3, 5 or 8 ints), the index k is symbolic."""
    P = []
    TRUE_ = z3.BoolVal(True)
    for n in ((3, 5, 8) if full else (5,)):
        row = 4 * n
        decl = "long n = %d; int a[4][n]; " % n
        forms = [
            ("ptr-minus-k", decl + "int (*p)[n] = a + 3; return (char *)(p - k) - (char *)a;", lambda k, row=row: 3 * row - row * k),
            ("array-plus-minus-k", decl + "return (char *)(a + 3 - k) - (char *)a;", lambda k, row=row: 3 * row - row * k),
            ("ptr-minus-assign", decl + "int (*p)[n] = a + 3; p -= k; return (char *)p - (char *)a;", lambda k, row=row: 3 * row - row * k),
            ("ptr-plus-assign", decl + "int (*p)[n] = a; p += k; return (char *)p - (char *)a;", lambda k, row=row: row * k),
            ("ptr-plus-k", decl + "int (*p)[n] = a; return (char *)(p + k) - (char *)a;", lambda k, row=row: row * k),
            ("k-plus-ptr", decl + "int (*p)[n] = a; return (char *)(k + p) - (char *)a;", lambda k, row=row: row * k),
            ("index-negative", decl + "int (*p)[n] = a + 1; return (char *)&p[-k] - (char *)a;", lambda k, row=row: row - row * k),
            ("element", decl + "return (char *)&a[2][k] - (char *)a;", lambda k, row=row: 2 * row + 4 * k),
            ("decrement", decl + "int (*p)[n] = a + 2; p--; return (char *)p - (char *)a + k * 0;", lambda k, row=row: z3.BitVecVal(row, 64)),
            ("increment", decl + "int (*p)[n] = a + 2; p++; return (char *)p - (char *)a + k * 0;", lambda k, row=row: z3.BitVecVal(3 * row, 64)),
            ("difference", decl + "return (a + 3) - (a + 1) + k * 0;", lambda k: z3.BitVecVal(2, 64)),
            ("difference-negative", decl + "return (a + 1) - (a + 3) + k * 0;", lambda k: z3.BitVecVal(-2, 64)),
            ("sizeof-row", decl + "return sizeof(a[0]) + sizeof(*a) * 100 + k * 0;", lambda k, row=row: z3.BitVecVal(row * 101, 64)),
        ]
        for nm, body, ref in forms:
            import re
            body = re.sub(r"\bk\b", "a", re.sub(r"\ba\b", "v", body))       # the probe's parameter is called `a`
            P.append(e2.ScalarProbe("vla/%s/n%d" % (nm, n), fn(), LONG, [LONG], body, (lambda ref: lambda k: (ref(k), TRUE_))(ref), family="vla", max_visits=64))
    return P


def zero_probes(fn, full):
    P = []
    for t in [CHAR, INT, LONG]:
        for cnt, idx in [(3, 2), (5, 4), (17, 16), (9, 0)]:
            P.append(e2.ScalarProbe("zero/array/%s/%d" % (t.cid, cnt), fn(), t, [t], "%s x[%d] = { a }; return x[%d];" % (t.name, cnt, idx),
                                    (lambda idx, t: lambda a: ((a if idx == 0 else z3.BitVecVal(0, t.bits)), TRUE))(idx, t), family="zero"))
    P.append(e2.ScalarProbe("zero/struct", fn(), LONG, [INT], "struct { int a; char b; long c; short d[3]; } s = { .a = a }; return s.b + s.c + s.d[0] + s.d[2] + (s.a == a) * 100;",
                            lambda a: (z3.BitVecVal(100, 64), TRUE), family="zero"))
    P.append(e2.ScalarProbe("zero/nested", fn(), LONG, [INT], "struct { struct { int p, q; } in[2]; long t; } s = { .in[1].q = a }; return s.in[0].p + s.in[0].q + s.in[1].p + s.t + (s.in[1].q == a) * 7;",
                            lambda a: (z3.BitVecVal(7, 64), TRUE), family="zero"))
    P.append(e2.ScalarProbe("zero/complit", fn(), LONG, [INT], "struct Z { int a; long b; char c[3]; }; struct Z *p = &(struct Z){ .a = a }; return p->b + p->c[0] + p->c[2] + (p->a == a) * 3;",
                            lambda a: (z3.BitVecVal(3, 64), TRUE), family="zero"))
    return P


def main(tier, only=None):
    chk = vf.Check("C04", tier)
    probes = mk_probes(tier, only)
    chk.bounds += ["bit-fields: base types char/short/int/long signed+unsigned x widths x bit offsets (%s); stored value, symbolic struct pointer and ALL of memory symbolic" % ("all (type,width,offset) triples" if tier == "thorough" else "boundary widths/offsets, ~700 triples"),
                   "aggregate copy sizes %s; whole-struct and member destination" % ("1..40" if tier == "thorough" else "16 sizes in 1..40"),
                   "frame layout: %s local lists over 15 object kinds (incl. _Alignas 16/32/64, arrays >= 16 bytes, long double)" % ("~600" if tier == "thorough" else "30"),
                   "alloca/VLA: size symbolic < 2^31, up to one pending temporary"]
    chk.outside += ["alloca sizes >= 2^31", "aggregate nesting beyond depth 3", "more than one pending temporary around alloca"]
    chk.assumptions += ["pointer arguments designate distinct objects (copy with exactly overlapping source/destination is outside)", "pointer arguments designate objects outside the callee's own stack area and do not wrap around the address space",
                        "struct layout itself (offsets, bit positions) is the subject of C08; here the psABI model of lib/abi.py is the reference for addresses"]
    chk.functions.update(["codegen.c:gen_addr", "codegen.c:load/store", "codegen.c:ND_MEMBER bit-field load", "codegen.c:ND_ASSIGN bit-field store",
                          "codegen.c:assign_lvar_offsets", "codegen.c:builtin_alloca", "codegen.c:ND_MEMZERO", "parse.c:struct_ref/new_add (via emitted code)"])
    e2.run_probes(chk, probes, chunk=12)
    for p in probes[:4]:
        chk.sample(dict(key=p.key, c=p.csrc.strip()[-400:]))
    return chk.finish()


replay = vf.generic_replay
