# C18 — source positions survive preprocessing (E1: cbmc over tokenize.c / preprocess.c)
import os
import vf, e1


def main(tier, only=None):
    chk = vf.Check("C18", tier)
    nbuf = 6 if tier == "quick" else 8
    fams = only or ["splice", "readfile", "line"]
    if "splice" in fams:
        chk.bounds += ["splice: every NUL-terminated buffer of <= %d bytes over {backslash, LF, CR, 'a', space} "
                       "(all 5^k contents for every k, symbolic)" % nbuf]
        U = nbuf + 2
        to = 900 if tier == "quick" else 2400
        d = ("NBUF=%d" % nbuf, "__NO_CTYPE")
        hs = [e1.H("h_splice_count", "splice/newline-count-and-survivors", unwind=U, defines=d, timeout=to),
              e1.H("h_splice_unspliced", "splice/line/no-splice-before", unwind=U, defines=d, timeout=to),
              e1.H("h_splice_lag", "splice/line/lags-by-splices", unwind=U, defines=d, timeout=to),
              e1.H("h_splice_c11", "splice/line/after-splice-c11", unwind=U, defines=d, timeout=to)]
        e1.run_set(chk, "c18/splice.c", hs, workers=int(os.environ.get("VERIF_WORKERS", "8")))
    if "readfile" in fams:
        n = 5 if tier == "quick" else 6
        chk.bounds += ["readfile: the real tokenize_file()/read_file() on every file of <= %d bytes over {CR, LF, a, backslash} delivered by fread() in chunks of arbitrary (symbolic) "
                       "lengths: the text handed to the tokenizer equals the phase 1-2 reference (CR LF, final newline, splices)" % n]
        chk.assumptions += ["readfile: memory-backed stdio model (fopen/fread/open_memstream/fwrite/fputc/fflush/fclose); fread returns any positive count <= min(remaining, requested)"]
        e1.run_set(chk, "c18/readfile.c", [e1.H("h_readfile_newlines", "readfile/newlines-independent-of-chunking", unwind=n + 5, defines=("__NO_CTYPE", "RF_N=%d" % n),
                                                 replace_calls=("tokenize:stub_tokenize",), timeout=1200, native=False)])
    if "line" in fams:
        chk.bounds += ["#line: one `#line n` / `# n` directive on physical line p, __LINE__ probed on lines "
                       "q0 < p < q1 < q2 <= 2^20, 0 <= n <= 2^30, all symbolic"]
        chk.assumptions += ["compiled with -D__NO_CTYPE (cbmc's exact ctype models instead of glibc's table macros)",
                            "line.c stubs: convert_pp_tokens (PP_NUM -> NUM keeping the value), "
                            "format+tokenize inside new_num_token (one number token), hashmap_* (association "
                            "list), equal/skip/consume (same semantics), error_tok (asserted unreachable)"]
        hs = []
        for form, fk in ((0, "hash-line"), (1, "gnu-marker")):
            d = ("FORM=%d" % form, "__NO_CTYPE")
            hs += [e1.H("h_line_before", "line/%s/before-directive" % fk, unwind=14, defines=d, timeout=600),
                   e1.H("h_line_relative", "line/%s/advances-with-physical" % fk, unwind=14, defines=d, timeout=600),
                   e1.H("h_line_eof", "line/%s/eof-token-adjusted" % fk, unwind=14, defines=d, timeout=600),
                   e1.H("h_line_c11", "line/%s/c11-following-line-is-n" % fk, unwind=14, defines=d, timeout=600)]
        for form, fk in ((0, "hash-line"), (1, "gnu-marker")):
            hs.append(e1.H("h_line_relative", "line/%s/inside-conditional-group" % fk, unwind=14, defines=("FORM=%d" % form, "__NO_CTYPE", "INCOND"), timeout=600,
                           desc="the same directive between #ifdef and #endif: accepted, and __LINE__ advances with the physical line"))
        for form, fk in ((0, "hash-line"),):      # `# L` is not a line marker: only the #line form takes a macro operand
            hs.append(e1.H("h_line_macro_operand", "line/%s/macro-operand-equals-literal" % fk, unwind=14, defines=("FORM=%d" % form, "__NO_CTYPE"), timeout=900,
                           desc="`#line L` with `#define L n` on an arbitrary line behaves as `#line n` (6.10.4p5), differential of two runs of the real preprocess()"))
        hs.append(e1.H("h_line_macro_origin", "line/macro-origin/line-and-file-of-outermost-invocation", unwind=14, defines=("FORM=0", "__NO_CTYPE"), timeout=600))
        chk.bounds += ["__LINE__/__FILE__ in a macro body: origin chains of depth 0..2 across three files with symbolic physical lines and symbolic #line offsets per file"]
        e1.run_set(chk, "c18/line.c", hs, workers=int(os.environ.get("VERIF_WORKERS", "8")))
    chk.outside += ["positions across nested #include files beyond the macro-origin kernel (pointer-rich)",
                    ".loc/.file emission in codegen.c; columns in diagnostics (verror_at)",
                    "comments and UCNs: not part of the splice alphabet"]
    if os.environ.get("VERIF_VERBOSE"):
        for o in chk.obl:
            print("  %-40s %-12s %6.1fs  %s" % (o["key"], o["status"], o["secs"], o["detail"][:100]))
    return chk.finish()


replay = vf.generic_replay
