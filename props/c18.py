# C18 — source positions survive preprocessing (E1: cbmc over tokenize.c / preprocess.c)
import os
import vf, e1


def main(tier, only=None):
    chk = vf.Check("C18", tier)
    nbuf = 6 if tier == "quick" else 8
    fams = only or ["splice", "line"]
    if "splice" in fams:
        chk.bounds += ["splice: every NUL-terminated buffer of <= %d bytes over {backslash, LF, CR, 'a', space} "
                       "(all 5^k contents for every k, symbolic)" % nbuf]
        U = nbuf + 2
        hs = [e1.H("h_splice_lines", "splice/lines/len%d" % nbuf, unwind=U, defines=("NBUF=%d" % nbuf,),
                   timeout=900 if tier == "quick" else 2400)]
        e1.run_set(chk, "c18/splice.c", hs, workers=int(os.environ.get("VERIF_WORKERS", "8")))
    chk.outside += ["positions across nested #include files and macro-origin chains (pointer-rich)",
                    ".loc/.file emission in codegen.c; columns in diagnostics (verror_at)",
                    "comments and UCNs: not part of the splice alphabet"]
    if os.environ.get("VERIF_VERBOSE"):
        for o in chk.obl:
            print("  %-40s %-12s %6.1fs  %s" % (o["key"], o["status"], o["secs"], o["detail"][:100]))
    return chk.finish()


replay = vf.generic_replay
