# C01 — integer expressions have the C11 value and the C11 type (E2: asm-smt)
import itertools, z3
import vf, e2, asmx, cref
from cref import INT9, REP6, BOOL, CHAR, SHORT, INT, LONG, UCHAR, USHORT, UINT, ULONG, conv, binop, unop, promote, common

TRUE = z3.BoolVal(True)
OPNAME = {"+": "add", "-": "sub", "*": "mul", "/": "div", "%": "mod", "&": "and", "|": "or", "^": "xor", "<<": "shl",
          ">>": "shr", "<": "lt", "<=": "le", ">": "gt", ">=": "ge", "==": "eq", "!=": "ne", "&&": "land", "||": "lor",
          ",": "comma", "~": "not", "!": "lnot"}
GENERIC = "_Generic((%s), _Bool:1, char:2, short:3, int:4, long:5, unsigned char:6, unsigned short:7, unsigned int:8, unsigned long:9, default:0)"
GID = {BOOL: 1, CHAR: 2, SHORT: 3, INT: 4, LONG: 5, UCHAR: 6, USHORT: 7, UINT: 8, ULONG: 9}
ASSIGNOPS = ["+", "-", "*", "/", "%", "&", "|", "^", "<<", ">>"]


def const(v, t):
    return lambda *a: (z3.BitVecVal(v, t.bits), TRUE)


def mk_probes(tier, only=None):
    P = []
    n = [0]

    def fn():
        n[0] += 1
        return "f%d" % n[0]

    def want(fam):
        return only is None or fam in only

    full = tier == "thorough"
    # ---- binary operators, return context: every operator x every ordered pair of the 9 types
    if want("bin"):
        for op in cref.BINOPS:
            for t1 in INT9:
                for t2 in INT9:
                    _, rt, _ = binop(op, z3.BitVec("x", t1.bits), t1, z3.BitVec("y", t2.bits), t2)
                    ref = (lambda op, t1, t2: lambda a, b: binop(op, a, t1, b, t2)[0::2])(op, t1, t2)
                    P.append(e2.ScalarProbe("bin/%s/%s/%s" % (OPNAME[op], t1.cid, t2.cid), fn(), rt, [t1, t2],
                                            "return a %s b;" % op, ref))
    # ---- typing of every binary/unary expression: _Generic class and sizeof
    if want("type"):
        for op in cref.BINOPS:
            for t1 in INT9:
                for t2 in INT9:
                    _, rt, _ = binop(op, z3.BitVec("x", t1.bits), t1, z3.BitVec("y", t2.bits), t2)
                    body = "return %s * 100 + sizeof(a %s b);" % (GENERIC % ("a %s b" % op), op)
                    P.append(e2.ScalarProbe("type/bin/%s/%s/%s" % (OPNAME[op], t1.cid, t2.cid), fn(), INT, [t1, t2],
                                            body, const(GID[rt] * 100 + rt.size, INT)))
        for op in cref.UNOPS:
            for t1 in INT9:
                _, rt, _ = unop(op, z3.BitVec("x", t1.bits), t1)
                body = "return %s * 100 + sizeof(%sa);" % (GENERIC % ("%sa" % op), op)
                P.append(e2.ScalarProbe("type/un/%s/%s" % (OPNAME.get(op, "plus") if op != "+" else "plus", t1.cid),
                                        fn(), INT, [t1], body, const(GID[rt] * 100 + rt.size, INT)))
        for t1 in INT9:
            for t2 in INT9:
                rt = cref.cond_type(t1, t2)
                body = "return %s * 100 + sizeof(c ? a : b);" % (GENERIC % "c ? a : b")
                P.append(e2.ScalarProbe("type/cond/%s/%s" % (t1.cid, t2.cid), fn(), INT, [t1, t2, INT], body,
                                        const(GID[rt] * 100 + rt.size, INT)))
    # ---- unary operators
    if want("un"):
        for op in cref.UNOPS:
            for t1 in INT9:
                _, rt, _ = unop(op, z3.BitVec("x", t1.bits), t1)
                ref = (lambda op, t1: lambda a: unop(op, a, t1)[0::2])(op, t1)
                P.append(e2.ScalarProbe("un/%s/%s" % ("plus" if op == "+" else OPNAME.get(op, "neg") if op != "-" else "neg",
                                                      t1.cid), fn(), rt, [t1], "return %sa;" % op, ref))
    # ---- conversions: explicit cast and implicit (return) for all 81 pairs
    if want("cast"):
        for t1 in INT9:
            for t2 in INT9:
                ref = (lambda t1, t2: lambda a: (conv(a, t1, t2), TRUE))(t1, t2)
                P.append(e2.ScalarProbe("cast/explicit/%s/%s" % (t1.cid, t2.cid), fn(), t2, [t1],
                                        "return (%s)a;" % t2.name, ref))
                P.append(e2.ScalarProbe("cast/return/%s/%s" % (t1.cid, t2.cid), fn(), t2, [t1], "return a;", ref))
    # ---- register representation: a narrow cast result used at a wider type
    if want("cast"):
        for t1 in INT9:
            for t2 in INT9:
                if t2.bits == 64:
                    continue
                for wide in (LONG, ULONG):
                    ref = (lambda t1, t2, wide: lambda a: (conv(conv(a, t1, t2), t2, wide), TRUE))(t1, t2, wide)
                    P.append(e2.ScalarProbe("cast/widen/%s/%s/%s" % (t1.cid, t2.cid, wide.cid), fn(), wide, [t1],
                                            "return (%s)a;" % t2.name, ref))
    # ---- register representation invariant: every producer of a narrow-typed value leaves it properly extended, so that
    #      using it at a wider type needs no further instruction (the induction step for expressions of any depth)
    if want("repr"):
        NARROW = [BOOL, CHAR, UCHAR, SHORT, USHORT, INT, UINT]
        for tn in NARROW:
            for src_t in INT9:
                for wide in (LONG, ULONG):
                    w = (lambda tn, src_t, wide: lambda a: (conv(conv(a, src_t, tn), tn, wide), TRUE))(tn, src_t, wide)
                    k = "%s/%s/%s" % (src_t.cid, tn.cid, wide.cid)
                    forms = [("assignval", "%s x; return (x = a);" % tn.name), ("initload", "%s x = a; return x;" % tn.name),
                             ("comma", "%s x = a; return (0, x);" % tn.name), ("deref", "%s x = a; %s *p = &x; return *p;" % (tn.name, tn.name)),
                             ("member", "struct { long pad; %s m; } s; s.m = a; return s.m;" % tn.name),
                             ("element", "%s v[3]; v[1] = a; return v[1];" % tn.name),
                             ("condarm", "%s x = a; return 1 ? x : x;" % tn.name)]
                    if not full and src_t not in (LONG, ULONG, INT, UCHAR):
                        continue
                    for nm, body in forms:
                        if nm == "condarm":
                            # ?: has the promoted common type of its arms
                            rt = promote(tn)
                            wc = (lambda tn, src_t, wide, rt: lambda a: (conv(conv(conv(a, src_t, tn), tn, rt), rt, wide), TRUE))(tn, src_t, wide, rt)
                            P.append(e2.ScalarProbe("repr/%s/%s" % (nm, k), fn(), wide, [src_t], body, wc))
                        else:
                            P.append(e2.ScalarProbe("repr/%s/%s" % (nm, k), fn(), wide, [src_t], body, w))
            # value of op= / ++ on a narrow object, used at a wider type
            for wide in (LONG, ULONG):
                for op in ["+", "*", ">>", "^"]:
                    def refc(a, b, tn=tn, op=op, wide=wide):
                        v, rt, d = binop(op, a, tn, b, INT)
                        return conv(conv(v, rt, tn), tn, wide), d
                    P.append(e2.ScalarProbe("repr/opassign/%s/%s/%s" % (OPNAME[op], tn.cid, wide.cid), fn(), wide, [tn, INT], "return (a %s= b);" % op, refc))
                def refi(a, tn=tn, wide=wide):
                    v, rt, d = binop("+", a, tn, z3.BitVecVal(1, 32), INT)
                    return conv(conv(v, rt, tn), tn, wide), d
                P.append(e2.ScalarProbe("repr/preinc/%s/%s" % (tn.cid, wide.cid), fn(), wide, [tn], "return ++a;", refi))
                P.append(e2.ScalarProbe("repr/postinc/%s/%s" % (tn.cid, wide.cid), fn(), wide, [tn], "return a++;",
                                        (lambda tn, wide: lambda a: (conv(a, tn, wide), binop("+", a, tn, z3.BitVecVal(1, 32), INT)[2]))(tn, wide)))
    # ---- ?: with every pair of arm types
    if want("cond"):
        for t1 in INT9:
            for t2 in INT9:
                rt = cref.cond_type(t1, t2)
                ref = (lambda t1, t2, rt: lambda a, b, c: (z3.If(c != 0, conv(a, t1, rt), conv(b, t2, rt)), TRUE))(t1, t2, rt)
                P.append(e2.ScalarProbe("cond/%s/%s" % (t1.cid, t2.cid), fn(), rt, [t1, t2, INT],
                                        "return c ? a : b;", ref))
    # ---- contexts
    ctx_ops = cref.BINOPS if full else ["+", "-", "*", "/", "<<", ">>", "<", "&", "&&"]
    ctx_pairs = [(a, b) for a in INT9 for b in INT9] if full else [(a, b) for a in REP6 for b in REP6]
    ctx_t3 = INT9 if full else [BOOL, UCHAR, SHORT, UINT, LONG]
    if want("ctx"):
        for op in ctx_ops:
            for t1, t2 in ctx_pairs:
                _, rt, _ = binop(op, z3.BitVec("x", t1.bits), t1, z3.BitVec("y", t2.bits), t2)
                for t3 in ctx_t3:
                    ref = (lambda op, t1, t2, t3: lambda a, b: (lambda r: (conv(r[0], r[1], t3), r[2]))(binop(op, a, t1, b, t2)))(op, t1, t2, t3)
                    k = "%s/%s/%s/%s" % (OPNAME[op], t1.cid, t2.cid, t3.cid)
                    P.append(e2.ScalarProbe("ctx/init/" + k, fn(), t3, [t1, t2],
                                            "%s x = (a %s b); return x;" % (t3.name, op), ref))
                    P.append(e2.ScalarProbe("ctx/assign/" + k, fn(), t3, [t1, t2],
                                            "%s x; x = (a %s b); return x;" % (t3.name, op), ref))
                    P.append(e2.ScalarProbe("ctx/assignval/" + k, fn(), t3, [t1, t2],
                                            "%s x; return (x = (a %s b));" % (t3.name, op), ref))
                    P.append(ArgProbe("ctx/arg/" + k, fn(), t1, t2, t3, op))
                # condition contexts: if / while / ! / && operand / ?: condition
                refc = (lambda op, t1, t2: lambda a, b: (lambda r: (z3.If(r[0] != 0, z3.BitVecVal(1, 32), z3.BitVecVal(0, 32)), r[2]))(binop(op, a, t1, b, t2)))(op, t1, t2)
                k = "%s/%s/%s" % (OPNAME[op], t1.cid, t2.cid)
                P.append(e2.ScalarProbe("ctx/if/" + k, fn(), INT, [t1, t2], "if (a %s b) return 1; return 0;" % op, refc))
                P.append(e2.ScalarProbe("ctx/ternary/" + k, fn(), INT, [t1, t2], "return (a %s b) ? 1 : 0;" % op, refc))
                if full:
                    P.append(e2.ScalarProbe("ctx/while/" + k, fn(), INT, [t1, t2],
                                            "while (a %s b) return 1; return 0;" % op, refc))
                    P.append(e2.ScalarProbe("ctx/lnot/" + k, fn(), INT, [t1, t2], "return !!(a %s b);" % op, refc))
    # ---- compound assignment: a OP= b has the value (T1)(a OP b)
    if want("opassign"):
        for op in ASSIGNOPS:
            for t1 in INT9:
                for t2 in INT9:
                    ref = (lambda op, t1, t2: lambda a, b: (lambda r: (conv(r[0], r[1], t1), r[2]))(binop(op, a, t1, b, t2)))(op, t1, t2)
                    k = "%s/%s/%s" % (OPNAME[op], t1.cid, t2.cid)
                    P.append(e2.ScalarProbe("opassign/stmt/" + k, fn(), t1, [t1, t2], "a %s= b; return a;" % op, ref))
                    P.append(e2.ScalarProbe("opassign/value/" + k, fn(), t1, [t1, t2], "return (a %s= b);" % op, ref))
                    if full or (t1 in REP6 and t2 in REP6):
                        P.append(e2.ScalarProbe("opassign/viaptr/" + k, fn(), t1, [t1, t2],
                                                "%s *p = &a; *p %s= b; return a;" % (t1.name, op), ref))
    # ---- ++ / --
    if want("incdec"):
        for t1 in INT9:
            one = z3.BitVecVal(1, 32)
            for form, op, post in [("preinc", "+", False), ("predec", "-", False), ("postinc", "+", True), ("postdec", "-", True)]:
                newv = (lambda op, t1: lambda a: (lambda r: (conv(r[0], r[1], t1), r[2]))(binop(op, a, t1, z3.BitVecVal(1, 32), INT)))(op, t1)
                src = {"preinc": "++a", "predec": "--a", "postinc": "a++", "postdec": "a--"}[form]
                if t1.is_bool and op == "-" :
                    pass
                refval = (lambda newv, post: lambda a: ((a, newv(a)[1]) if post else newv(a)))(newv, post)
                P.append(e2.ScalarProbe("incdec/%s/value/%s" % (form, t1.cid), fn(), t1, [t1], "return %s;" % src, refval))
                P.append(e2.ScalarProbe("incdec/%s/effect/%s" % (form, t1.cid), fn(), t1, [t1], "%s; return a;" % src, newv))
    # ---- pointers: difference, comparison, +/- integer, indexing
    if want("ptr"):
        for sz in [1, 2, 4, 8, 12, 24]:
            decl = "struct S%d { char c[%d]; };" % (sz, sz)
            PT = cref.T("struct S%d *" % sz, 64, False, rank=4)
            def refdiff(a, b, sz=sz):
                d = a - b
                return d / z3.BitVecVal(sz, 64), z3.SRem(d, z3.BitVecVal(sz, 64)) == 0
            P.append(e2.ScalarProbe("ptr/diff/%d" % sz, fn(), LONG, [PT, PT], "return a - b;", refdiff, pre=decl))
            for it in ([INT, LONG, UCHAR, UINT, SHORT] if full or sz in (4, 12) else [INT, LONG]):
                def refadd(a, i, sz=sz, it=it):
                    return a + conv(i, it, LONG) * z3.BitVecVal(sz, 64), TRUE
                def refsub(a, i, sz=sz, it=it):
                    return a - conv(i, it, LONG) * z3.BitVecVal(sz, 64), TRUE
                P.append(e2.ScalarProbe("ptr/add/%d/%s" % (sz, it.cid), fn(), PT, [PT, it], "return a + b;", refadd, pre=decl))
                P.append(e2.ScalarProbe("ptr/radd/%d/%s" % (sz, it.cid), fn(), PT, [PT, it], "return b + a;", refadd, pre=decl))
                P.append(e2.ScalarProbe("ptr/sub/%d/%s" % (sz, it.cid), fn(), PT, [PT, it], "return a - b;", refsub, pre=decl))
                P.append(e2.ScalarProbe("ptr/index/%d/%s" % (sz, it.cid), fn(), PT, [PT, it], "return &a[b];", refadd, pre=decl))
                P.append(e2.ScalarProbe("ptr/addassign/%d/%s" % (sz, it.cid), fn(), PT, [PT, it], "a += b; return a;", refadd, pre=decl))
            for op in ["<", "<=", ">", ">=", "==", "!="]:
                def refcmp(a, b, op=op):
                    return binop(op, a, ULONG, b, ULONG)[0], TRUE
                if sz in (1, 8) or full:
                    P.append(e2.ScalarProbe("ptr/cmp/%s/%d" % (OPNAME[op], sz), fn(), INT, [PT, PT], "return a %s b;" % op, refcmp, pre=decl))
            P.append(e2.ScalarProbe("ptr/inc/%d" % sz, fn(), PT, [PT], "return ++a;",
                                    lambda a, sz=sz: (a + z3.BitVecVal(sz, 64), TRUE), pre=decl))
            P.append(e2.ScalarProbe("ptr/postdec/%d" % sz, fn(), PT, [PT], "a--; return a;",
                                    lambda a, sz=sz: (a - z3.BitVecVal(sz, 64), TRUE), pre=decl))
    # ---- enumeration constants are ints
    if want("enum"):
        for op in ["+", "*", "/", "<", ">>", "&"]:
            for t1 in INT9:
                for kv in (-5, 3):
                    if op == ">>" and kv < 0:
                        continue          # a negative shift count is never defined: the probe would be vacuous
                    ref = (lambda op, t1, kv: lambda a: binop(op, a, t1, z3.BitVecVal(kv, 32), INT)[0::2])(op, t1, kv)
                    _, rt, _ = binop(op, z3.BitVec("x", t1.bits), t1, z3.BitVecVal(kv, 32), INT)
                    P.append(e2.ScalarProbe("enum/%s/%s/%s" % (OPNAME[op], t1.cid, "m5" if kv < 0 else "p3"), fn(), rt, [t1],
                                            "return a %s K;" % op, ref, pre="enum { K_%d = 0, K = %d };" % (n[0], kv) if False else ""))
                    P[-1].csrc = "enum E%d { K%d = %d };\n%s { return a %s K%d; }\n" % (n[0], n[0], kv, P[-1].proto, op, n[0])
    # ---- depth 2 with a unary operator inside / outside a binary operator
    if want("d2un"):
        pairs = [(a, b) for a in INT9 for b in INT9] if full else [(a, b) for a in REP6 + [BOOL] for b in REP6]
        for u in cref.UNOPS:
            for op in cref.BINOPS:
                for t1, t2 in pairs:
                    def refi(a, b, u=u, op=op, t1=t1, t2=t2):
                        v1, r1, d1 = unop(u, a, t1)
                        v2, r2, d2 = binop(op, v1, r1, b, t2)
                        return v2, z3.And(d1, d2)
                    def refo(a, b, u=u, op=op, t1=t1, t2=t2):
                        v1, r1, d1 = binop(op, a, t1, b, t2)
                        v2, r2, d2 = unop(u, v1, r1)
                        return v2, z3.And(d1, d2)
                    sx = z3.BitVec
                    ri = binop(op, unop(u, sx("x", t1.bits), t1)[0], unop(u, sx("x", t1.bits), t1)[1], sx("y", t2.bits), t2)[1]
                    bo = binop(op, sx("x", t1.bits), t1, sx("y", t2.bits), t2)
                    ro = unop(u, bo[0], bo[1])[1]
                    un = {"+": "plus", "-": "neg", "~": "not", "!": "lnot"}[u]
                    k = "%s/%s/%s/%s" % (un, OPNAME[op], t1.cid, t2.cid)
                    P.append(e2.ScalarProbe("d2un/inner/" + k, fn(), ri, [t1, t2], "return (%sa) %s b;" % (u, op), refi))
                    P.append(e2.ScalarProbe("d2un/outer/" + k, fn(), ro, [t1, t2], "return %s(a %s b);" % (u, op), refo))
    # ---- depth 2: (a op1 b) op2 c and a op1 (b op2 c)
    if want("d2"):
        ops2 = cref.BINOPS if full else ["+", "-", "*", "/", "%", "<<", ">>", "<", "==", "&", "|", "&&", ","]
        triples = [(UCHAR, INT, LONG), (SHORT, UINT, INT), (INT, ULONG, UCHAR), (UINT, LONG, SHORT), (LONG, UCHAR, UINT),
                   (ULONG, SHORT, ULONG)]
        if not full:
            triples = triples[:3]
        for o1 in ops2:
            for o2 in ops2:
                for (t1, t2, t3) in triples:
                    def refl(a, b, c, o1=o1, o2=o2, t1=t1, t2=t2, t3=t3):
                        v1, r1, d1 = binop(o1, a, t1, b, t2)
                        v2, r2, d2 = binop(o2, v1, r1, c, t3)
                        return v2, z3.And(d1, d2)
                    def refr(a, b, c, o1=o1, o2=o2, t1=t1, t2=t2, t3=t3):
                        v1, r1, d1 = binop(o2, b, t2, c, t3)
                        if o1 in ("&&", "||"):   # rhs evaluated (hence must be defined) only when needed
                            need = (a != 0) if o1 == "&&" else (a == 0)
                            d1 = z3.Implies(need, d1)
                        v2, r2, d2 = binop(o1, a, t1, v1, r1)
                        return v2, z3.And(d1, d2)
                    sx = z3.BitVec
                    rl = binop(o2, binop(o1, sx("x", t1.bits), t1, sx("y", t2.bits), t2)[0], binop(o1, sx("x", t1.bits), t1, sx("y", t2.bits), t2)[1], sx("z", t3.bits), t3)[1]
                    rr_in = binop(o2, sx("y", t2.bits), t2, sx("z", t3.bits), t3)
                    rr = binop(o1, sx("x", t1.bits), t1, rr_in[0], rr_in[1])[1]
                    k = "%s/%s/%s%s%s" % (OPNAME[o1], OPNAME[o2], t1.cid[:3] + str(t1.bits), t2.cid[:3] + str(t2.bits), t3.cid[:3] + str(t3.bits))
                    if o2 in ("&&", "||"):
                        pass
                    P.append(e2.ScalarProbe("d2/left/" + k, fn(), rl, [t1, t2, t3], "return (a %s b) %s c;" % (o1, o2), refl))
                    P.append(e2.ScalarProbe("d2/right/" + k, fn(), rr, [t1, t2, t3], "return a %s (b %s c);" % (o1, o2), refr))
    return P


class ArgProbe(e2.Probe):
    """`long f(T1 a, T2 b){ return sink(a OP b); }` with `long sink(T3)`: at the call, the first argument
    register holds (T3)(a OP b) in its low bits; f returns whatever sink returned."""

    def __init__(self, key, fn, t1, t2, t3, op):
        self.key, self.fn, self.family = key, fn, "ctx"
        self.t1, self.t2, self.t3, self.op = t1, t2, t3, op
        self.csrc = "long sink_%s(%s);\nlong %s(%s a, %s b) { return sink_%s((a %s b)); }\n" % (fn, t3.name, fn, t1.name, t2.name, fn, op)

    def goals(self, M, finals):
        t1, t2, t3 = self.t1, self.t2, self.t3
        a = z3.Extract(t1.bits - 1, 0, z3.BitVec("in_rdi", 64)) if t1.bits < 64 else z3.BitVec("in_rdi", 64)
        b = z3.Extract(t2.bits - 1, 0, z3.BitVec("in_rsi", 64)) if t2.bits < 64 else z3.BitVec("in_rsi", 64)
        hyps = []
        if t1.is_bool:
            hyps.append(z3.ULE(a, 1))
        if t2.is_bool:
            hyps.append(z3.ULE(b, 1))
        v, rt, d = binop(self.op, a, t1, b, t2)
        want = conv(v, rt, t3)
        out = []
        for i, s in enumerate(finals):
            if s.dead:
                continue
            H = hyps + [d] + s.pc
            calls = [e for e in s.events if e.kind == "call"]
            if len(calls) != 1:
                out.append(e2.Goal("onecall/p%d" % i, H, z3.BoolVal(False), note="%d calls on path" % len(calls)))
                continue
            ev = calls[0]
            rdi = ev.regs["rdi"]
            got = z3.Extract(t3.bits - 1, 0, rdi) if t3.bits < 64 else rdi
            out.append(e2.Goal("argvalue/p%d" % i, H, got == want, {"a": a, "b": b, "__expected": want}))
            out.append(e2.Goal("callalign/p%d" % i, H, z3.Extract(3, 0, ev.regs["rsp"] - M.RSP0) == asmx.bv(8, 4)))
            out.append(e2.Goal("retpass/p%d" % i, H, s.regs["rax"] == ev.ret_rax))
            out.append(e2.Goal("frame/p%d" % i, H, z3.And(s.regs["rsp"] == M.RSP0 + asmx.bv(8), s.regs["rbp"] == z3.BitVec("in_rbp", 64))))
        return out

    def replay_sources(self, values):
        return None


def main(tier, only=None):
    chk = vf.Check("C01", tier)
    probes = mk_probes(tier, only)
    chk.bounds += ["operand values: all (symbolic 64-bit registers incl. arbitrary garbage above the operand width)",
                   "operators: all binary/unary/cast/?:; type pairs: all 81 ordered pairs of the 9 integer types (return context); "
                   "contexts init/assign/argument/condition: %s" % ("all pairs x all target types" if tier == "thorough" else "6x6 representative pairs x 5 target types x 9 operators"),
                   "expression depth: 1 everywhere, 2 for (a op b) op c and a op (b op c) over %s" % ("all operator pairs x 6 type triples" if tier == "thorough" else "13x13 operator pairs x 3 type triples")]
    chk.outside += ["expression depth > 2 is not enumerated; it is covered by induction: `repr/*` proves that every producer of a narrow-typed value (cast, assignment, op=, ++/--, load through every lvalue kind, ?:, comma) leaves it extended so that a consumer at any wider type reads the C11 value, and every operator is proved from operands in that representation",
                    "signed char / enum-typed objects (only enumeration constants)"]
    chk.assumptions += ["ABI entry state: _Bool arguments are 0/1 in their low byte; everything above an argument's width is arbitrary",
                        "right shift of negative signed values is arithmetic (implementation-defined; gcc/psABI convention)",
                        "narrowing conversions to signed types wrap (implementation-defined; gcc convention)"]
    chk.functions.update(["codegen.c:gen_expr", "codegen.c:cast", "codegen.c:load", "codegen.c:store", "codegen.c:cmp_zero",
                          "type.c:add_type", "type.c:usual_arith_conv", "parse.c:new_cast/to_assign/new_inc_dec/new_add/new_sub (via emitted code)"])
    e2.run_probes(chk, probes)
    sc = [p for p in probes if isinstance(p, e2.ScalarProbe)]
    e2.validate_scalar(chk, sc, per_probe=5, max_probes=60 if tier == "quick" else 300, seed=chk.seed)
    for p in probes[:6]:
        chk.sample(dict(key=p.key, c=p.csrc.strip()))
    return chk.finish()


replay = vf.generic_replay
