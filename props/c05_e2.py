# C05 (E2 part): whole-pipeline check of initializers. For generated (type, initializer spelling) pairs the
# object is defined once with static storage (data image emitted by emit_data) and once with automatic storage
# (code emitted for the assignment chain); every scalar leaf of both is read back by symbolically executing
# reader functions and must equal the C11 6.7.9 reference value (lib/cinit.py), unmentioned members zero.
# The reference itself is validated against gcc for every generated program first (oracle validation only).
import os, z3
import vf, e2, asmx, cinit


class InitProbe(e2.Probe):
    def __init__(self, key, fn, tid, t, init, vals, rty):
        self.key, self.fn, self.family = key, fn, "init"
        self.vals = vals
        self.rty = rty
        self.paths = sorted(vals)
        d = cinit.decl(t)
        objdecl = cinit.field(t, "OBJ")
        itext = cinit.ctext(init)
        self.itext = itext
        src = d + "%s = %s;\n" % (objdecl.replace("OBJ", "gs_" + fn), itext)
        self.readers = []
        for k, pth in enumerate(self.paths):
            src += "long rs%d_%s(void) { return gs_%s%s; }\n" % (k, fn, fn, pth)
            src += "long ra%d_%s(void) { %s = %s; return x%s; }\n" % (k, fn, objdecl.replace("OBJ", "x"), itext, pth)
            self.readers.append(("rs%d_%s" % (k, fn), "ra%d_%s" % (k, fn), pth))
        src += "long sz_%s(void) { return sizeof(gs_%s); }\n" % (fn, fn)
        src += "long sza_%s(void) { %s = %s; return sizeof(x); }\n" % (fn, objdecl.replace("OBJ", "x"), itext)
        self.csrc = src
        self.max_visits = 64

    def run_all(self, P):
        """returns list of (what, path, got, want)"""
        out = []
        for rs, ra, pth in self.readers:
            for kind, f in (("static", rs), ("automatic", ra)):
                M = asmx.Machine(P, max_visits=64)
                fin = [s for s in M.run(f) if not s.dead]
                if len(fin) != 1:
                    out.append((kind, pth, "paths=%d" % len(fin), self.vals[pth]))
                    continue
                v = asmx.simp(fin[0].regs["rax"])
                got = v.as_signed_long() if z3.is_bv_value(v) else str(v)[:60]
                out.append((kind, pth, got, self.vals[pth]))
        return out

    def gcc_source(self):
        """program printing every leaf of the static and the automatic object (oracle validation with gcc)"""
        src = "#include <stdio.h>\n" + self.csrc + "int main(void) {\n"
        for rs, ra, pth in self.readers:
            src += '  printf("%%ld %%ld\\n", %s(), %s());\n' % (rs, ra)
        src += '  printf("%%ld %%ld\\n", sz_%s(), sza_%s());\n  return 0; }\n' % (self.fn, self.fn)
        return src


def _one(idx):
    p = e2._PROBES[idx]
    import time
    t1 = time.time()
    res = dict(key=p.key, family="init", status="proved", detail="", secs=0.0, replay=None, nq=0, insns=0, paths=0)
    try:
        # 1. oracle validation: gcc must agree with the reference on this program, otherwise the program is skipped
        d = vf.subdir("c05")
        base = os.path.join(d, "g%d_%s" % (os.getpid(), p.fn))
        with open(base + ".c", "w") as fh:
            fh.write(p.gcc_source())
        rc, o, e, _ = vf.run(["gcc", "-w", "-O0", "-o", base + ".exe", base + ".c"], timeout=60)
        if rc != 0:
            res["status"], res["detail"] = "skipped", "gcc rejects the generated program: " + e.strip()[-150:]
            return res
        rc, o, e, _ = vf.run([base + ".exe"], timeout=20)
        lines = o.strip().split("\n")
        ok = rc == 0 and len(lines) == len(p.readers) + 1
        if ok:
            for (rs, ra, pth), ln in zip(p.readers, lines):
                a, b = ln.split()
                if int(a) != p.vals[pth] or int(b) != p.vals[pth]:
                    ok = False
        for suf in (".c", ".exe"):
            try:
                os.remove(base + suf)
            except OSError:
                pass
        if not ok:
            res["status"], res["detail"] = "skipped", "reference and gcc disagree on this spelling (reference not trusted here)"
            return res
        gcc_sz = lines[-1].split()[0]
        # 2. chibicc
        rc, asm, err = vf.chibicc_S(p.csrc, name="c05_%d_%s" % (os.getpid(), p.fn), builddir=e2._BUILD, want_rc=True)
        script = ("#!/bin/bash\n# initializer check: every leaf of the static and of the automatic object, chibicc vs the C11 6.7.9 value\n"
                  "cat > \"$WORK/p.c\" <<'EOF_P'\n%s\nEOF_P\n\"$CHIBICC\" -I\"$CHIBICC_INCLUDE\" -o \"$WORK/t.exe\" \"$WORK/p.c\" || exit 3\n"
                  "got=$(\"$WORK/t.exe\" | tr '\\n' ';')\nwant='%s'\necho \"got=$got\"; echo \"want=$want\"; [ \"$got\" = \"$want\" ]\n"
                  % (p.gcc_source(), ";".join(lines) + ";"))
        if rc != 0:
            res["status"] = "violated"
            res["detail"] = "chibicc rejects/crashes (rc=%s) on a valid initializer `%s`: %s" % (rc, p.itext[:120], err.strip()[-200:])
            res["replay"] = script
            return res
        P = asmx.Program(asm)
        bad = []
        for kind, pth, got, want in p.run_all(P):
            res["nq"] += 1
            if got != want:
                bad.append("%s object%s = %s, C11 requires %s" % (kind, pth, got, want))
        M = asmx.Machine(P)
        fin = M.run("sz_" + p.fn)
        v = asmx.simp(fin[0].regs["rax"])
        if not (z3.is_bv_value(v) and str(v.as_long()) == gcc_sz):
            bad.append("sizeof = %s, expected %s" % (v, gcc_sz))
        if bad:
            # replay natively
            kind, rc2, out = e2.native_run(p.gcc_source().replace("int main(void)", "int main_unused(void)") if False else p.csrc, _driver(p), "c05")
            res["replay"] = script
            if kind == "ran" and out.strip().split("\n") == lines:
                res["status"] = "mismatch"
                res["detail"] = "executor: %s | but the natively run chibicc program prints the reference values" % "; ".join(bad[:3])
            else:
                res["status"] = "violated"
                res["detail"] = "initializer `%s`: %s" % (p.itext[:160], "; ".join(bad[:4]))
    except asmx.Unmodelled as ex:
        res["status"], res["detail"] = "inconclusive", "unmodelled: %s" % ex
    except Exception as ex:
        import traceback
        res["status"], res["detail"] = "inconclusive", "error: %s %s" % (ex, traceback.format_exc()[-300:])
    res["secs"] = time.time() - t1
    return res


def _driver(p):
    src = "#include <stdio.h>\n"
    for rs, ra, pth in p.readers:
        src += "long %s(void); long %s(void);\n" % (rs, ra)
    src += "long sz_%s(void); long sza_%s(void);\nint main(void) {\n" % (p.fn, p.fn)
    for rs, ra, pth in p.readers:
        src += '  printf("%%ld %%ld\\n", %s(), %s());\n' % (rs, ra)
    src += '  printf("%%ld %%ld\\n", sz_%s(), sza_%s());\n  return 0; }\n' % (p.fn, p.fn)
    return src


def copy_probes():
    """automatic objects initialised from an expression of struct/union type (6.7.9p13), alone and as an element of a
    braced list (where the expression initialises the whole member instead of being brace-elided into it)"""
    from cref import LONG
    pre = ("union CU { int i; long l; char c[8]; };\nstruct CP { long x; int y; };\n"
           "struct CW { int k; union CU u; int z; };\nstruct CO { int k; struct CP p; int z; };\n")
    TRUE = z3.BoolVal(True)
    ident = lambda a: (a, TRUE)
    const = lambda n: (lambda a: (z3.BitVecVal(n, 64), TRUE))
    shapes = [
        ("union/whole", "union CU v; v.l = a; union CU u = v; return u.l;", ident),
        ("union/in-struct-list", "union CU v; v.l = a; struct CW w = { 1, v, 3 }; return w.u.l;", ident),
        ("union/in-struct-list-rest", "union CU v; v.l = a; struct CW w = { 1, v, 3 }; return w.k * 10 + w.z;", const(13)),
        ("union/designated", "union CU v; v.l = a; struct CW w = { .u = v, 4 }; return w.u.l;", ident),
        ("union/designated-rest", "union CU v; v.l = a; struct CW w = { .u = v, 4 }; return w.k * 10 + w.z;", const(4)),
        ("union/array-elements", "union CU v; v.l = a; union CU r[2] = { v, v }; return r[1].l;", ident),
        ("union/array-elements-0", "union CU v; v.l = a; union CU r[2] = { v }; return r[0].l + r[1].l;", ident),
        ("struct/whole", "struct CP s = { a, 5 }; struct CP t = s; return t.x;", ident),
        ("struct/whole-2", "struct CP s = { a, 5 }; struct CP t = s; return t.y;", const(5)),
        ("struct/in-struct-list", "struct CP s = { a, 5 }; struct CO o = { 1, s, 3 }; return o.p.x;", ident),
        ("struct/in-struct-list-rest", "struct CP s = { a, 5 }; struct CO o = { 1, s, 3 }; return o.k * 100 + o.p.y * 10 + o.z;", const(153)),
        ("struct/designated", "struct CP s = { a, 5 }; struct CO o = { .p = s, 7 }; return o.p.x;", ident),
        ("struct/designated-rest", "struct CP s = { a, 5 }; struct CO o = { .p = s, 7 }; return o.k * 100 + o.p.y * 10 + o.z;", const(57)),
        ("struct/array-elements", "struct CP s = { a, 5 }; struct CP r[3] = { s, { 1, 2 }, s }; return r[2].x;", ident),
        ("complit/member", "return (struct CP){ a, 5 }.x;", ident),
        ("complit/member-2", "return (struct CP){ a, 5 }.y;", const(5)),
        ("complit/index", "return (long[]){ 1, a, 3 }[1];", ident),
        ("complit/index-symbolic-tail", "return (long[]){ 1, 2, a }[2] + (long[]){ 7, 8 }[0];", lambda a: (a + 7, TRUE)),
        ("complit/arrow", "return (&(struct CP){ a, 5 })->x;", ident),
        ("complit/nested-union-member", "return (struct CW){ 1, { .l = a }, 3 }.u.l;", ident),
        ("struct/from-call", "struct CP s = { a, 5 }; struct CW w = { 2, cu_ret_%s(a), 9 }; return w.u.l;", ident),
    ]
    P = []
    for k, (key, body, ref) in enumerate(shapes):
        fn = "cp%d" % k
        p2 = pre
        if "cu_ret_%s" in body:
            p2 += "static union CU cu_ret_%s(long a) { union CU v; v.l = a; return v; }\n" % fn
            body = body % fn
        P.append(e2.ScalarProbe("init/copy/" + key, fn, LONG, [LONG], body, ref, family="init", pre=p2, max_visits=16))
        P[-1].inline = "*"
    return P


def fam_probes():
    """flexible array members (6.7.2.1p18) initialised in objects with static storage (GNU extension for the initializer): every
    element of the emitted image is read back, the object is large enough for them and the following object is intact"""
    from cref import LONG
    TRUE = z3.BoolVal(True)
    P = []
    k = 0
    for tn, vals in [("char", [1, 2, 3, 4, 5]), ("short", [300, -2, 7]), ("int", [70000, 2, -3, 4]), ("long", [1 << 40, -5, 6]), ("unsigned char", [200, 1])]:
        for scope in ("file", "block"):
            k += 1
            fn = "fm%d" % k
            init = "{ 7, { %s } }" % ", ".join(str(v) for v in vals)
            decl = "struct FM_%s { int n; %s a[]; };\n" % (fn, tn)
            want = 7 * 1000003 + sum((i + 2) * v for i, v in enumerate(vals)) + 99
            expr = "x.n * 1000003L + " + " + ".join("%d * (long)x.a[%d]" % (i + 2, i) for i in range(len(vals))) + " + after_%s" % fn
            if tn == "unsigned char":
                pass
            if scope == "file":
                pre = decl + "struct FM_%s gx_%s = %s;\nlong after_%s = 99;\n" % (fn, fn, init, fn)
                body = "return %s;" % expr.replace("x.", "gx_%s." % fn)
            else:
                pre = decl + "long after_%s = 99;\n" % fn
                body = "static struct FM_%s x = %s; return %s;" % (fn, init, expr)
            P.append(e2.ScalarProbe("init/flexible-array/%s/%s" % (scope, tn.replace(" ", "_")), fn, LONG, [], body, (lambda w: lambda: (z3.BitVecVal(w, 64), TRUE))(want), family="init", pre=pre, max_visits=8))
    # pointers with address constants in the flexible part
    fn = "fmp"
    pre = ("int arr_fmp[4]; struct FM_fmp { long n; int *a[]; };\nstruct FM_fmp gx_fmp = { 2, { arr_fmp + 1, &arr_fmp[3], arr_fmp } };\nlong after_fmp = 99;\n")
    P.append(e2.ScalarProbe("init/flexible-array/file/pointers", fn, LONG, [], "return gx_fmp.n * 1000 + (gx_fmp.a[0] - arr_fmp) * 100 + (gx_fmp.a[1] - arr_fmp) * 10 + (gx_fmp.a[2] - arr_fmp) + after_fmp;",
                            lambda: (z3.BitVecVal(2000 + 100 + 30 + 0 + 99, 64), TRUE), family="init", pre=pre, max_visits=8))
    return P


def addr_probes(tier):
    """address constants with offsets (C11 6.6p9) as initializers of static AND automatic pointer objects: the value read
    back, minus the base object's address, must be the byte offset given by the C11/psABI layout (reference table below)"""
    from cref import LONG
    pre = ("int arr[8]; struct G { char a; long b[3]; short c; struct { int x, y; } in[2]; } g; char str[] = \"hello\";\n"
           "int fn1(int x) { return x; }\n")
    TRUE = z3.BoolVal(True)
    const = lambda n: (lambda: (z3.BitVecVal(n, 64), TRUE))
    cases = []      # (key, declaration with %s = storage class, expression read back, expected value)
    Is = range(0, 9) if tier == "thorough" else (0, 1, 5, 8)
    Js = range(0, 4) if tier == "thorough" else (0, 3)
    for I in Is:
        cases += [("arr-index/%d" % I, "%sint *p = &arr[%d];" % ("%s", I), "(long)p - (long)arr", 4 * I),
                  ("arr-plus/%d" % I, "%sint *p = arr + %d;" % ("%s", I), "(long)p - (long)arr", 4 * I),
                  ("plus-arr/%d" % I, "%sint *p = %d + arr;" % ("%s", I), "(long)p - (long)arr", 4 * I),
                  ("arr-index-minus9/%d" % I, "%sint *p = &arr[%d] - 9;" % ("%s", I), "(long)p - (long)arr", 4 * (I - 9))]
        for J in Js:
            cases += [("arr-index-minus/%d-%d" % (I, J), "%sint *p = &arr[%d] - %d;" % ("%s", I, J), "(long)p - (long)arr", 4 * (I - J)),
                      ("arr-index-plus/%d-%d" % (I, J), "%sint *p = &arr[%d] + %d;" % ("%s", I, J), "(long)p - (long)arr", 4 * (I + J))]
        if I < 6:
            cases += [("string-plus/%d" % I, "%schar *p = \"hello\" + %d;" % ("%s", I), "p[0]", b"hello\0"[I]),
                      ("string-index/%d" % I, "%schar *p = &\"hello\"[%d];" % ("%s", I), "p[0]", b"hello\0"[I]),
                      ("chararray-plus/%d" % I, "%schar *p = str + %d;" % ("%s", I), "(long)p - (long)str", I),
                      ("chararray-index/%d" % I, "%schar *p = &str[%d];" % ("%s", I), "(long)p - (long)str", I)]
    for I in range(3):
        cases += [("member-array/%d" % I, "%slong *p = &g.b[%d];" % ("%s", I), "(long)p - (long)&g", 8 + 8 * I),
                  ("member-array-decay/%d" % I, "%slong *p = g.b + %d;" % ("%s", I), "(long)p - (long)&g", 8 + 8 * I),
                  ("member-as-integer/%d" % I, "%slong p = (long)&g.b[%d];" % ("%s", I), "p - (long)&g", 8 + 8 * I),
                  ("cast-chain/%d" % I, "%slong *p = (long *)((char *)&g + 8) + %d;" % ("%s", I), "(long)p - (long)&g", 8 + 8 * I)]
    for I in range(2):
        cases += [("nested-member/%d" % I, "%sint *p = &g.in[%d].y;" % ("%s", I), "(long)p - (long)&g", 36 + 8 * I + 4)]
    for K in (0, 1, 7, 33, 51):
        cases += [("byte-offset/%d" % K, "%schar *p = (char *)&g + %d;" % ("%s", K), "(long)p - (long)&g", K)]
    cases += [("member-scalar", "%sshort *p = &g.c;", "(long)p - (long)&g", 32),
              ("function", "%sint (*p)(int) = fn1;", "(long)p - (long)fn1", 0),
              ("function-addr", "%sint (*p)(int) = &fn1;", "(long)p - (long)fn1", 0),
              ("struct-of-pointers", "%sstruct { int *x; char pad; long *y; } t = { &arr[3], 1, &g.b[2] };", "((long)t.x - (long)arr) * 1000 + ((long)t.y - (long)&g) + t.pad * 100000", 12 * 1000 + 24 + 100000),
              ("array-of-pointers", "%sint *pa[3] = { arr, &arr[5], arr + 2 };", "((long)pa[0] - (long)arr) * 1000000 + ((long)pa[1] - (long)arr) * 1000 + ((long)pa[2] - (long)arr)", 20 * 1000 + 8),
              ("designated-pointers", "%sstruct { int *x; long *y; char *z; } t = { .z = str + 4, .x = arr + 1 };", "((long)t.x - (long)arr) * 1000 + ((long)t.z - (long)str) + ((long)t.y) * 100000", 4 * 1000 + 4),
              ("null-and-offsetof", "%slong p = (long)&((struct G *)0)->in[1].x;", "p", 36 + 8)]
    P = []
    n = 0
    for key, decl, expr, want in cases:
        for sc, stor in (("static", "static "), ("automatic", "")):
            n += 1
            fn = "ac%d" % n
            body = "%s return %s;" % (decl % stor, expr)
            P.append(e2.ScalarProbe("init/addrconst/%s/%s" % (sc, key), fn, LONG, [], body, const(want), family="init", pre=pre, max_visits=8))
    # pointer to a static pointer object, file-scope objects
    for I in (0, 6):
        n += 1
        fn = "ac%d" % n
        P.append(e2.ScalarProbe("init/addrconst/static/pointer-to-pointer/%d" % I, fn, LONG, [], "static int *p0 = &arr[%d]; static int **pp = &p0; return (long)*pp - (long)arr;" % I,
                                const(4 * I), family="init", pre=pre, max_visits=8))
        n += 1
        fn = "ac%d" % n
        P.append(e2.ScalarProbe("init/addrconst/file-scope/arr-index/%d" % I, fn, LONG, [], "return (long)gp_%s - (long)arr;" % fn,
                                const(4 * I), family="init", pre=pre + "int *gp_%s = &arr[%d];\n" % (fn, I), max_visits=8))
    import re
    for p in P:           # several probes are compiled into one file: make the shared object names unique per probe
        for nm in ("arr", "str", "fn1", "G", "g"):
            p.csrc = re.sub(r"\b%s\b" % nm, "%s_%s" % (nm, p.fn), p.csrc)
    return P


def run(chk, tier):
    import multiprocessing as mp
    seed = chk.seed
    count = 120 if tier == "quick" else 1500
    gen = cinit.generate(seed * 7919 + 11, count)
    probes = []
    for k, (tid, t, init, vals, rty) in enumerate(gen):
        probes.append(InitProbe("init/%s/%d" % (tid, k), "i%d" % k, tid, t, init, vals, rty))
    nsys = 0
    for k, (tid, t, init, vals, rty) in enumerate(cinit.systematic(10 if tier == "quick" else None)):
        probes.append(InitProbe("init/desig-continue/%s/%d" % (tid, k), "d%d" % k, tid, t, init, vals, rty))
        nsys += 1
    e2._PROBES = probes
    e2._BUILD = vf.build_chibicc()
    with mp.get_context("fork").Pool(vf.NCPU) as pool:
        results = pool.map(_one, range(len(probes)), chunksize=2)
    skipped = 0
    for r, p in zip(results, probes):
        if r["status"] == "skipped":
            skipped += 1
            chk.extra.setdefault("init_skipped_examples", []).append("%s: %s" % (p.itext[:80], r["detail"][:100]))
            continue
        rp = chk.write_replay(r["key"], r["replay"], ext=".sh") if r["replay"] and r["status"] in ("violated", "mismatch") else None
        # keys carry the spelling so that a known finding can name the specific input
        chk.add(r["key"], r["status"], r["detail"], r["secs"], replay=rp, family="init")
    chk.extra["init_programs"] = len(probes)
    chk.extra["init_programs_skipped_reference_vs_gcc"] = skipped
    chk.extra["solver_queries"] = chk.extra.get("solver_queries", 0) + sum(r["nq"] for r in results)
    for p in probes[:3]:
        chk.sample(dict(key=p.key, initializer=p.itext[:200]))
    chk.bounds.append("initializers (E2): %d generated (type, spelling) pairs over 16 object types (nested structs, arrays, unions, bit-fields, char arrays, arrays of unknown bound) "
                      "with designators, brace elision, strings, short lists, trailing commas; every scalar leaf of the static AND the automatic object read back; "
                      "of these %d are the systematic family {D = v, v, v} / {v, D = v, v} for every designator chain D (depth <= 4) into every type" % (len(probes), nsys))
    cp = copy_probes()
    ap = addr_probes(tier)
    chk.bounds.append("initializers (E2): %d address-constant initializers (array element / member / byte-offset / string-literal / function addresses with positive and negative "
                      "offsets, in scalars, structs, arrays, designated) for static and automatic objects: value read back minus the base address equals the layout offset" % len(ap))
    fp_ = fam_probes()
    chk.bounds.append("initializers (E2): %d objects with an initialised flexible array member (element types char/short/int/long/unsigned char/pointer; file and block scope)" % len(fp_))
    cp = cp + ap + fp_
    e2.run_probes(chk, cp, chunk=4)
    chk.bounds.append("initializers (E2): %d shapes of automatic objects initialised from an expression of struct/union type with a symbolic payload "
                      "(whole object, element of a braced list, designated member, array elements, call result)" % len(cp))
    chk.functions.update(["parse.c:initializer2 & co. (via emitted code/data)", "parse.c:write_gvar_data", "parse.c:create_lvar_init", "codegen.c:emit_data", "codegen.c:ND_MEMZERO"])
