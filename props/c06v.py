# C06, variadic part: va_start image (what an ABI-conforming consumer such as vprintf reads) and the
# va_arg walkers of include/stdarg.h, against the psABI 3.5.7 model.
import z3
import e2, asmx, abi
from abi import place, entry_bytes, INT, LONG, DOUBLE, LDOUBLE, PTR, FLOAT
import c06

bv = asmx.bv


class VaArgProbe(e2.Probe):
    """void fn(NAMED, ...) { va_list ap; va_start(ap, last); o0 = va_arg(ap, T0); ... } from an arbitrary ABI entry
    state: every o_i receives the bytes the psABI placed for the i-th variadic argument."""
    inline = "*"

    def __init__(self, key, fn, named, var):
        self.key, self.fn, self.family, self.named, self.var = key, fn, "variadic", named, var
        self.csrc = "#include <stdarg.h>\n" + c06.decls(named + var)
        self.csrc += "".join("extern %s o%d_%s;\n" % (t.name, i, fn) for i, t in enumerate(var))
        ps = ", ".join("%s n%d" % (t.name, i) for i, t in enumerate(named))
        body = "va_list ap; va_start(ap, n%d); " % (len(named) - 1)
        body += " ".join("o%d_%s = va_arg(ap, %s);" % (i, fn, t.name) for i, t in enumerate(var))
        self.csrc += "void %s(%s, ...) { %s va_end(ap); }\n" % (fn, ps, body)
        self.max_visits = 80      # va_arg of a small struct copies its eightbytes in byte loops (include/stdarg.h __va_arg_struct)

    def goals(self, M, finals):
        locs, stack, nsse, hidden = place(self.named + self.var)
        vlocs = locs[len(self.named):]
        out = []
        al = z3.Extract(7, 0, z3.BitVec("in_rax", 64))
        H0 = [c06.RSP_ALIGNED(M), z3.UGE(al, bv(nsse, 8)), z3.ULE(al, bv(8, 8))] + \
            c06.disjoint(M, [("o%d_%s" % (i, self.fn), t.size) for i, t in enumerate(self.var)])
        for pi, s in enumerate(finals):
            if s.dead:
                continue
            H = H0 + s.pc
            for i, t in enumerate(self.var):
                base = M.symaddr("o%d_%s" % (i, self.fn))
                for (off, ft), path in zip(t.fields, t.field_paths or [""]):
                    n = c06.vsize(ft)
                    want = entry_bytes(M, vlocs[i], t, off, n)
                    got = s.copy().load(base + bv(off), n)
                    out.append(e2.Goal("vararg%d%s/p%d" % (i, path, pi), H + c06.canon(ft, want), got == want,
                                       note="variadic argument %d (%s) field %s expected at %s" % (i, t.cid, path or "-", vlocs[i])))
            out.append(e2.Goal("frame/p%d" % pi, H, z3.And(s.regs["rsp"] == M.RSP0 + bv(8), s.regs["rbp"] == z3.BitVec("in_rbp", 64))))
        return out

    def runtime_replay(self):
        d = c06.decls(self.named + self.var)
        ps = ", ".join("%s n%d" % (t.name, i) for i, t in enumerate(self.named))
        chk = ""
        for i, t in enumerate(self.var):
            chk += "  { %s v = va_arg(ap, %s);\n" % (t.name, t.name)
            for j, ((off, ft), path) in enumerate(zip(t.fields, t.field_paths or [""])):
                if getattr(t, "union", False) and j > 0:
                    continue
                chk += "    if (v%s != %s) return %d;\n" % (path, c06.field_value(i, j, ft), 10 + i)
            chk += "  }\n"
        probe = "#include <stdarg.h>\n" + d + "int callee(%s, ...) { va_list ap; va_start(ap, n%d);\n%s  va_end(ap); return 0; }\n" % (ps, len(self.named) - 1, chk)
        inits, args = "", []
        for i, t in enumerate(self.named):
            args.append("0" if t.kind != "struct" else "z%d" % i)
            if t.kind == "struct":
                inits += "  %s z%d; memset(&z%d, 0, sizeof z%d);\n" % (t.name, i, i, i)
        for i, t in enumerate(self.var):
            inits += "  %s v%d; memset(&v%d, 0, sizeof v%d);\n" % (t.name, i, i, i)
            for j, ((off, ft), path) in enumerate(zip(t.fields, t.field_paths or [""])):
                if getattr(t, "union", False) and j > 0:
                    continue
                inits += "  v%d%s = %s;\n" % (i, path, c06.field_value(i, j, ft))
            args.append("v%d" % i)
        driver = "#include <string.h>\n" + d + "int callee(%s, ...);\nint main(void) {\n  char *junk = __builtin_alloca(512); memset(junk, 0x5A, 512); __asm__ volatile(\"\" :: \"r\"(junk) : \"memory\");\n%s  return callee(%s);\n}\n" % (ps, inits, ", ".join(args))
        return probe, driver


class VaListImageProbe(e2.Probe):
    """int fn(NAMED, ...) { va_list ap; va_start(ap, last); return ext(ap); } : at the call, the va_list and the
    register save area have the psABI layout (what vprintf & co. compiled by another compiler will read)."""

    def __init__(self, key, fn, named):
        self.key, self.fn, self.family, self.named = key, fn, "variadic", named
        ps = ", ".join("%s n%d" % (t.name, i) for i, t in enumerate(named))
        self.csrc = "#include <stdarg.h>\n" + c06.decls(named) + "int ext_%s(va_list);\n" % fn
        self.csrc += "int %s(%s, ...) { va_list ap; va_start(ap, n%d); return ext_%s(ap); }\n" % (fn, ps, len(named) - 1, fn)
        self.extern_ret = {"ext_" + fn: "int"}

    def goals(self, M, finals):
        locs, stack, nsse, hidden = place(self.named)
        ngp = sum(1 for l in locs for x in l if x.kind == "gp")
        out = []
        al = z3.Extract(7, 0, z3.BitVec("in_rax", 64))
        for pi, s in enumerate(finals):
            if s.dead:
                continue
            H = [c06.RSP_ALIGNED(M), z3.ULE(al, bv(8, 8))] + s.pc
            calls = [e for e in s.events if e.kind == "call"]
            if len(calls) != 1:
                out.append(e2.Goal("onecall/p%d" % pi, H, z3.BoolVal(False)))
                continue
            ev = calls[0]
            st = ev.state
            ap = ev.regs["rdi"]
            ld = lambda a, n: st.copy().load(a, n)
            out.append(e2.Goal("gp_offset/p%d" % pi, H, ld(ap, 4) == bv(8 * ngp, 32), note="gp_offset must be 8 * %d named INTEGER registers" % ngp))
            out.append(e2.Goal("fp_offset/p%d" % pi, H, ld(ap + bv(4), 4) == bv(48 + 16 * nsse, 32),
                               note="fp_offset must be 48 + 16 * %d named vector registers" % nsse))
            out.append(e2.Goal("overflow_arg_area/p%d" % pi, H, ld(ap + bv(8), 8) == M.RSP0 + bv(8 + stack),
                               note="overflow_arg_area must point just past the named stack arguments"))
            rsa = ld(ap + bv(16), 8)
            for i in range(ngp, 6):
                out.append(e2.Goal("save_gp%d/p%d" % (i, pi), H, ld(rsa + bv(8 * i), 8) == z3.BitVec("in_" + abi.GP_ARGS[i], 64),
                                   note="reg_save_area + %d must hold %%%s" % (8 * i, abi.GP_ARGS[i])))
            for j in range(nsse, 8):
                out.append(e2.Goal("save_xmm%d/p%d" % (j, pi), H + [al != bv(0, 8)], ld(rsa + bv(48 + 16 * j), 8) == z3.BitVec("in_xmm%d" % j, 64),
                                   note="reg_save_area + %d must hold %%xmm%d" % (48 + 16 * j, j)))
            out.append(e2.Goal("align/p%d" % pi, H, z3.Extract(3, 0, ev.regs["rsp"]) == bv(0, 4)))
        return out

    def runtime_replay(self):
        ps = ", ".join("%s n%d" % (t.name, i) for i, t in enumerate(self.named))
        probe = ("#include <stdarg.h>\n#include <stdio.h>\n" + c06.decls(self.named) +
                 "int fmt(char *buf, %s, ...) { va_list ap; va_start(ap, n%d); int r = vsprintf(buf, \"%%d %%.1f %%ld %%.1f %%.1f %%d %%.1f\", ap); va_end(ap); return r; }\n"
                 % (ps, len(self.named) - 1))
        args = ", ".join("0" if t.kind != "sse" else "0.0" for t in self.named)
        driver = ("#include <stdio.h>\n#include <string.h>\n" + c06.decls(self.named) + "int fmt(char *buf, %s, ...);\n" % ps +
                  "int main(void) { char b[200]; fmt(b, %s, 7, 1.5, 123456789012L, 2.5, 3.5, 9, 4.5);\n"
                  "  if (strcmp(b, \"7 1.5 123456789012 2.5 3.5 9 4.5\")) { puts(b); return 1; } return 0; }\n" % args)
        return probe, driver


def variadic_probes(fn, full):
    P = []
    S = c06
    named_sets = [[INT], [INT, DOUBLE], [PTR, INT], [INT] * 6,
                  # named parameters that are structs (in registers / in memory), that overflow to the stack, or that are long double:
                  # va_start must skip exactly the registers and the stack area they take
                  [S.S_ll, INT], [S.S_lll, INT], [INT] * 8, [LDOUBLE] + [INT] * 6, [S.S_dl], [S.S_dd, DOUBLE], [DOUBLE] * 9,
                  [DOUBLE] * 8 + [INT], [INT] * 5 + [DOUBLE] * 7]
    NQ = 11          # named sets used in the quick tier
    seqs = [[INT], [LONG, LONG], [DOUBLE], [DOUBLE, INT, DOUBLE], [LDOUBLE], [INT, LDOUBLE, INT], [PTR, DOUBLE, LONG],
            [INT] * 7, [DOUBLE] * 9, [LONG, DOUBLE] * 4 + [LONG, DOUBLE], [S.S_ii], [S.S_ll], [S.S_d], [S.S_dd], [S.S_ld], [S.S_dl], [S.S_lll],
            [S.S_L], [S.S_fff], [S.S_c3], [INT, S.S_ll, INT], [DOUBLE, S.S_dd, DOUBLE], [S.S_ll, S.S_ll, S.S_ll], [S.S_ld] * 4,
            [LONG] * 5 + [S.S_ll, LONG], [DOUBLE] * 7 + [S.S_dd, DOUBLE], [LDOUBLE, LDOUBLE], [INT, LDOUBLE, S.S_lll, DOUBLE]]
    for ni, named in enumerate(named_sets if full else named_sets[:NQ]):
        nk = c06.sigkey(named)
        P.append(VaListImageProbe("variadic/image/" + nk, fn(), named))
        for seq in seqs:
            if not full and named is not named_sets[0] and len(seq) > 3 and seq[0].kind != "struct":
                continue
            if not full and ni >= 4 and not (seq in ([LONG, LONG], [DOUBLE, INT, DOUBLE], [S.S_ll], [S.S_dl], [INT, LDOUBLE, INT], [INT, S.S_ll, INT])):
                continue
            P.append(VaArgProbe("variadic/va_arg/%s/%s" % (nk, c06.sigkey(seq)), fn(), named, seq))
    # caller side: calling a variadic function
    for seq in [[DOUBLE], [INT, DOUBLE, DOUBLE], [DOUBLE] * 9, [LDOUBLE, DOUBLE], [S.S_dd, INT], [S.S_ld, DOUBLE], [LONG] * 7]:
        p = c06.CallerProbe("variadic/call/" + c06.sigkey(seq), fn(), [INT] + seq, variadic=True)
        p.family = "variadic"
        P.append(p)
    return P
