# C19 — `-E` output re-lexes to the token sequence that was printed (E1: cbmc over main.c print_tokens
# + the real scanners of tokenize.c; see harness/c19/relex.c for why tokenize() itself is modelled)
import os, re
import vf, e1
import c17hist

KINDS = ["ident", "num", "punct"]
HARNESS = os.path.join(vf.VERIF, "harness")


def repo_units():
    return [os.path.join(vf.REPO, f) for f in sorted(os.listdir(vf.REPO))
            if f.endswith(".c") and f not in ("main.c", "tokenize.c")]


def validate_oracle(chk):
    """Native validation of the reference lexer model_lex against the real tokenize() (allowed use of
    concrete runs: validating an oracle).  A disagreement makes the check exit 2."""
    d = vf.subdir("c19oracle")
    src = os.path.join(d, "val.c")
    with open(src, "w") as fh:
        fh.write('#define NATIVE 1\n#include "%s"\nint main(void) { validate_oracle(); return 0; }\n'
                 % os.path.join(HARNESS, "c19", "relex.c"))
    exe = os.path.join(d, "val.exe")
    rc, o, e, _ = vf.run(["gcc", "-w", "-O1", "-I", vf.REPO, "-I", HARNESS, "-o", exe, src,
                          os.path.join(HARNESS, "c19", "lexk.c")] + repo_units(), timeout=300)
    if rc != 0:
        chk.add("oracle/model-lex-vs-tokenize", "inconclusive", "oracle validation did not build: " + e[-300:])
        return False
    rc, o, e, secs = vf.run([exe], timeout=300)
    m = re.search(r"ORACLE-OK (\d+) buffers", o)
    if rc == 0 and m:
        chk.extra["validated"] = chk.extra.get("validated", 0) + int(m.group(1))
        chk.extra["oracle_validation"] = o.strip().splitlines()[-1]
        return True
    chk.add("oracle/model-lex-vs-tokenize", "mismatch",
            "reference lexer disagrees with the real tokenize(): " + (o + e)[-300:])
    return False


def e2e_replay(chk):
    """A violated pair class: show the same pair end to end through `chibicc -E` (macro expansion puts B
    directly after A) and make that script the replay file."""
    b = None
    for o in chk.obl:
        if o["status"] != "violated" or not o["key"].startswith("pair/") or not o.get("replay"):
            continue
        try:
            IN = c17hist.parse_inputs(open(o["replay"]).read())
            A = bytes(IN["a"][(i,)] for i in range(IN["la"][()]))
            B = bytes(IN["b"][(i,)] for i in range(IN["lb"][()]))
            if any(c < 32 or c > 126 for c in A + B):
                o["detail"] += " | (no -E script: unprintable byte in the pair)"
                continue
            a, bb = A.decode(), B.decode()
            if any(c in "(),#\\" for c in a + bb):
                prog = "#define VERIF_B %s\nVERIF_MARK %sVERIF_B\n" % (bb, a)   # works when A is not an identifier
            else:
                prog = "#define VERIF_F(x) x\nVERIF_MARK VERIF_F(%s)VERIF_F(%s)\n" % (a, bb)
            b = b or vf.build_chibicc()
            d = vf.subdir("c19e2e")
            cpath = os.path.join(d, "p.c")
            with open(cpath, "w") as fh:
                fh.write(prog)
            rc, out, err, _ = vf.run([os.path.join(b, "chibicc"), "-E", cpath], timeout=60)
            line = [l for l in out.splitlines() if l.startswith("VERIF_MARK")]
            fused = "VERIF_MARK " + a + bb
            sh = ("# C19 replay: tokens `%s` and `%s` (two tokens for the compiler proper) are printed by\n"
                  "# `chibicc -E` with nothing between them; re-lexing the printed text gives other tokens\n"
                  "# (established with the real tokenize() by the harness replay %s).\n"
                  "cat > \"$WORK/p.c\" <<'EOF'\n%sEOF\n"
                  "out=$(\"$CHIBICC\" -E \"$WORK/p.c\" | grep '^VERIF_MARK')\n"
                  "echo \"chibicc -E prints: $out\"\n"
                  "if [ \"$out\" = '%s' ]; then echo 'VIOLATION: printed adjacently'; exit 1; fi\nexit 0\n"
                  % (a, bb, os.path.basename(o["replay"]), prog, fused.replace("'", "'\\''")))
            if rc == 0 and line and line[0] == fused:
                path = chk.write_replay(o["key"] + "-chibicc-E", sh, ext=".sh")
                o["harness_replay"] = o["replay"]
                o["replay"] = path
                o["detail"] = "chibicc -E prints `%s%s` for the token pair (`%s`, `%s`) | %s" % (a, bb, a, bb, o["detail"])
            else:
                o["detail"] += " | (chibicc -E did not print the pair adjacently for the generated program: %r)" % (line[:1],)
        except Exception as ex:
            o["detail"] += " | -E replay generation failed: %r" % (ex,)


def main(tier, only=None):
    chk = vf.Check("C19", tier)
    chk.bounds += ["every pair of token spellings A, B of 1..2 ASCII bytes each (bytes 1..127 except the two quote "
                   "characters, symbolic) that lex as ONE token of kind identifier / pp-number / punctuator; B handed "
                   "to the real print_tokens with at_bol=false, has_space=false (reachable for any pair by macro "
                   "expansion); 9 classes by (kind of A, kind of B)",
                   "pair8/*: the same with ALL byte values 1..255 where the bytes >= 0x80 form the 2-byte UTF-8 sequences of U+00C0..U+02FF (non-ASCII identifier characters), "
                   "for the 5 classes involving an identifier"]
    chk.assumptions += [
        "lexing under cbmc = model_lex (tokenize()'s dispatch order for the quote-free ASCII alphabet calling the REAL "
        "read_punct/read_ident): cbmc 6.11 does not get through symbolic execution of the real tokenize() even on a "
        "1-byte buffer; model_lex is validated natively against the real tokenize() on every buffer of <=3 bytes and "
        "on 4..6-byte buffers over reduced alphabets at every run, and each counterexample is confirmed natively with "
        "the real tokenize()",
        "decode_utf8/is_ident1/is_ident2 -> ASCII specification (asserted ASCII); error_at -> ends the path; "
        "open_file -> stdout; fprintf/fputc/fputs in main.c write to a capture buffer",
        "compiled with -D__NO_CTYPE: glibc's ctype macros expand to (*__ctype_b_loc())[c], which has no body in cbmc "
        "(classification would be nondeterministic); with it cbmc's exact isdigit/isalnum/isspace/ispunct models are used",
        "tokens keep their preprocessing kinds when handed to print_tokens (convert_pp_tokens is not run; the pinned "
        "print_tokens does not look at the kind)"]
    chk.outside += ["spellings longer than 2 bytes; string and character literals (so `L` + `\"x\"` -> `L\"x\"`, "
                    "`u8` + string etc. are NOT covered); non-ASCII identifier characters outside U+00C0..U+02FF",
                    "idempotence of a second -E pass over whole files; assembly equality of compiling the -E output",
                    "line structure of the output (at_bol handling, blank lines)"]
    validate_oracle(chk)
    hs = []
    rc = ("open_file:stub_open_file", "error_at:stub_error_at", "decode_utf8:stub_decode_utf8",
          "is_ident1:stub_is_ident1", "is_ident2:stub_is_ident2")
    for a in KINDS:
        for b in KINDS:
            key = "pair/%s-%s" % (a, b)
            if only and not any(key.startswith(o) or o in (a, b) for o in only):
                continue
            hs.append(e1.H("h_%s_%s" % (a, b), key, unwind=8,
                           unwindset=("read_punct.0:25", "read_ident.0:6", "strlen.0:5", "strncmp.0:5", "strchr.0:20"),
                           defines=("__NO_CTYPE",), replace_calls=rc, timeout=600, object_bits=12))
    for a, b in (("ident", "ident"), ("ident", "num"), ("num", "ident"), ("ident", "punct"), ("punct", "ident")):
        key = "pair8/%s-%s" % (a, b)
        if only and not any(key.startswith(o) or o in (a, b) for o in only):
            continue
        hs.append(e1.H("h_%s_%s" % (a, b), key, unwind=8,
                       unwindset=("read_punct.0:25", "read_ident.0:6", "strlen.0:5", "strncmp.0:5", "strchr.0:20"),
                       defines=("__NO_CTYPE", "WIDE8"), replace_calls=rc, timeout=900, object_bits=12))
    if not only or "unit" in only:
        names = ["ident", "str", "num", "punct", "str2"]
        shapes = [(k0, k1) for k0 in range(5) for k1 in range(5)] if tier == "thorough" else [(1, 4), (4, 1), (0, 1), (1, 0), (1, 3), (2, 1), (1, 1)]
        shapes = [(2,) + s_ + (0,) for s_ in shapes] + [(3, 1, 4, 1), (3, 0, 1, 4), (3, 4, 1, 3), (1, 1, 0, 0)]
        for sh in shapes:
            n, ks = sh[0], sh[1:]
            hs.append(e1.H("h_E_unit", "unit/every-token-printed/" + "-".join(names[k] for k in ks[:n]), unwind=8,
                           unwindset=("strlen.0:5", "strncmp.0:12", "strchr.0:20", "memcpy.0:8", "memcmp.0:12"),
                           defines=("__NO_CTYPE", "EN=%d" % n, "EK0=%d" % ks[0], "EK1=%d" % ks[1], "EK2=%d" % ks[2]),
                           replace_calls=("open_file:stub_open_file", "error_at:stub_error_at", "tokenize_file:stub_tokenize_file",
                                          "convert_pp_tokens:stub_convert_pp_tokens", "hashmap_get2:stub_hashmap_get2", "equal:stub_equal"),
                           timeout=600, object_bits=12, native=False,
                           desc="-E of a %d-token unit through the real cc1()/preprocess(): every token is printed" % n))
        chk.bounds += ["unit/*: translation units of 1..3 tokens over {identifier, string literal, number, punctuator, second string literal} (kinds fixed per query: %d shapes; "
                       "white-space flags symbolic) through the real cc1() -E path" % len(shapes)]
    src = [os.path.join(HARNESS, "c19", "lexk.c")] + repo_units()
    e1.run_set(chk, "c19/relex.c", hs, workers=int(os.environ.get("VERIF_WORKERS", "6")), extra_src=src)
    e2e_replay(chk)
    if os.environ.get("VERIF_VERBOSE"):
        for o in chk.obl:
            print("  %-24s %-12s %6.1fs  %s" % (o["key"], o["status"], o["secs"], o["detail"][:170]))
    return chk.finish()


replay = vf.generic_replay
