# C19 — `-E` output re-lexes to the token sequence that was printed (E1: cbmc over main.c print_tokens
# + the real tokenize.c)
import os, re
import vf, e1

KINDS = ["ident", "num", "punct", "str"]


def main(tier, only=None):
    chk = vf.Check("C19", tier)
    chk.bounds += ["every pair of token spellings A, B of 1..2 ASCII bytes each (bytes 1..127, symbolic) that the "
                   "real tokenize() lexes as ONE token of kind identifier / pp-number / punctuator / string "
                   "literal; B printed by the real print_tokens with at_bol=false, has_space=false"]
    chk.assumptions += ["open_file -> stdout (cbmc stub; native replay uses the real one)",
                        "fprintf/fputc/fputs in main.c write to a capture buffer",
                        "tokens keep their preprocessing kinds when handed to print_tokens (convert_pp_tokens, "
                        "which turns pp-numbers/keywords into TK_NUM/TK_KEYWORD, is not run; the pinned "
                        "print_tokens does not look at the kind)"]
    chk.outside += ["spellings longer than 2 bytes (character constants, 3-byte punctuators `...` `<<=` `>>=` as "
                    "A or B, prefixed strings u8\"..\"), non-ASCII identifiers",
                    "idempotence of a second -E pass over whole files; assembly equality of compiling the -E output",
                    "line structure of the output (at_bol handling, blank lines)"]
    src = [os.path.join(vf.REPO, f) for f in sorted(os.listdir(vf.REPO)) if f.endswith(".c") and f != "main.c"]
    hs = []
    for a in KINDS:
        for b in KINDS:
            key = "pair/%s-%s" % (a, b)
            if only and not any(key.startswith(o) or o in (a, b) for o in only):
                continue
            hs.append(e1.H("h_%s_%s" % (a, b), key, unwind=60,
                           unwindset=("strncmp.0:5", "strlen.0:5", "memcmp.0:5"),
                           replace_calls=("open_file:stub_open_file",), timeout=900))
    e1.run_set(chk, "c19/relex.c", hs, workers=int(os.environ.get("VERIF_WORKERS", "8")), extra_src=src)
    if os.environ.get("VERIF_VERBOSE"):
        for o in chk.obl:
            print("  %-40s %-12s %6.1fs  %s" % (o["key"], o["status"], o["secs"], o["detail"][:140]))
    return chk.finish()


replay = vf.generic_replay
