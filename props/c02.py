# C02 — floating-point arithmetic and conversions are bit-exact (E2: asm-smt, z3 FP theory)
import itertools, z3, random
from fractions import Fraction
import vf, e2, asmx, cref
from cref import INT9, BOOL, CHAR, SHORT, INT, LONG, UCHAR, USHORT, UINT, ULONG, FLOAT, DOUBLE, LDOUBLE, FP3, ARITH12, is_fp

TRUE = z3.BoolVal(True)
RNE, RTZ = z3.RNE(), z3.RTZ()
as_fp = e2.ScalarProbe.as_fp


def two_pow(n, sort):
    return z3.fpFPToFP(RNE, z3.FPVal(2.0 ** n, z3.Float64()), sort) if abs(n) < 1000 else None


def ref_conv(a, t1, t2):
    """C11 6.3.1.4/6.3.1.5 conversion of raw value a:t1 to t2 -> (value, defined)"""
    if not is_fp(t1) and not is_fp(t2):
        return cref.conv(a, t1, t2), TRUE
    if not is_fp(t1):
        if t1.signed:
            return z3.fpSignedToFP(RNE, a, t2.sort), TRUE
        return z3.fpUnsignedToFP(RNE, a, t2.sort), TRUE
    x = as_fp(a, t1)
    if is_fp(t2):
        return (x if t1 is t2 else z3.fpFPToFP(RNE, x, t2.sort)), TRUE
    if t2.is_bool:
        return z3.If(z3.fpIsZero(x), z3.BitVecVal(0, 8), z3.BitVecVal(1, 8)), TRUE
    n = t2.bits
    tr = z3.fpRoundToIntegral(RTZ, x)
    fin = z3.And(z3.Not(z3.fpIsNaN(x)), z3.Not(z3.fpIsInf(x)))
    if t2.signed:
        lo = z3.fpNeg(two_pow(n - 1, t1.sort))
        hi = two_pow(n - 1, t1.sort)
        ok = z3.And(fin, z3.fpGEQ(tr, lo), z3.fpLT(tr, hi))
        return z3.fpToSBV(RTZ, x, z3.BitVecSort(n)), ok
    hi = two_pow(n, t1.sort)
    ok = z3.And(fin, z3.fpGEQ(tr, z3.FPVal(0.0, t1.sort)), z3.fpLT(tr, hi))
    return z3.fpToUBV(RTZ, x, z3.BitVecSort(n)), ok


def fp_common(t1, t2):
    if is_fp(t1) and is_fp(t2):
        return t1 if t1.bits >= t2.bits else t2
    if is_fp(t1):
        return t1
    if is_fp(t2):
        return t2
    return cref.common(t1, t2)


def ref_bin(op, a, t1, b, t2):
    tc = fp_common(t1, t2)
    x, dx = ref_conv(a, t1, tc)
    y, dy = ref_conv(b, t2, tc)
    one = lambda c: z3.If(c, z3.BitVecVal(1, 32), z3.BitVecVal(0, 32))
    if op in ("+", "-", "*", "/"):
        f = {"+": z3.fpAdd, "-": z3.fpSub, "*": z3.fpMul, "/": z3.fpDiv}[op]
        return f(RNE, x, y), tc, TRUE
    c = {"<": z3.fpLT, "<=": z3.fpLEQ, ">": z3.fpGT, ">=": z3.fpGEQ, "==": z3.fpEQ, "!=": z3.fpNEQ}[op](x, y)
    return one(c), INT, TRUE


OPN = {"+": "add", "-": "sub", "*": "mul", "/": "div", "<": "lt", "<=": "le", ">": "gt", ">=": "ge", "==": "eq", "!=": "ne"}


# ---- exact literal semantics ---------------------------------------------------------------
def parse_literal(text):
    t = text.lower()
    if t.startswith("0x"):
        mant, _, exp = t[2:].partition("p")
        ip, _, fp = mant.partition(".")
        v = Fraction(int(ip or "0", 16))
        if fp:
            v += Fraction(int(fp, 16), 16 ** len(fp))
        return v * Fraction(2) ** int(exp or "0")
    mant, _, exp = t.partition("e")
    ip, _, fp = mant.partition(".")
    v = Fraction(int(ip or "0"))
    if fp:
        v += Fraction(int(fp), 10 ** len(fp))
    return v * Fraction(10) ** int(exp or "0")


def round_bits(r, ebits, prec, explicit_int=False):
    """Round positive rational r to nearest-even in a binary format with `prec` significand bits
    (incl. hidden bit) and `ebits` exponent bits; return the encoding (sign 0)."""
    bias = (1 << (ebits - 1)) - 1
    emin = 1 - bias
    if r == 0:
        return 0
    # find e with 2^e <= r < 2^(e+1)
    e = r.numerator.bit_length() - r.denominator.bit_length()
    if Fraction(2) ** e > r:
        e -= 1
    if Fraction(2) ** (e + 1) <= r:
        e += 1
    e = max(e, emin)
    scaled = r / Fraction(2) ** (e - prec + 1)      # significand as a rational, want integer
    q = scaled.numerator // scaled.denominator
    rem = scaled - q
    if rem > Fraction(1, 2) or (rem == Fraction(1, 2) and q & 1):
        q += 1
    if q >= 1 << prec:
        q >>= 1
        e += 1
    if e > bias:
        expf, frac = (1 << ebits) - 1, 0
        q = 1 << (prec - 1)
    elif q < 1 << (prec - 1):
        expf = 0            # subnormal
    else:
        expf = e + bias
    if explicit_int:
        return (expf << prec) | q
    return (expf << (prec - 1)) | (q & ((1 << (prec - 1)) - 1))


LITS = ["0.0", "1.0", "0.1", "0.5", "3.14159265358979323846", "16777216.0", "16777217.0", "16777219.0", "2147483648.0",
        "4294967296.0", "9007199254740992.0", "9007199254740993.0", "9007199254740995.0", "9223372036854775808.0",
        "18446744073709551615.0", "18446744073709551616.0", "1e-45", "1.4e-45", "7e-46", "4.9e-324", "2.5e-324", "1e308",
        "1.7976931348623157e308", "3.4028235e38", "3.4028236e38", "1e39", "0x1p-149", "0x1.fffffep127", "0x1p-1074",
        "0x1.fffffffffffffp1023", "0x1.0000000000000800001p0", "0x1.00000100000000001p0", "0x1.8p1", "1e22", "1e23",
        "123456789012345678901234567890.0", "0.3", "2.2250738585072014e-308", "2.2250738585072011e-308", "1e-400", ".5e1"]


def double_rounding_literals(seed, n=4):
    """Ask z3 for real values whose correctly rounded double/float differs from rounding first to the
    x87 format (what strtold + a cast does). Returns decimal literal strings (exact expansions)."""
    out = []
    Q = z3.FPSort(15, 113)
    for tgt, name in ((z3.Float64(), "d"), (z3.Float32(), "f")):
        q = z3.FP("q_" + name, Q)
        s = z3.Solver()
        s.set("timeout", 60000)
        s.set("random_seed", seed)
        direct = z3.fpFPToFP(RNE, q, tgt)
        via = z3.fpFPToFP(RNE, z3.fpFPToFP(RNE, q, asmx.X87), tgt)
        s.add(z3.Not(z3.fpIsNaN(q)), z3.Not(z3.fpIsInf(q)), z3.fpGT(q, z3.FPVal(1.0, Q)), z3.fpLT(q, z3.FPVal(1024.0, Q)))
        s.add(direct != via)
        for _ in range(n):
            if s.check() != z3.sat:
                break
            m = s.model()
            b = m.eval(z3.fpToIEEEBV(q), model_completion=True).as_long()
            e = (b >> 112) & 0x7fff
            frac = b & ((1 << 112) - 1)
            val = Fraction((1 << 112) | frac, 1 << 112) * Fraction(2) ** (e - 16383)
            # exact decimal expansion (denominator is a power of two)
            k = val.denominator.bit_length() - 1
            num = val.numerator * 5 ** k
            sdig = str(num).rjust(k + 1, "0")
            lit = sdig[:-k] + "." + sdig[-k:] if k else sdig + ".0"
            out.append((lit + ("f" if name == "f" else ""), val))
            s.add(q != m.eval(q))
    return out


class LitProbe(e2.ScalarProbe):
    pass


def mk_probes(tier, only=None, seed=0):
    P = []
    n = [0]

    def fn():
        n[0] += 1
        return "g%d" % n[0]

    def want(f):
        return only is None or f in only

    full = tier == "thorough"
    TMO = 200000 if full else 150000
    # ---- all conversions involving a floating type (12x12 minus the 81 integer pairs)
    if want("conv"):
        for t1 in ARITH12:
            for t2 in ARITH12:
                if not (is_fp(t1) or is_fp(t2)):
                    continue
                ref = (lambda t1, t2: lambda a: ref_conv(a, t1, t2))(t1, t2)
                P.append(e2.ScalarProbe("conv/explicit/%s/%s" % (t1.cid, t2.cid), fn(), t2, [t1], "return (%s)a;" % t2.name, ref, timeout_ms=TMO))
                P.append(e2.ScalarProbe("conv/return/%s/%s" % (t1.cid, t2.cid), fn(), t2, [t1], "return a;", ref, timeout_ms=TMO))
                P.append(e2.ScalarProbe("conv/assign/%s/%s" % (t1.cid, t2.cid), fn(), t2, [t1], "%s x; x = a; return x;" % t2.name, ref, timeout_ms=TMO))
    # ---- register representation: a narrow conversion result used at a wider type
    if want("conv"):
        for t1 in FP3:
            for t2 in INT9:
                if t2.bits == 64:
                    continue
                for wide in (LONG, DOUBLE):
                    def refw(a, t1=t1, t2=t2, wide=wide):
                        v, d = ref_conv(a, t1, t2)
                        w, _ = ref_conv(v, t2, wide)
                        return w, d
                    P.append(e2.ScalarProbe("conv/widen/%s/%s/%s" % (t1.cid, t2.cid, wide.cid), fn(), wide, [t1],
                                            "return (%s)a;" % t2.name, refw, timeout_ms=TMO))
    # ---- arithmetic: 4 operators x all pairs with a floating operand (usual arithmetic conversions)
    if want("arith"):
        for op in ["+", "-", "*", "/"]:
            for t1 in ARITH12:
                for t2 in ARITH12:
                    if not (is_fp(t1) or is_fp(t2)):
                        continue
                    if not full and not (is_fp(t1) and is_fp(t2)) and op in ("-", "*"):
                        continue
                    if ULONG in (t1, t2) and not (is_fp(t1) and is_fp(t2)):
                        continue      # u64<->fp is decided in conv/*; composed with an FP operator the query (branchy conversion
                                      # under an FP adder/multiplier) does not finish within 200 s even in the thorough tier: outside
                    rt = fp_common(t1, t2)
                    ref = (lambda op, t1, t2: lambda a, b: ref_bin(op, a, t1, b, t2)[0::2])(op, t1, t2)
                    P.append(e2.ScalarProbe("arith/%s/%s/%s" % (OPN[op], t1.cid, t2.cid), fn(), rt, [t1, t2], "return a %s b;" % op, ref, timeout_ms=TMO))
        for t1 in FP3:
            for op in ["+", "-", "*", "/"]:
                ref = (lambda op, t1: lambda a, b: (lambda r: (r[0], r[2]))(ref_bin(op, a, t1, b, t1)))(op, t1)
                P.append(e2.ScalarProbe("arith/opassign/%s/%s" % (OPN[op], t1.cid), fn(), t1, [t1, t1], "a %s= b; return a;" % op, ref, timeout_ms=TMO))
    # ---- compound assignment across integer/floating types, ++/-- on floating objects
    if want("mixassign"):
        for op in ["+", "-", "*", "/"]:
            for t1 in ARITH12:
                for t2 in ARITH12:
                    if not (is_fp(t1) or is_fp(t2)) or (is_fp(t1) and is_fp(t2) and t1 is t2):
                        continue
                    if not full and (op in ("-", "*") or ULONG in (t1, t2) or (not is_fp(t1) and t1 not in (INT, UCHAR, LONG, BOOL)) or (not is_fp(t2) and t2 not in (INT, LONG))):
                        continue
                    def ref(a, b, op=op, t1=t1, t2=t2):
                        v, tc, d = ref_bin(op, a, t1, b, t2)
                        # v is an FP term of type tc (tc is floating because one operand is); convert back to t1
                        if is_fp(t1):
                            return (v if t1 is tc else z3.fpFPToFP(RNE, v, t1.sort)), d
                        if t1.is_bool:
                            return z3.If(z3.fpIsZero(v), z3.BitVecVal(0, 8), z3.BitVecVal(1, 8)), d
                        n = t1.bits
                        tr = z3.fpRoundToIntegral(RTZ, v)
                        fin = z3.And(z3.Not(z3.fpIsNaN(v)), z3.Not(z3.fpIsInf(v)))
                        if t1.signed:
                            ok = z3.And(fin, z3.fpGEQ(tr, z3.fpNeg(two_pow(n - 1, tc.sort))), z3.fpLT(tr, two_pow(n - 1, tc.sort)))
                            return z3.fpToSBV(RTZ, v, z3.BitVecSort(n)), z3.And(d, ok)
                        ok = z3.And(fin, z3.fpGEQ(tr, z3.FPVal(0.0, tc.sort)), z3.fpLT(tr, two_pow(n, tc.sort)))
                        return z3.fpToUBV(RTZ, v, z3.BitVecSort(n)), z3.And(d, ok)
                    P.append(e2.ScalarProbe("mixassign/%s/%s/%s" % (OPN[op], t1.cid, t2.cid), fn(), t1, [t1, t2], "a %s= b; return a;" % op, ref, timeout_ms=TMO))
        for t1 in FP3:
            one = lambda t1: z3.FPVal(1.0, t1.sort)
            for form, src, f in [("preinc", "return ++a;", z3.fpAdd), ("predec", "return --a;", z3.fpSub),
                                 ("postinc-effect", "a++; return a;", z3.fpAdd), ("postdec-effect", "a--; return a;", z3.fpSub)]:
                P.append(e2.ScalarProbe("mixassign/%s/%s" % (form, t1.cid), fn(), t1, [t1], src,
                                        (lambda t1, f: lambda a: (f(RNE, as_fp(a, t1), z3.FPVal(1.0, t1.sort)), TRUE))(t1, f), timeout_ms=TMO))
            P.append(e2.ScalarProbe("mixassign/postinc-value/%s" % t1.cid, fn(), t1, [t1], "return a++;",
                                    (lambda t1: lambda a: (as_fp(a, t1), TRUE))(t1), timeout_ms=TMO))     # C11 6.5.2.4p2: the value of the operand
            P.append(e2.ScalarProbe("mixassign/postdec-value/%s" % t1.cid, fn(), t1, [t1], "return a--;",
                                    (lambda t1: lambda a: (as_fp(a, t1), TRUE))(t1), timeout_ms=TMO))
    # ---- comparisons incl. NaN / signed zero / infinities (all values symbolic)
    if want("cmp"):
        for op in ["<", "<=", ">", ">=", "==", "!="]:
            for t1 in ARITH12:
                for t2 in ARITH12:
                    if not (is_fp(t1) or is_fp(t2)):
                        continue
                    if not full and not (is_fp(t1) and is_fp(t2)) and not (t1 in (INT, UINT, LONG) or t2 in (INT, UINT, LONG)):
                        continue
                    ref = (lambda op, t1, t2: lambda a, b: ref_bin(op, a, t1, b, t2)[0::2])(op, t1, t2)
                    P.append(e2.ScalarProbe("cmp/%s/%s/%s" % (OPN[op], t1.cid, t2.cid), fn(), INT, [t1, t2], "return a %s b;" % op, ref, timeout_ms=TMO))
    # ---- negation, truth tests
    if want("unary"):
        for t1 in FP3:
            P.append(e2.ScalarProbe("unary/neg/%s" % t1.cid, fn(), t1, [t1], "return -a;",
                                    (lambda t1: lambda a: (z3.fpNeg(as_fp(a, t1)), TRUE))(t1)))
            truth = (lambda t1: lambda a: (z3.If(z3.fpIsZero(as_fp(a, t1)), z3.BitVecVal(0, 32), z3.BitVecVal(1, 32)), TRUE))(t1)
            nottruth = (lambda t1: lambda a: (z3.If(z3.fpIsZero(as_fp(a, t1)), z3.BitVecVal(1, 32), z3.BitVecVal(0, 32)), TRUE))(t1)
            P.append(e2.ScalarProbe("unary/if/%s" % t1.cid, fn(), INT, [t1], "if (a) return 1; return 0;", truth))
            P.append(e2.ScalarProbe("unary/lnot/%s" % t1.cid, fn(), INT, [t1], "return !a;", nottruth))
            P.append(e2.ScalarProbe("unary/ternary/%s" % t1.cid, fn(), INT, [t1], "return a ? 1 : 0;", truth))
            P.append(e2.ScalarProbe("unary/while/%s" % t1.cid, fn(), INT, [t1], "while (a) return 1; return 0;", truth))
            P.append(e2.ScalarProbe("unary/for/%s" % t1.cid, fn(), INT, [t1], "for (;a;) return 1; return 0;", truth))
            P.append(e2.ScalarProbe("unary/do/%s" % t1.cid, fn(), INT, [t1, INT], "do { if (b) return 2; b = 1; } while (a); return 0;",
                                    (lambda t1: lambda a, b: (z3.If(b != 0, z3.BitVecVal(2, 32), z3.If(z3.fpIsZero(as_fp(a, t1)), z3.BitVecVal(0, 32), z3.BitVecVal(2, 32))), TRUE))(t1)))
            for t2 in FP3:
                land = (lambda t1, t2: lambda a, b: (z3.If(z3.And(z3.Not(z3.fpIsZero(as_fp(a, t1))), z3.Not(z3.fpIsZero(as_fp(b, t2)))), z3.BitVecVal(1, 32), z3.BitVecVal(0, 32)), TRUE))(t1, t2)
                lor = (lambda t1, t2: lambda a, b: (z3.If(z3.Or(z3.Not(z3.fpIsZero(as_fp(a, t1))), z3.Not(z3.fpIsZero(as_fp(b, t2)))), z3.BitVecVal(1, 32), z3.BitVecVal(0, 32)), TRUE))(t1, t2)
                P.append(e2.ScalarProbe("unary/land/%s/%s" % (t1.cid, t2.cid), fn(), INT, [t1, t2], "return a && b;", land))
                P.append(e2.ScalarProbe("unary/lor/%s/%s" % (t1.cid, t2.cid), fn(), INT, [t1, t2], "return a || b;", lor))
            # ?: with floating arms of every pair
            for t2 in FP3:
                rt = fp_common(t1, t2)
                refc = (lambda t1, t2, rt: lambda a, b, c: (z3.If(c != 0, ref_conv(a, t1, rt)[0], ref_conv(b, t2, rt)[0]), TRUE))(t1, t2, rt)
                P.append(e2.ScalarProbe("unary/condarms/%s/%s" % (t1.cid, t2.cid), fn(), rt, [t1, t2, INT], "return c ? a : b;", refc))
    # ---- floating constants: exact value -> emitted bit pattern
    if want("lit"):
        lits = [(l, None) for l in LITS]
        for lit, val in double_rounding_literals(seed):
            lits.append((lit, val))
        for lit, val in lits:
            base = lit.rstrip("f")
            v = val if val is not None else parse_literal(base)
            for suf, t, eb, prec in (("", DOUBLE, 11, 53), ("f", FLOAT, 8, 24), ("L", LDOUBLE, 15, 64)):
                if lit.endswith("f") and suf != "f":
                    continue
                bits = round_bits(v, eb, prec, explicit_int=(t is LDOUBLE))
                if t is LDOUBLE:
                    refv = asmx.x87_from_bits(z3.BitVecVal(bits, 80))
                else:
                    refv = z3.fpBVToFP(z3.BitVecVal(bits, t.bits), t.sort)
                key = "lit/%s/%s" % (t.cid, (base[:40] + ("~%d" % len(base) if len(base) > 40 else "")))
                P.append(LitProbe(key, fn(), t, [], "return %s%s;" % (base, suf), (lambda refv: lambda: (refv, TRUE))(refv)))
                P.append(LitProbe(key.replace("lit/", "lit/neg/"), fn(), t, [], "return -%s%s;" % (base, suf),
                                  (lambda refv: lambda: (z3.fpNeg(refv), TRUE))(refv)))
    # ---- default argument promotion of float in a variadic call
    if want("vararg"):
        P.append(VarargProbe("vararg/float-promotion", fn()))
    return P


class VarargProbe(e2.Probe):
    def __init__(self, key, fn):
        self.key, self.fn, self.family = key, fn, "vararg"
        self.csrc = "int vsink_%s(int, ...);\nint %s(float a, double b) { return vsink_%s(1, a, b); }\n" % (fn, fn, fn)

    def goals(self, M, finals):
        a = z3.fpBVToFP(z3.Extract(31, 0, z3.BitVec("in_xmm0", 64)), z3.Float32())
        out = []
        for i, s in enumerate(finals):
            calls = [e for e in s.events if e.kind == "call"]
            if len(calls) != 1:
                out.append(e2.Goal("onecall", s.pc, z3.BoolVal(False)))
                continue
            ev = calls[0]
            got = z3.fpBVToFP(ev.xmm[0], z3.Float64())
            want = z3.fpFPToFP(RNE, a, z3.Float64())
            out.append(e2.Goal("promoted", s.pc, z3.If(z3.fpIsNaN(want), z3.fpIsNaN(got), got == want)))
            out.append(e2.Goal("second", s.pc, ev.xmm[1] == z3.BitVec("in_xmm1", 64)))
            out.append(e2.Goal("al", s.pc, z3.Extract(7, 0, ev.regs["rax"]) == asmx.bv(2, 8)))
        return out


def main(tier, only=None):
    chk = vf.Check("C02", tier)
    probes = mk_probes(tier, only, seed=chk.seed)
    chk.bounds += ["operand values: ALL values of each format incl. NaN, infinities, signed zeros, denormals (symbolic)",
                   "conversions: all 63 ordered pairs of the 12 arithmetic types that involve a floating type, explicit / return / assignment",
                   "arithmetic + - * / and six comparisons: floating x floating pairs, plus integer x floating %s" % ("all pairs" if tier == "thorough" else "(subset of operators/types in quick)"),
                   "floating constants: a fixed boundary list of %d spellings x {none,f,L} suffix plus solver-found double-rounding witnesses" % len(LITS)]
    chk.outside += ["decimal->binary conversion of arbitrary literal text (libc strtold is not encoded): only the listed spellings",
                    "x87 precision-control settings other than the ABI default (extended)", "unsigned long operands directly under a floating + - * / (the conversion itself is decided in conv/*)", "NaN payloads and NaN sign (C11 leaves them unspecified)",
                    "pseudo-denormal / unnormal x87 encodings as inputs (assumed canonical)"]
    chk.assumptions += ["ABI entry state: x87 control word 0x037F (round-to-nearest, extended precision), MXCSR default (round-to-nearest)",
                        "long double memory operands are canonical x87 encodings"]
    chk.functions.update(["codegen.c:cast_table/cast", "codegen.c:gen_expr (SSE and x87 arithmetic/compare)", "codegen.c:cmp_zero",
                          "codegen.c:ND_NUM/ND_NEG", "tokenize.c:convert_pp_number (listed spellings)", "type.c:get_common_type"])
    e2.run_probes(chk, probes, chunk=12)
    sc = [p for p in probes if isinstance(p, e2.ScalarProbe) and p.args]
    e2.validate_scalar(chk, sc, per_probe=6, max_probes=80 if tier == "quick" else 400, seed=chk.seed)
    for p in probes[:5]:
        chk.sample(dict(key=p.key, c=p.csrc.strip()))
    return chk.finish()


replay = vf.generic_replay
