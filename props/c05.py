# C05 — initializers (firm part): static byte image and automatic assignment chain (E1: cbmc over the
# real write_gvar_data()/create_lvar_init()/new_initializer()/struct_decl()/union_decl())
import os
import vf, e1

SHAPES = [(1, "bitfield-struct"), (2, "nested-struct"), (3, "array-of-struct"), (4, "union")]
RC = ("eval_double:cut_eval_double",)


def main(tier, only=None):
    chk = vf.Check("C05", tier)
    want = lambda fam: (not only) or fam in only
    extra = [os.path.join(vf.REPO, "type.c"), os.path.join(vf.REPO, "hashmap.c")]
    chk.assumptions += [
        "types are laid out by the real struct_decl()/union_decl() with struct_union_decl() (token parsing) cut as "
        "in C08; their sizes are asserted against hand-written psABI values and the reference image uses "
        "hand-written psABI bit positions only",
        "the Initializer tree is allocated by the real new_initializer(); leaves carry what initializer2() stores: the "
        "assign() expression, here an integer literal (ND_NUM of type int or long, any value) or NULL",
        "stubs (harness/penv.h): error*/warn_tok, align_to (spec), equal/skip/consume unused; eval_double() cut by a "
        "stub that asserts unreachability",
        "automatic storage: the COMMA/ASSIGN chain returned by create_lvar_init() is interpreted by the harness "
        "(designator expression -> byte/bit address via member offsets and the real eval() of the index scaling; "
        "C assignment = conversion to the member's type/width) on a zeroed object",
    ]
    chk.bounds += [
        "types: S1 = struct{int a:3; int b:5; unsigned c:7; int d; char e; short f; long g:40;}; "
        "S2 = struct{char x; S1 s; long y; short z[2];}; S1[2]; union{long l; S1 s; char c; short h[2];}",
        "presence patterns (constant loop inside each query): static image - every subset of the 7 leaves for S1; for "
        "the larger shapes none/all/each leaf alone/each leaf missing/two alternating/every subset of the four "
        "bit-field leaves of the first S1; automatic chain - none/all/alternating (+ each leaf missing for S1, and for "
        "all shapes in the thorough tier); union: every choice of designated member or none x pattern; leaf values: "
        "ANY int or long literal (symbolic)",
    ]
    chk.outside += [
        "the initializer PARSER (initializer2, designators, brace elision, string literals, flexible arrays, "
        "unknown-bound arrays) - the 'attempt' part of DESIGN C05 is not built",
        "non-literal initializer expressions, address constants/relocations, floating members, _Bool members "
        "(static `_Bool b = 256` stores 0: write_gvar_data truncates instead of converting - noted, not decided here), "
        "bit-fields of width 64, emit_data's .byte/.quad walk (codegen.c)",
    ]
    thorough = tier == "thorough"
    # presence-pattern sets (harness -DPATSET): 0 every subset of S1's 7 leaves; 1 basic + every subset of the four
    # bit-field leaves; 3 none/all/each-missing/alternating; 4 none/all/alternating
    static_pat = {1: 0, 2: 1, 3: 1, 4: 1 if thorough else 3}
    auto_pat = {1: 3, 2: 3, 3: 3, 4: 3} if thorough else {1: 3, 2: 4, 3: 4, 4: 4}
    hs = []
    for sh, name in SHAPES:
        for fn, kind, pat in (("h_static", "static", static_pat[sh]), ("h_auto", "auto", auto_pat[sh])):
            if not want(kind):
                continue
            hs.append(e1.H(fn, "%s/%s" % (kind, name), unwind=200, defines=("SHAPE=%d" % sh, "PATSET=%d" % pat),
                           replace_calls=RC, object_bits=12, timeout=4800 if thorough else 600, family=kind,
                           desc="PATSET=%d" % pat))
    if hs:
        e1.run_set(chk, "c05/init.c", hs, workers=8, extra_src=extra)
    if (not only) or "init" in only:
        import c05_e2
        c05_e2.run(chk, tier)
    if os.environ.get("VERIF_VERBOSE"):
        for o in chk.obl:
            print("  %-40s %-12s %6.1fs %s" % (o["key"], o["status"], o["secs"], o["detail"][:110]))
    return chk.finish()


def replay(path):
    import e1replay
    return e1replay.replay_with(path)
