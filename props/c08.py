# C08 — sizes, alignments, layouts equal the psABI (E1: cbmc over the real parse.c / type.c)
import os
import vf, e1, c08_oracle

F_UNION, F_PACKED, F_BF_NAMED, F_BF_UNNAMED, F_BF_ZERO, F_ALIGNAS, F_ATTR, F_PACKED_ON = 1, 2, 4, 8, 16, 32, 64, 128
CAD = ("--sat-solver", "cadical")


def layout_families():
    S = [  # key suffix, feature mask
        ("plain", 0),
        ("alignas", F_ALIGNAS),
        ("attr-aligned", F_ATTR | F_ALIGNAS),
        ("bitfield-named", F_BF_NAMED),
        ("bitfield-zero", F_BF_NAMED | F_BF_ZERO),
        ("bitfield-unnamed", F_BF_NAMED | F_BF_UNNAMED),
        ("packed", F_PACKED | F_PACKED_ON),
        ("packed-attr-aligned", F_PACKED | F_PACKED_ON | F_ATTR),
        ("packed-alignas", F_PACKED | F_PACKED_ON | F_ALIGNAS),
        ("packed-bitfield", F_PACKED | F_PACKED_ON | F_BF_NAMED),
    ]
    out = []
    for agg, um in (("struct", 0), ("union", F_UNION)):
        for k, m in S:
            out.append(("layout/%s/%s" % (agg, k), m | um))
    return out


def main(tier, only=None):
    chk = vf.Check("C08", tier)
    thorough = tier == "thorough"
    nm = 5 if thorough else 4
    want = lambda fam: (not only) or fam in only

    extra = [os.path.join(vf.REPO, "type.c"), os.path.join(vf.REPO, "hashmap.c")]
    chk.assumptions += [
        "layout: struct_union_decl() (token parsing) is cut; the stub builds Type/Member lists exactly as "
        "struct_members()/attribute_list() leave them (mem->align = _Alignas ? _Alignas : type align)",
        "stubs (harness/penv.h): error*/warn_tok (diagnostic = path ends), equal/skip/consume (spec), "
        "align_to (spec for power-of-two alignment, precondition asserted; real align_to proved equal in align_to/spec)",
        "member types obey C11 constraints: bit-field base is an integer type, width <= type width (_Bool: 1), "
        "zero width only unnamed, no _Alignas on bit-fields, _Alignas >= natural alignment, alignments are powers of two",
        "nested aggregates are represented by an arbitrary (size = k*align, align = 2^j) pair; the invariant "
        "size % align == 0 is asserted on every result",
    ]
    chk.outside += ["more than %d members; declarator nesting; nested aggregate align > 16 or size > 4*align; "
                    "array length > 3; _Alignas/aligned > 32" % nm,
                    "bit-field member access code (C04); flexible array member initialisation (C05)"]

    # ---- oracle validation (reference algorithm vs gcc), not a decision about chibicc
    if want("layout"):
        ok, n, text = c08_oracle.validate(chk.seed, 3000 if thorough else 600)
        chk.extra["oracle_validation"] = dict(shapes=n, agrees_with_gcc=ok, detail=text[-600:])
        chk.extra["validated"] = n
        if not ok:
            chk.add("layout/oracle-vs-gcc", "inconclusive",
                    "reference layout algorithm disagrees with gcc: " + text[-300:], family="layout")

    # ---- (a) layout
    if want("layout"):
        chk.bounds += ["layout: <= %d members (quick tier: 3 for struct families with bit-fields), each any of: 14 real scalar type objects / array_of(scalar, 0..3) / "
                       "aggregate (align 1..16, size 0..4*align) / bit-field (10 integer base types, every width "
                       "0..width of type, named or not); _Alignas 1..32; packed; aligned(1..32); unwind %d"
                       % (nm, 16)]
        hs = []
        for key, mask in layout_families():
            # quick tier: struct layouts with bit-fields (three symbolic divisions per member in the real code)
            # are decided for 3 members, everything else for 4; thorough: 5 everywhere
            n = nm
            if not thorough and "/struct/" in key and (mask & (F_BF_NAMED | F_BF_UNNAMED | F_BF_ZERO)):
                n = 3
            hs.append(e1.H("h_layout", key, unwind=16, defines=("FEAT=%d" % mask, "NM=%d" % n),
                           flags=CAD, timeout=3000 if thorough else 600, family="layout", desc="NM=%d" % n))
        e1.run_set(chk, "c08/layout.c", hs, workers=8, extra_src=extra)

    # ---- support: the align_to specification used by the parse.c harnesses equals the real codegen.c function
    if want("layout") or want("align_to"):
        e1.run_set(chk, "c08/align_to.c", [e1.H("h_align_to", "align_to/spec", unwind=4, native=False, timeout=300,
                                                family="align_to")], workers=2)

    # ---- (b) type-specifier multisets
    if want("declspec"):
        nt = 6 if thorough else 5
        chk.bounds += ["declspec: every sequence of 1..%d keywords from {void _Bool char short int long float double "
                       "signed unsigned} followed by ';' (symbolic, all orders)" % nt]
        chk.assumptions += [
            "declspec: is_typename -> membership stub over the ten keywords; find_typedef -> NULL (asserts token is "
            "not an identifier); equal -> spec specialised to pooled tokens (token invariant asserted); callees of the "
            "_Atomic(/_Alignas/struct/union/enum/typeof branches are replaced by stubs that ASSERT unreachability"]
        chk.outside += ["declspec: storage-class/qualifier keywords, _Atomic, _Alignas, struct/union/enum/typeof/"
                        "typedef-name specifiers, _Complex; empty specifier list (implicit int)"]
        rc = ["is_typename:stub_is_typename", "find_typedef:stub_find_typedef", "typename:cut_parse_type",
              "struct_decl:cut_parse_type", "union_decl:cut_parse_type", "enum_specifier:cut_parse_type",
              "typeof_specifier:cut_parse_type", "const_expr:cut_const_expr"]
        hs = []
        for key, mode in (("declspec/multiset/single-sign-keyword", 1), ("declspec/multiset/repeated-sign-keyword", 2)):
            hs.append(e1.H("h_declspec", key, unwind=16, unwindset=("declspec.0:%d" % (nt + 2),),
                           defines=("NT=%d" % nt, "MODE=%d" % mode), replace_calls=rc, timeout=600,
                           family="declspec"))
        e1.run_set(chk, "c08/declspec.c", hs, workers=4, extra_src=extra)

    if os.environ.get("VERIF_VERBOSE"):
        for o in chk.obl:
            print("  %-40s %-12s %6.1fs %s" % (o["key"], o["status"], o["secs"], o["detail"][:100]))
    if not only or "layout-e2" in only:
        import c08_e2
        c08_e2.run(chk, tier)
    return chk.finish()


def replay(path):
    import e1replay
    return e1replay.replay_with(path)
