# C10 — conditional inclusion and #include resolution (E1: cbmc over the real preprocess.c / main.c)
import os
import vf, e1

CUTS = ("eval_const_expr:stub_eval_const_expr", "expand_macro:stub_expand_macro",
        "read_include_filename:stub_read_include_filename", "read_macro_definition:stub_read_macro_definition",
        "read_line_marker:stub_read_line_marker", "find_macro:stub_find_macro")
# functional harnesses over symbolic token lists: cbmc 6.11's generated pointer checks make symbolic
# execution of list-walking code several times slower; memory safety of these paths is C13's subject
NOPTR = ("--no-pointer-check", "--no-bounds-check", "--no-pointer-primitive-check")


def main(tier, only=None):
    chk = vf.Check("C10", tier)
    want = lambda fam: (not only) or fam in only
    thorough = tier != "quick"
    n_sel, n_junk, n_skip, n_skip2, n_guard = (5, 4, 6, 4, 7) if thorough else (4, 3, 4, 4, 6)   # skip2 at 5 lines: no verdict in 2400 s since the null-directive test (at_bol) entered the loop
    chk.bounds += [
        "cond: every sequence of exactly %d lines (shorter ones are covered: text lines are neutral) over {#if b, #ifdef N, "
        "#ifndef N, #elif b, #else, #endif, text_i}, b and N in {X,Y} symbolic, definedness of X,Y symbolic, well-formed, "
        "nesting <= 3; trailing-token variant: %d lines with an optional junk token on #ifdef/#ifndef/#else/#endif lines"
        % (n_sel, n_junk),
        "cond/skip1, cond/skip2: contracts of skip_cond_incl / skip_cond_incl2 proved for the real functions on every "
        "well-formed sequence of %d lines from every line inside a group (compositional: preprocess2 and skip_cond_incl "
        "are run against the contracts; skip_cond_incl2 is run with its real recursion, on %d lines)" % (n_skip, n_skip2),
        "guard: every well-formed file of 1..%d lines over the alphabet above plus `#define N`" % n_guard,
        "search: 4 include directories + includer's directory, 2 file names, file_exists an arbitrary relation; "
        "sequences of <= 3 searches for the include cache",
        "directive: the three fixed inputs of harness/c10/direxp.c (real preprocess2 + real expand_macro), macro choice "
        "and #if bit symbolic",
        "args: option shapes {-Ia -Ib}, {-Ia -I b}, {-Ia -idirafter z -Ib}, {-idirafter z1 -idirafter z2 -Ia}",
    ]
    chk.assumptions += [
        "tokens are built by the harness (no tokenizer); equal() compares a packed copy of the spelling kept in Token.val",
        "eval_const_expr cut to return the bit carried by the operand token (C07 covers its arithmetic)",
        "branches of preprocess2 outside the alphabet (#include/#define/#undef/#line, macro expansion) are cut by stubs "
        "that ASSERT they are never reached",
        "HashMap replaced by its specification (association list) — sound given C17",
        "cond.c harnesses run without cbmc's generated pointer/bounds checks (functional property; an invalid "
        "dereference yields an unconstrained value, which can only add counterexamples)",
        "format()/dirname()/strndup() are harness implementations; include_file cut to record the chosen path",
        "guard harness (%d lines) uses the skipper contracts, which are proved for the real functions only up to "
        "%d (skip_cond_incl) / %d (skip_cond_incl2) lines" % (n_guard, n_skip, n_skip2),
    ]
    chk.outside += [
        "#if arithmetic (C07); nesting > 3; ill-formed directive sequences (diagnostics); a line after a null directive that starts "
        "with `if`/`ifdef`/`ifndef`/`elif` (the `else`/`endif` spellings are inside)",
        "-include/-D/-U interplay; #pragma once; include cache across more than 3 searches",
        "include_next_idx after an #include resolved in the includer's own directory",
    ]
    hs = []
    if want("cond"):
        for key, fn, n, u1, cuts, extra in (
                ("cond/select", "h_select", n_sel, 2 * n_sel + 2, CUTS + ("skip_cond_incl:spec1",), ()),
                ("cond/trailing-tokens", "h_select_junk", n_junk, 2 * n_junk + 2, CUTS + ("skip_cond_incl:spec1",), ()),
                ("cond/skip1", "h_skip1", n_skip, 0, ("skip_cond_incl2:spec2",), ()),
                # the real recursion of skip_cond_incl2 does not finish with the null-directive lines at 4 lines (> 2400 s):
                # the full nesting is proved without them, and the null-directive lines on 3 lines
                ("cond/skip2", "h_skip2", n_skip2, 0, (), ("NO_NULLD",)),
                ("cond/skip2-null-directive", "h_skip2", 3, 0, (), ())):
            us = ["skip_line.0:3", "preprocess2.0:2", "skip_cond_incl2:4"]
            if u1:
                us.append("preprocess2.1:%d" % u1)
            hs.append(e1.H(fn, key, unwind=3 * n + 3, unwindset=us, defines=("NITEMS=%d" % n, "HK_" + fn) + extra,
                           replace_calls=cuts, flags=NOPTR, timeout=2400 if thorough else 1200,
                           desc="%d lines" % n))
    if want("guard"):
        hs.append(e1.H("h_guard", "guard/sound", unwind=3 * n_guard + 3, defines=("NITEMS=%d" % n_guard, "HK_guard"),
                       replace_calls=("skip_cond_incl2:spec2", "skip_cond_incl:spec1"), flags=NOPTR,
                       timeout=1500 if thorough else 600, desc="files of <= %d lines" % n_guard))
    if want("cond"):
        hs.append(e1.H("h_defined", "cond/defined-operand-safe", unwind=12, defines=("NITEMS=4", "HK_defined"),
                       replace_calls=("find_macro:stub_find_macro", "new_num_token:stub_new_num_token"), timeout=900,
                       desc="real read_const_expr on every line of <= 4 tokens over {defined ( ) X 1}, pointer checks on"))
    if hs:
        e1.run_set(chk, "c10/cond.c", hs, workers=8)
    if want("search"):
        hs = [
            e1.H("h_search_order", "search/order", unwind=30, timeout=300, object_bits=10),
            e1.H("h_search_cache", "search/cache-include-next", unwind=30, timeout=300),
            e1.H("h_include_dquote", "search/include-dquote", unwind=30, timeout=300, defines=("HK_inc",),
                 replace_calls=("include_file:stub_include_file", "expand_macro:stub_expand_macro")),
            e1.H("h_include_dquote_two_includers", "search/include-dquote-two-includers", unwind=30, timeout=300, defines=("HK_inc",),
                 replace_calls=("include_file:stub_include_file", "expand_macro:stub_expand_macro")),
            e1.H("h_include_next_after_nested", "search/include-next-per-file", unwind=30, timeout=300, defines=("HK_inc",), object_bits=10,
                 replace_calls=("include_file:stub_include_file", "expand_macro:stub_expand_macro")),
            e1.H("h_include_next_outside", "search/include-next-file-outside-include-path", unwind=30, timeout=300, defines=("HK_inc",), object_bits=10,
                 replace_calls=("include_file:stub_include_file", "expand_macro:stub_expand_macro")),
            e1.H("h_include_angle", "search/include-angle", unwind=30, timeout=300, defines=("HK_inc",),
                 replace_calls=("include_file:stub_include_file", "expand_macro:stub_expand_macro")),
        ]
        e1.run_set(chk, "c10/search.c", hs, workers=4)
    if want("directive"):
        cuts = ("eval_const_expr:stub_eval_const_expr", "read_include_filename:stub_read_include_filename",
                "read_macro_definition:stub_read_macro_definition", "read_line_marker:stub_read_line_marker")
        hs = [e1.H(fn, key, unwind=12, object_bits=12, timeout=300, replace_calls=cuts, defines=("HK_dx",), desc=d)
              for fn, key, d in (
                  ("h_after_empty", "directive/after-empty-macro",
                   "x M | #if b | t | #endif | u with M in {empty object-like, empty F(), N->n, none}"),
                  ("h_hash_macro", "directive/hash-from-macro", "`H error` with H -> # is text (C11 6.10.3.4p3)"),
                  ("h_empty_hash", "directive/hash-after-empty-macro", "`E # error` with empty E is text (C11 6.10p2)"))]
        e1.run_set(chk, "c10/direxp.c", hs, workers=4)
    if want("args"):
        hs = [e1.H("h_args_" + n, "args/" + n, unwind=45, timeout=300)
              for n in ("I_only", "I_separate", "idirafter", "idirafter2")]
        e1.run_set(chk, "c10/args.c", hs, workers=4, extra_src=[os.path.join(vf.REPO, "strings.c")])
    return chk.finish()


replay = vf.generic_replay
