# C13 — every input is answered with output or a located diagnostic (E1 kernels; bounded)
import vf, e1


def main(tier, only=None):
    chk = vf.Check("C13", tier)
    want = lambda f: not only or f in only
    if want("include"):
        RC = ["preprocess2:stub_preprocess2", "join_tokens:stub_join_tokens", "verif_strndup:stub_strndup"]
        ops = [("ident", "{0}"), ("string", "{1}"), ("angle", "{2,4,3}"), ("angle-unclosed", "{2,4}"), ("number", "{5}"), ("ident-string", "{0,1}")]
        exps = [("to-ident", "{0}"), ("to-other-ident", "{4}"), ("to-string", "{1}"), ("to-angle", "{2,3}"), ("to-angle-unclosed", "{2,4}"), ("to-number", "{5}")]
        hs = []
        for nm, op in ops:
            for en, ex in (exps if nm.startswith("ident") else exps[:1]):
                hs.append(e1.H("h_include_operand", "include/operand-terminates/%s/%s" % (nm, en), unwind=12, timeout=200, replace_calls=RC,
                               defines=("OPERAND=" + op, "EXPAND=" + ex),
                               desc="read_include_filename on operand line %s whose macro expansion is the line %s" % (op, ex)))
        e1.run_set(chk, "c13/include.c", hs)
    if want("include"):
        e1.run_set(chk, "c13/depth.c", [e1.H("h_include_depth", "include/nesting-depth-bounded", unwind=12, timeout=300, native=False),
                                         e1.H("h_include_depth", "include/nesting-depth-bounded/limit-path", unwind=12, timeout=300, native=False, defines=("WIT_LIMIT",))])
        chk.bounds += ["#include nesting: the real include_file() with the includer's depth symbolic in 0..300"]
    if want("include"):
        chk.bounds += ["#if defined: the real read_const_expr()/copy_line() on every directive line of <= 4 tokens over {defined, (, ), X, 1} (harness/c10/cond.c h_defined), "
                       "cbmc pointer checks on: a located diagnostic or a well-formed list, never a walk past the end of the line"]
        e1.run_set(chk, "c10/cond.c", [e1.H("h_defined", "include/if-defined-operand-safe", unwind=12, defines=("NITEMS=4", "HK_defined"),
                                             replace_calls=("find_macro:stub_find_macro", "new_num_token:stub_new_num_token"), timeout=900)])
    if want("diag"):
        e1.run_set(chk, "c13/diag.c", [
            e1.H("h_error_at_location", "diag/error_at-line-exists", unwind=9, timeout=600,
                 desc="error_at/verror_at for every NUL-terminated buffer <= 6 bytes and every location in it"),
        ])
    if want("tok"):
        import os
        n = 4 if tier == "quick" else 6
        uni = [os.path.join(vf.REPO, f) for f in ("unicode.c", "type.c", "hashmap.c", "strings.c")]
        hs = []
        for L in range(0, n + 1):
            hs.append(e1.H("h_tok_step", "tok/step-in-bounds-and-progress/len%d" % L, unwind=L + 4, unwindset=("in_range.0:140", "read_punct.0:24"), timeout=1500,
                           defines=("__NO_CTYPE", "TOKBYTES=%d" % L), native=False,
                           replace_calls=("error_at:stub_error_at", "convert_pp_tokens:stub_convert_pp_tokens", "add_line_numbers:stub_add_line_numbers"),
                           instrument=("--unwindset", "tokenize.2:1", "--partial-loops"),
                           desc="one iteration of tokenize()'s main loop from every offset of every NUL-terminated buffer of exactly %d bytes" % L))
        e1.run_set(chk, "c13/tok.c", hs, extra_src=uni)
        chk.bounds += ["tokenizer: inductive step - ONE iteration of tokenize()'s main loop (goto-instrument --unwindset tokenize.2:1 --partial-loops) from every start offset of every "
                       "NUL-terminated buffer of <= %d arbitrary bytes in an exactly sized object: all accesses in bounds, inner loops terminate (unwinding assertions), scan pointer strictly "
                       "advances and stays <= the NUL, or a diagnostic is issued" % n]
        chk.assumptions += ["tok/step: the main loop's only state is the scan pointer and the at_bol/has_space flags (read off tokenize.c: locals p, cur; statics at_bol, has_space), so one iteration "
                            "from an arbitrary offset covers every iteration; strstr is a specification-level model (cbmc has none); error_at ends the path"]
    if want("arith"):
        import os
        e1.run_set(chk, "c13/arith.c", [e1.H("h_additive", "arith/additive-operand-types-answered", unwind=10, timeout=600, native=False, object_bits=13,
                                            desc="new_add/new_sub on every pair of operand type kinds")],
                   extra_src=[os.path.join(vf.REPO, "type.c")])
        e1.run_set(chk, "c13/arith.c", [e1.H("h_primary_ident", "arith/identifier-operand-by-scope-entry", unwind=12, timeout=600, native=False, object_bits=12,
                                            desc="primary() on an identifier whose scope entry is an object / typedef / enumerator / absent")],
                   extra_src=[os.path.join(vf.REPO, "type.c"), os.path.join(vf.REPO, "hashmap.c")])
        e1.run_set(chk, "c13/arith.c", [e1.H("h_declarator_nesting", "arith/declarator-nesting-linear", unwind=20, timeout=900, native=False, object_bits=12,
                                            replace_calls=("pointers:stub_pointers",), flags=("--unwindset", "declarator:300"),
                                            desc="declarator() on n <= 7 nested parentheses: accepted, with work linear in n")],
                   extra_src=[os.path.join(vf.REPO, "type.c")])
        chk.bounds += ["declarator nesting: `( ( ... x ... ) ) ;` with 0..7 pairs of parentheses (symbolic): accepted, at most 2n+2 entries into declarator()"]
        chk.bounds += ["identifier operands: the scope entry of the identifier is symbolic over {absent, object, typedef name, enumeration constant (symbolic value)}"]
        chk.bounds += ["additive operators: new_add / new_sub on all 8 x 8 pairs of operand type kinds (int, long, double, pointer, array, struct, void, pointer to VLA row), symbolic selection"]
    if want("driver"):
        opts = ["-o", "-I", "-idirafter", "-include", "-x", "-MF", "-MT", "-MQ", "-Xlinker", "-D", "-U", "-L", "-cc1-input", "-cc1-output"]
        hs = [e1.H("h_last_option", "driver/last-option-needs-argument/%s" % o.lstrip("-"), unwind=40, timeout=300, defines=("LASTOPT=\"%s\"" % o,),
                   desc="`cc -c x.c %s`: usage diagnostic, no read beyond argv" % o) for o in opts]
        import os
        e1.run_set(chk, "c10/args.c", hs, workers=8, extra_src=[os.path.join(vf.REPO, "strings.c")])
        chk.bounds += ["driver: each of the %d options that take an argument, given as the last word of the command line (no symbolic input: cbmc executes the real "
                       "main()/parse_args() on each listed command line under its pointer checks)" % len(opts)]
    chk.bounds += ["#include operand: 6 operand-line shapes x 6 shapes of what macro expansion returns, over {identifier, string, <, >, number} (the code only distinguishes these token classes); termination claim = 'an operand is macro-expanded at most once' (assertion) + unwinding assertions",
                   "diagnostic location: every buffer of <= 6 bytes (all byte values) x every location"]
    chk.outside += ["whole-parser robustness on arbitrary token streams and 'every conforming program is accepted' (not decidable by bounded symbolic execution); "
                    "the real tokenize() main loop unrolled as a whole (cbmc 6.11 does not get through its pointer merges, see DESIGN.md C19): decided as an inductive step instead (tok/*); "
                    "the other kernels that were crash sites are decided where they belong: constant division by zero (C07 divzero/*), member lookup with unnamed members (C08 layout-e2, C05 init/bf), "
                    "assembler acceptance of every probe program (all E2 checks), driver status propagation incl. signals (C14)"]
    chk.assumptions += ["preprocess.c environment of harness/pp_env*.h: hashmap replaced by its specification (sound given C17), error*/warn stubs that end the path"]
    return chk.finish()


replay = vf.generic_replay
