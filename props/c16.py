# C16 — atomic read-modify-write operations are indivisible (E2 asm-smt, thread-modular)
#
# Other threads are modelled as ARBITRARY INTERFERENCE on the shared cell: every read of the cell
# by the code under test returns a fresh symbolic value, and the cell may only be changed by this
# thread through a locked read-modify-write instruction. An operation is linearizable iff on every
# path it performs exactly one successful atomic step that writes f(value observed by that very
# instruction) and the value it returns is consistent with that step; a failed compare-exchange
# writes nothing to the cell. This covers any number of threads (each thread's operations are such
# atomic steps, so every execution is a serial order of them).
import z3
import vf, e2, asmx, cref, abi
from cref import CHAR, UCHAR, SHORT, USHORT, INT, UINT, LONG, ULONG, BOOL, conv, binop

TRUE = z3.BoolVal(True)
bv = asmx.bv
TYPES = [CHAR, UCHAR, SHORT, USHORT, INT, UINT, LONG, ULONG]
OPS = ["+", "-", "*", "/", "%", "&", "|", "^", "<<", ">>"]
OPN = {"+": "add", "-": "sub", "*": "mul", "/": "div", "%": "mod", "&": "and", "|": "or", "^": "xor", "<<": "shl", ">>": "shr"}


class RmwProbe(e2.Probe):
    """RT fn(VT v) { return <op on the shared cell>; }"""
    cut_loops = True
    max_visits = 3          # up to 2 failed compare-exchange rounds (interfering updates) per operation

    def __init__(self, key, fn, t, vt, expr, f, result, storage="static", pre="", wide=None):
        """f(observed, v) -> (new value, defined); result: 'new' | 'old'; wide: the function returns the result converted to this
        wider integer type (checks the register representation of a narrow result); floating t/vt: values travel in %xmm0"""
        self.key, self.fn, self.family = key, fn, key.split("/")[0]
        self.t, self.vt, self.f, self.result, self.storage = t, vt, f, result, storage
        self.wide = wide
        self.fp = cref.is_fp(t)
        cell = "cell_%s" % fn
        rt = wide.name if wide else t.name
        if storage == "static":
            self.csrc = "%s\n_Atomic(%s) %s;\n%s %s(%s v) { return %s; }\n" % (pre, t.name, cell, rt, fn, vt.name if vt else "int", expr.replace("CELL", cell))
            self.vreg = "xmm0" if (vt is not None and cref.is_fp(vt)) else "rdi"
        else:
            self.csrc = "%s\n%s %s(_Atomic(%s) *p, %s v) { return %s; }\n" % (pre, rt, fn, t.name, vt.name if vt else "int", expr.replace("CELL", "(*p)"))
            self.vreg = "xmm0" if (vt is not None and cref.is_fp(vt)) else "rsi"
        self.volatile = [cell]
        self.cell = cell

    def init(self, M, s):
        if self.storage != "static":
            s.regs["rdi"] = M.symaddr(self.cell)

    def goals(self, M, finals):
        t = self.t
        out = []
        reg = z3.BitVec("in_" + self.vreg, 64)
        v = (z3.Extract(self.vt.bits - 1, 0, reg) if self.vt.bits < 64 else reg) if self.vt else None
        completed = 0
        for pi, s in enumerate(finals):
            if s.dead:
                continue
            H = list(s.pc)
            plain = [e for e in s.events if e.kind == "vstore" and not e.atomic]
            if plain:
                out.append(e2.Goal("noplainstore/p%d" % pi, H, z3.BoolVal(False), note="the shared cell is written by a plain (non-atomic) store"))
                continue
            ats = [e for e in s.events if e.kind == "atomic"]
            for e in ats:
                if not e.locked or e.size != t.bits:
                    out.append(e2.Goal("locked/p%d" % pi, H, z3.BoolVal(False), note="read-modify-write without lock prefix or with the wrong width (%d bits)" % e.size))
            if s.cut:
                # more interference than the bound: every compare-exchange so far failed, nothing may have been written
                for e in ats[:-1]:      # the path is cut at the branch on the last step's outcome: that step is beyond the bound
                    out.append(e2.Goal("failedwrites/p%d" % pi, H, z3.Not(e.success) if e.op == "cmpxchg" else z3.BoolVal(False),
                                       note="a cut path (too much interference) must consist of failed compare-exchanges only"))
                continue
            completed += 1
            succ = [e for e in ats if e.op == "xchg" or True]
            if not ats:
                out.append(e2.Goal("atomicstep/p%d" % pi, H, z3.BoolVal(False), note="operation completed without any atomic read-modify-write step"))
                continue
            # exactly the last atomic step succeeds (path condition says so); earlier ones failed
            for e in ats[:-1]:
                if e.op == "cmpxchg":
                    out.append(e2.Goal("earlierfailed/p%d" % pi, H, z3.Not(e.success), note="two successful atomic steps in one operation"))
            last = ats[-1]
            if last.op == "cmpxchg":
                out.append(e2.Goal("lastsucceeds/p%d" % pi, H, last.success, note="operation returned although its compare-exchange failed"))
            obs = last.observed
            # floating operations: on a successful compare-exchange observed == expected (path condition); writing the reference
            # over the compare value keeps the terms syntactically those of the emitted code (z3's FP theory is slow on an
            # equation that needs the equality substituted under a floating-point operator)
            fobs = last.expected if (self.fp and last.op == "cmpxchg") else obs
            newv, defined = self.f(fobs, v)
            Hd = H + [defined]
            out.append(e2.Goal("linearization/p%d" % pi, Hd, last.new == newv, {"observed": obs, "v": v if v is not None else bv(0, 8)},
                               note="the value written by the atomic step is not f(value observed by that same step)"))
            rax = s.regs["rax"]
            got = z3.Extract(t.bits - 1, 0, rax) if t.bits < 64 else rax
            want = newv if self.result == "new" else obs
            if self.fp:
                got = z3.Extract(t.bits - 1, 0, s.xmm[0]) if t.bits < 64 else s.xmm[0]
            if self.wide is not None:
                got = z3.Extract(self.wide.bits - 1, 0, rax) if self.wide.bits < 64 else rax
                want = conv(want, t, self.wide)
            out.append(e2.Goal("result/p%d" % pi, Hd, got == want, note="returned value is not the %s value of the atomic step" % self.result))
            out.append(e2.Goal("frame/p%d" % pi, H, z3.And(s.regs["rsp"] == M.RSP0 + bv(8), s.regs["rbp"] == z3.BitVec("in_rbp", 64))))
        if completed == 0:
            out.append(e2.Goal("completes", [], z3.BoolVal(False), note="no path completes the operation"))
        return out

    def runtime_replay(self):
        if self.fp or self.wide is not None:
            return None
        return self._runtime_replay()

    def _runtime_replay(self):
        """driver (gcc, pthreads): one call with known values checks the returned and the stored value; for
        additive operations four threads then hammer the operation and the total must not lose updates."""
        t = self.t
        nb = t.bits
        obs0, v0 = 10, 3
        newv, _ = self.f(z3.BitVecVal(obs0, nb), z3.BitVecVal(v0, self.vt.bits) if self.vt else None)
        newc = z3.simplify(newv).as_long()
        ret = newc if self.result == "new" else obs0
        member = getattr(self, "member_decl", None)
        cellx = self.cell + (".c" if ".c" in self.csrc or "->c" in self.csrc else "")
        if self.storage == "static":
            decl = "extern %s %s;" % (("struct W_%s" % self.fn) if cellx.endswith(".c") else t.name, self.cell)
            proto = "%s %s(%s v);" % (t.name, self.fn, self.vt.name if self.vt else "int")
            call = lambda v: "%s(%s)" % (self.fn, v)
            defn = ""
        else:
            ptype = ("struct W_%s" % self.fn) if cellx.endswith(".c") else t.name
            decl = "%s %s;" % (ptype, self.cell)
            proto = "%s %s(%s *p, %s v);" % (t.name, self.fn, ptype, self.vt.name if self.vt else "int")
            call = lambda v: "%s(&%s, %s)" % (self.fn, self.cell, v)
        sdecl = ("struct W_%s { long pad; %s c; };\n" % (self.fn, t.name)) if cellx.endswith(".c") else ""
        key = self.key
        additive = any(k in key for k in ("/add", "/sub", "inc", "dec"))
        # effect of one call with v=1 on the cell, as a signed delta
        d1, _ = self.f(z3.BitVecVal(0, nb), z3.BitVecVal(1, self.vt.bits) if self.vt else None)
        delta = z3.simplify(d1).as_long()
        mask = (1 << nb) - 1
        driver = ("#include <stdio.h>\n#include <pthread.h>\n%s%s\n%s\n"
                  "static void *work(void *a) { for (long i = 0; i < 300000; i++) %s; return 0; }\n"
                  "int main(void) {\n  %s = 10; %s r = %s;\n"
                  "  if ((unsigned long)(r & 0x%xUL) != 0x%xUL || ((unsigned long)%s & 0x%xUL) != 0x%xUL) { printf(\"returned %%ld stored %%ld\\n\", (long)r, (long)%s); return 1; }\n"
                  % (sdecl, decl, proto, call("1"), cellx, t.name, call(str(v0)), mask, ret & mask, cellx, mask, newc & mask, cellx))
        if additive:
            driver += ("  %s = 0; pthread_t th[4]; for (int i = 0; i < 4; i++) pthread_create(&th[i], 0, work, 0);\n"
                       "  for (int i = 0; i < 4; i++) pthread_join(th[i], 0);\n"
                       "  unsigned long want = (4UL * 300000UL * 0x%xUL) & 0x%xUL;\n"
                       "  if (((unsigned long)%s & 0x%xUL) != want) { printf(\"lost updates: %%lu != %%lu\\n\", (unsigned long)%s & 0x%xUL, want); return 2; }\n"
                       % (cellx, delta & mask, mask, cellx, mask, cellx, mask))
        driver += "  return 0;\n}\n"
        return self.csrc, driver


class CasProbe(e2.Probe):
    """_Bool fn(_Atomic T *p, T *exp, T des) { return atomic_compare_exchange_strong(p, exp, des); }"""

    def __init__(self, key, fn, t, weak=False, callarg=False):
        self.key, self.fn, self.family, self.t = key, fn, "cas", t
        self.cell = "cell_%s" % fn
        self.exp = "exp_%s" % fn
        self.callarg = callarg
        if callarg:
            # the desired value is computed by a call with five integer arguments (every argument register incl. %r8 and
            # the caller-saved scratch registers are overwritten while it is evaluated); the callee is in the same file
            # and is executed by the executor (inline), so memory is not havocked
            self.csrc = ("#include <stdatomic.h>\nstatic %s dd_%s(%s d, long a, long b, long c, long e) { return d + a + e - 6; }\n"
                         "_Bool %s(_Atomic %s *p, %s *e, %s d) { return atomic_compare_exchange_%s(p, e, dd_%s(d, 1, 2, 3, 5)); }\n"
                         % (t.name, fn, t.name, fn, t.name, t.name, t.name, "weak" if weak else "strong", fn))
            self.inline = "*"
            self.max_visits = 8
        else:
            self.csrc = ("#include <stdatomic.h>\n_Bool %s(_Atomic %s *p, %s *e, %s d) { return atomic_compare_exchange_%s(p, e, d); }\n"
                         % (fn, t.name, t.name, t.name, "weak" if weak else "strong"))
        self.volatile = [self.cell]

    def init(self, M, s):
        s.regs["rdi"] = M.symaddr(self.cell)
        s.regs["rsi"] = M.symaddr(self.exp)

    def goals(self, M, finals):
        t = self.t
        n = t.size
        out = []
        dreg = z3.BitVec("in_rdx", 64)
        des = z3.Extract(t.bits - 1, 0, dreg) if t.bits < 64 else dreg
        e0 = [z3.Select(M.M0, asmx.simp(M.symaddr(self.exp) + bv(i))) for i in range(n)]
        exp0 = asmx.simp(z3.Concat(*reversed(e0))) if n > 1 else e0[0]
        for pi, s in enumerate(finals):
            if s.dead:
                continue
            H = list(s.pc)
            ats = [e for e in s.events if e.kind == "atomic"]
            plain = [e for e in s.events if e.kind == "vstore" and not e.atomic]
            if plain or len(ats) != 1 or not ats[0].locked or ats[0].size != t.bits:
                out.append(e2.Goal("oneatomicstep/p%d" % pi, H, z3.BoolVal(False), note="expected exactly one locked %d-bit compare-exchange and no plain store" % t.bits))
                continue
            a = ats[0]
            al = z3.Extract(7, 0, s.regs["rax"])
            expf = s.copy().load(M.symaddr(self.exp), n)
            out.append(e2.Goal("compares-expected/p%d" % pi, H, a.expected == exp0, note="compare-exchange does not compare against *expected"))
            out.append(e2.Goal("writes-desired/p%d" % pi, H, a.new == des, note="compare-exchange does not write the desired value"))
            out.append(e2.Goal("result/p%d" % pi, H, al == z3.If(a.observed == exp0, bv(1, 8), bv(0, 8)),
                               note="fails although the object equals expected, or succeeds although it differs"))
            out.append(e2.Goal("expected-updated/p%d" % pi, H, expf == z3.If(a.observed == exp0, exp0, a.observed),
                               note="on failure *expected must receive the observed value; on success it must be unchanged"))
            stray = sorted(o for o in s.regions.get("&" + self.exp, {}) if not (0 <= o < n))
            out.append(e2.Goal("expected-bounds/p%d" % pi, H, z3.BoolVal(not stray),
                               note="bytes %s outside the %d-byte expected-value object were written" % (stray[:8], n)))
            out.append(e2.Goal("frame/p%d" % pi, H, z3.And(s.regs["rsp"] == M.RSP0 + bv(8), s.regs["rbp"] == z3.BitVec("in_rbp", 64))))
        return out


class XchgProbe(RmwProbe):
    pass


def mk_probes(tier, only=None):
    P = []
    n = [0]

    def fn():
        n[0] += 1
        return "t%d" % n[0]

    def want(f):
        return only is None or f in only

    full = tier == "thorough"
    HDR = "#include <stdatomic.h>"
    for storage in ("static", "pointer"):
        for t in TYPES:
            vts = TYPES if full else [t, INT if t is not INT else LONG]
            if want("opassign"):
                for op in OPS:
                    for vt in vts:
                        def f(obs, v, op=op, t=t, vt=vt):
                            r, rt, d = binop(op, obs, t, v, vt)
                            return conv(r, rt, t), d
                        P.append(RmwProbe("opassign/%s/%s/%s/%s" % (storage, OPN[op], t.cid, vt.cid), fn(), t, vt, "CELL %s= v" % op, f, "new", storage))
            if want("incdec"):
                one = z3.BitVecVal(1, 32)
                for form, op, res in [("preinc", "+", "new"), ("predec", "-", "new"), ("postinc", "+", "old"), ("postdec", "-", "old")]:
                    def f(obs, v, op=op, t=t):
                        r, rt, d = binop(op, obs, t, z3.BitVecVal(1, 32), INT)
                        return conv(r, rt, t), d
                    src = {"preinc": "++CELL", "predec": "--CELL", "postinc": "CELL++", "postdec": "CELL--"}[form]
                    P.append(RmwProbe("incdec/%s/%s/%s" % (storage, form, t.cid), fn(), t, None, src, f, res, storage))
            if want("fetch"):
                for nm, op in [("add", "+"), ("sub", "-"), ("or", "|"), ("xor", "^"), ("and", "&")]:
                    def f(obs, v, op=op, t=t):
                        r, rt, d = binop(op, obs, t, v, t)
                        return conv(r, rt, t), TRUE       # atomic_fetch_* wrap silently (C11 7.17.7.5p3)
                    cellp = "&CELL"
                    P.append(RmwProbe("fetch/%s/%s/%s" % (storage, nm, t.cid), fn(), t, t, "atomic_fetch_%s(%s, v)" % (nm, cellp), f, "old", storage, pre=HDR))
                    if full:
                        P.append(RmwProbe("fetch/%s/%s_explicit/%s" % (storage, nm, t.cid), fn(), t, t, "atomic_fetch_%s_explicit(%s, v, memory_order_seq_cst)" % (nm, cellp), f, "old", storage, pre=HDR))
            if want("xchg"):
                P.append(RmwProbe("xchg/%s/%s" % (storage, t.cid), fn(), t, t, "atomic_exchange(&CELL, v)", lambda obs, v: (v, TRUE), "old", storage, pre=HDR))
    if want("ptr"):
        # _Atomic pointer objects: += -= ++ -- scale by the element size
        for esz, ename in [(1, "char"), (8, "long"), (24, "struct E24")]:
            PT = cref.T("%s *" % ename, 64, False, rank=4)
            pre = "struct E24 { long a, b, c; };" if esz == 24 else ""
            for storage in ("static", "pointer"):
                for opn, sign in (("add", 1), ("sub", -1)):
                    for vt in (INT, LONG, UCHAR):
                        def f(obs, v, esz=esz, sign=sign, vt=vt):
                            return obs + z3.BitVecVal(sign * esz, 64) * conv(v, vt, LONG), TRUE
                        P.append(RmwProbe("ptr/%s/%s/e%d/%s" % (storage, opn, esz, vt.cid), fn(), PT, vt, "CELL %s= v" % ("+" if sign > 0 else "-"), f, "new", storage, pre=pre))
                for form, sign, res in [("preinc", 1, "new"), ("predec", -1, "new"), ("postinc", 1, "old"), ("postdec", -1, "old")]:
                    def f(obs, v, esz=esz, sign=sign):
                        return obs + z3.BitVecVal(sign * esz, 64), TRUE
                    src = {"preinc": "++CELL", "predec": "--CELL", "postinc": "CELL++", "postdec": "CELL--"}[form]
                    P.append(RmwProbe("ptr/%s/%s/e%d" % (storage, form, esz), fn(), PT, None, src, f, res, storage, pre=pre))
                P.append(RmwProbe("ptr/%s/xchg/e%d" % (storage, esz), fn(), PT, PT, "atomic_exchange(&CELL, v)", lambda obs, v: (v, TRUE), "old", storage,
                                  pre=pre + "\n" + HDR))
        # the qualifier spelling `T *_Atomic p` (6.7.3): same object as _Atomic(T *)
        PT = cref.T("long *", 64, False, rank=4)
        for nm, src, sign, res in [("addassign", "CELL += v", 1, "new"), ("postdec", "CELL--", -1, "old")]:
            f_ = fn()
            p = RmwProbe("ptr/qualifier-spelling/%s" % nm, f_, PT, INT if nm == "addassign" else None, src,
                         (lambda sign, nm: lambda obs, v: (obs + z3.BitVecVal(sign * 8, 64) * (conv(v, INT, LONG) if nm == "addassign" else z3.BitVecVal(1, 64)), TRUE))(sign, nm), res, "static")
            p.csrc = p.csrc.replace("_Atomic(long *) cell_%s;" % f_, "long *_Atomic cell_%s;" % f_)
            assert "long *_Atomic" in p.csrc
            P.append(p)
    if want("cas"):
        for t in TYPES:
            P.append(CasProbe("cas/strong/%s" % t.cid, fn(), t))
            P.append(CasProbe("cas/weak/%s" % t.cid, fn(), t, weak=True))
            P.append(CasProbe("cas/desired-from-call/%s" % t.cid, fn(), t, callarg=True))
    if want("xchg"):
        # the old value returned by atomic_exchange on a narrow object, used at a wider type (register representation)
        for t in [CHAR, UCHAR, SHORT, USHORT, INT, UINT, BOOL]:
            for wide in (INT, LONG):
                if wide.bits <= t.bits:
                    continue
                P.append(RmwProbe("xchg/widened-result/%s/%s" % (t.cid, wide.cid), fn(), t, LONG, "atomic_exchange(&CELL, v)",
                                  (lambda t: lambda obs, v: (conv(v, LONG, t), TRUE))(t), "old", "static", pre=HDR, wide=wide))
    if want("fp"):
        # _Atomic float / double: op= and ++ are compare-exchange loops on the bit pattern
        import c02
        RNE = z3.RNE()
        for t in (cref.DOUBLE, cref.FLOAT):
            for op, fop, nm in (("+", z3.fpAdd, "add"), ("-", z3.fpSub, "sub"), ("*", z3.fpMul, "mul")):
                def f(obs, v, t=t, fop=fop):
                    r = fop(RNE, asmx.bv2fp(obs, t.sort), asmx.bv2fp(v, t.sort))
                    return asmx.fp2bv(r), z3.Not(z3.fpIsNaN(r))
                for storage in ("static", "pointer"):
                    p = RmwProbe("fp/opassign/%s/%s/%s" % (storage, nm, t.cid), fn(), t, t, "CELL %s= v" % op, f, "new", storage)
                    p.timeout_ms = 120000
                    P.append(p)
            def fx(obs, v, t=t):
                return v, TRUE
            P.append(RmwProbe("fp/exchange/%s" % t.cid, fn(), t, t, "atomic_exchange(&CELL, v)", fx, "old", "static", pre=HDR))
    if want("member"):
        # an _Atomic member of a struct
        for t in [INT, LONG, UCHAR]:
            f = fn()
            p = RmwProbe("member/addassign/%s" % t.cid, f, t, t, "CELL += v",
                         (lambda t: lambda obs, v: (lambda r: (conv(r[0], r[1], t), r[2]))(binop("+", obs, t, v, t)))(t), "new", "static")
            cell = p.cell
            p.csrc = "struct W_%s { long pad; _Atomic %s c; } %s;\n%s %s(%s v) { return %s.c += v; }\n" % (f, t.name, cell, t.name, f, t.name, cell)
            p.member_off = 8
            P.append(p)
            f = fn()
            p = RmwProbe("member/postinc/%s" % t.cid, f, t, None, "CELL++",
                         (lambda t: lambda obs, v: (lambda r: (conv(r[0], r[1], t), r[2]))(binop("+", obs, t, z3.BitVecVal(1, 32), INT)))(t), "old", "pointer")
            p.csrc = "struct W_%s { long pad; _Atomic %s c; };\n%s %s(struct W_%s *p, int v) { return p->c++; }\n" % (f, t.name, t.name, f, f)
            P.append(p)
    return P


def main(tier, only=None):
    chk = vf.Check("C16", tier)
    probes = mk_probes(tier, only)
    chk.bounds += ["widths 1,2,4,8 (8 integer types) x all ten op= operators x operand types (%s), ++/-- (4 forms), atomic_fetch_{add,sub,or,xor,and}, atomic_exchange, "
                   "atomic_compare_exchange_{strong,weak} (also with the desired value computed by a 5-argument call); objects in static storage and behind a pointer; _Atomic struct members; "
                   "_Atomic float/double with += -= *= and atomic_exchange; the old value returned by atomic_exchange on narrow objects used at a wider type" % ("all 8" if tier == "thorough" else "same type and int/long"),
                   "interference: ARBITRARY (every read of the shared cell is a fresh symbolic value), i.e. any number of other threads; "
                   "up to 2 failed compare-exchange rounds per operation are unrolled, longer paths are cut and checked to have written nothing",
                   "values: all"]
    chk.outside += ["x86-TSO store buffering (all writers of the cell in these sequences are locked instructions)", "memory-order strength of plain atomic_load/atomic_store",
                    "_Atomic objects in automatic storage (same code path: gen_addr differs only in the lea), _Atomic long double (rejected with a diagnostic) and aggregate types, NaN results of floating op=",
                    "progress/termination of the retry loop under unbounded interference"]
    chk.assumptions += ["other threads change the cell only through atomic steps; each step of the code under test is an x86 instruction; "
                        "a lock-prefixed cmpxchg / an xchg with a memory operand is one indivisible step"]
    chk.functions.update(["parse.c:to_assign (atomic branch)", "parse.c:new_inc_dec", "parse.c:primary (__builtin_compare_and_swap, __builtin_atomic_exchange)",
                          "codegen.c:ND_CAS", "codegen.c:ND_EXCH", "include/stdatomic.h"])
    e2.run_probes(chk, probes, chunk=12)
    for p in probes[:3]:
        chk.sample(dict(key=p.key, c=p.csrc.strip()[-300:]))
    return chk.finish()


replay = vf.generic_replay
