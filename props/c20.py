# C20 — evaluation leaves no residue on the machine stack or the x87 stack (E2: asm-smt)
import z3
import vf, e2, asmx, cref
from cref import INT, LONG, CHAR, DOUBLE, FLOAT, LDOUBLE, is_fp

TRUE = z3.BoolVal(True)

# "types" for statement probes: (id, C type name, declaration prelude, extern-call return class)
TYPES = [
    ("char", "char", "", "int"), ("int", "int", "", "int"), ("long", "long", "", "int"),
    ("float", "float", "", "sse"), ("double", "double", "", "sse"), ("ldouble", "long double", "", "x87"),
    ("ptr", "int *", "", "int"),
    ("s8", "struct S8", "struct S8 { int a, b; };", "int"),
    ("s16fp", "struct S16 ", "struct S16 { double a; long b; };", "int"),
    ("s24", "struct S24", "struct S24 { long a, b, c; };", "int"),
    ("sld", "struct SLD", "struct SLD { long double a; };", "x87"),     # psABI: X87,X87UP is returned in st(0)
]
SCALAR = {"char", "int", "long", "float", "double", "ldouble", "ptr"}
ARITH = {"char", "int", "long", "float", "double", "ldouble"}


def stmt_forms(tid):
    """(name, statement text) using x,y,z : T; c,i : int; p : T*; g : T g(T)."""
    F = [("var", "x;"), ("assign", "x = y;"), ("assign2", "x = y = z;"), ("comma", "x, y;"), ("cond", "c ? x : y;"),
         ("deref", "*p;"), ("derefassign", "*p = x;"), ("call", "g(x);"), ("callassign", "x = g(y);"),
         ("voidcast", "(void)x;"), ("block", "{ x; y; }"), ("stmtexpr", "({ x; y; });"),
         ("if", "if (c) x; else y;"), ("ifassign", "if (c) x = y; else y = z;"),
         ("switch", "switch (i) { case 1: x; break; case 2: x = y; default: y; }"),
         ("condassign", "c ? (x = y) : (y = z);"), ("init", "{ %s t = x; t; }"), ("arr", "{ %s t[3]; t[1] = x; t[i & 1]; }"),
         ("complit", "(%s){0};") if tid in ("s8", "s16fp", "s24", "sld") else ("complit", "(%s){x};")]
    if tid in ARITH:
        F += [("add", "x + y;"), ("mul", "x * y;"), ("sub3", "x - y - z;"), ("nested", "x + (y + (z + x));"), ("neg", "-x;"),
              ("lnot", "!x;"), ("land", "x && y;"), ("lor", "x || y;"), ("lt", "x < y;"), ("eq", "x == y;"),
              ("addassign", "x += y;"), ("divassign", "x /= y;"), ("postinc", "x++;"), ("preinc", "++x;"), ("postdec", "x--;"),
              ("casti", "(int)x;"), ("castld", "(long double)x;"), ("castd", "(double)x;"), ("fromint", "x = i;"),
              ("deep9", "x + (y + (z + (x + (y + (z + (x + (y + (z + x))))))));"), ("deepcall", "x + (y + (z + (x + (y + (z + (x + (y + g(z))))))));"),
              ("callexpr", "x + g(y);"), ("callnest", "g(g(x) + y);"), ("ternval", "x = c ? y : z;"),
              ("condcall", "c ? g(x) : y;"), ("commaassign", "x = (y, z);"), ("mixed", "x = y + i;")]
    if tid in ARITH:
        # every conversion away from / into this type, discarded
        for tgt in ("_Bool", "char", "unsigned char", "short", "unsigned short", "int", "unsigned int", "long", "unsigned long", "float"):
            F.append(("cast_" + tgt.replace(" ", "_"), "(%s)x;" % tgt))
            F.append(("castassign_" + tgt.replace(" ", "_"), "{ %s t_ = x; x = t_; }" % tgt))
        # calls whose arguments spill to the stack (alignment padding, 16-byte aligned arguments)
        F += [("call7", "g7(i, i, i, i, i, i, x);"), ("call8", "g8(i, i, i, i, i, i, i, x);"), ("call9", "g9(i, i, i, i, i, i, i, i, x);"),
              ("call8nest", "g8(i, i, i, i, i, i, i, g(x));"), ("call8expr", "x + g8(i, i, i, i, i, i, i, y);"),
              ("commamember", "(x, w).f;"), ("commamember2", "((y, x), w).f;")]
    if tid == "ptr":
        F += [("padd", "x + i;"), ("pdiff", "x - y;"), ("pinc", "x++;"), ("pcmp", "x < y;")]
    return F


class StmtProbe(e2.Probe):
    """void f(T x, T y, T z, int c, int i, T *p) { mark(); STMT; mark(); }  -> rsp and x87 depth equal at both marks."""

    def __init__(self, key, fn, tid, tname, pre, retclass, stmt, loop=None):
        self.key, self.fn, self.family = key, fn, key.split("/")[0]
        self.tid, self.tname, self.pre, self.stmt, self.loop = tid, tname, pre, stmt, loop
        self.extern_ret = {"g_" + fn: retclass if retclass != "sse" else "int", "mark_" + fn: "int", "cnd_" + fn: "int"}
        self.stop_after = {}
        body = stmt
        if loop == "for":
            self.stop_after = {"mark_" + fn: 2}
            body = "for (;;) { mark_%s(); %s }" % (fn, stmt)
            inner = body
        elif loop == "while":
            self.stop_after = {"mark_" + fn: 2}
            inner = "while (cnd_%s()) { mark_%s(); %s if (c) continue; if (i) break; }" % (fn, fn, stmt)
        elif loop == "do":
            self.stop_after = {"mark_" + fn: 2}
            inner = "do { mark_%s(); %s } while (cnd_%s());" % (fn, stmt, fn)
        elif loop == "forinc":
            self.stop_after = {"mark_" + fn: 2}
            inner = "for (;; %s) { mark_%s(); }" % (stmt.rstrip(";"), fn)
        else:
            inner = "mark_%s(); %s mark_%s();" % (fn, stmt, fn)
        self.max_visits = 6
        ints = lambda k: ", ".join(["int"] * k)
        extra = ("%s g7_%s(%s, %s); %s g8_%s(%s, %s); %s g9_%s(%s, %s); struct W_%s { int f; } w_%s;\n"
                 % (tname, fn, ints(6), tname, tname, fn, ints(7), tname, tname, fn, ints(8), tname, fn, fn))
        inner = inner.replace("g7(", "g7_%s(" % fn).replace("g8(", "g8_%s(" % fn).replace("g9(", "g9_%s(" % fn).replace(" w)", " w_%s)" % fn)
        for k in ("g7_", "g8_", "g9_"):
            self.extern_ret[k + fn] = retclass if retclass != "sse" else "int"
        self.csrc = ("%s\nvoid mark_%s(void); int cnd_%s(void); %s g_%s(%s);\n%s"
                     "void %s(%s x, %s y, %s z, int c, int i, %s *p) { %s }\n"
                     % (pre, fn, fn, tname, fn, tname, extra, fn, tname, tname, tname, tname, inner))

    def goals(self, M, finals):
        out = []
        for pi, s in enumerate(finals):
            if s.dead:
                continue
            marks = [e for e in s.events if e.kind == "call" and e.name == "mark_" + self.fn]
            if len(marks) < 2:
                if self.loop is not None and not s.stopped:
                    continue        # loop left before a second iteration: nothing to compare on this path
                out.append(e2.Goal("twomarks/p%d" % pi, s.pc, z3.BoolVal(False), note="%d marks on path" % len(marks)))
                continue
            a, b = marks[0], (marks[-1] if getattr(self, "escape", False) else marks[1])
            out.append(e2.Goal("rsp/p%d" % pi, s.pc, a.regs["rsp"] == b.regs["rsp"],
                               note="stack pointer differs between the two marks"))
            if len(a.st) != len(b.st) or len(a.st) != 0:
                out.append(e2.Goal("x87/p%d" % pi, s.pc, z3.BoolVal(False),
                                   note="x87 depth %d before, %d after the statement" % (len(a.st), len(b.st))))
            if not s.stopped:
                # function exit: frame restored, x87 empty
                out.append(e2.Goal("exit/p%d" % pi, s.pc, z3.And(s.regs["rsp"] == M.RSP0 + asmx.bv(8),
                                                                   s.regs["rbp"] == z3.BitVec("in_rbp", 64))))
                if len(s.st) != 0:
                    out.append(e2.Goal("x87exit/p%d" % pi, s.pc, z3.BoolVal(False), note="x87 depth %d at ret" % len(s.st)))
        return out

    def runtime_replay(self):
        if getattr(self, "escape", False):
            return self.escape_replay()
        return self.stmt_replay()

    def escape_replay(self):
        """repeat the escaping construct: a stack pointer that drifts exhausts the stack or breaks alignment"""
        t = self.tname
        body = self.csrc[self.csrc.index("{", self.csrc.index("void %s(" % self.fn)) + 1: self.csrc.rindex("}")]
        body = body.replace("mark_" + self.fn + "();", "").replace("g_" + self.fn, "g").replace("g8_" + self.fn, "g8")
        probe = ("%s\n%s g(%s v) { return v; } %s g8(int a, int b, int d, int e, int f, int h, int j, %s v) { return v; }\n"
                 "void once(%s x, %s y, %s z, int c, int i, %s *p) { for (long n_ = 0; n_ < 3000000; n_++) { %s } }\n"
                 % (self.pre, t, t, t, t, t, t, t, t, body.replace("out:", "out: ;").replace("out2:", "out2: ;")))
        driver = "%s\nvoid once(%s, %s, %s, int, int, %s *);\nint main(void) { static %s q; once(1, 2, 3, 1, 0, &q); return 0; }\n" % (self.pre, t, t, t, t, t)
        return probe, driver

    def stmt_replay(self):
        """probe (chibicc): the statement once / many times; driver (gcc): observes the x87 tag word
        around one execution, NaN-ness of the operands, and survives 3M repetitions (no rsp leak)."""
        t = self.tname
        agg = self.tid in ("s8", "s16fp", "s24", "sld")
        nan_chk = "(x != x) || (y != y) || (z != z)" if self.tid in ARITH else "0"
        stmt = self.stmt.replace("g_" + self.fn, "g")
        pure = self.tid in ARITH and not any(k in stmt for k in ("{", "if ", "switch", "(void)"))
        if pure:
            nan_chk += " || ({ long double r_ = (%s); r_ != r_; })" % stmt.rstrip().rstrip(";")
        stmt = stmt.replace("g7_" + self.fn, "g7").replace("g8_" + self.fn, "g8").replace("g9_" + self.fn, "g9").replace("w_" + self.fn, "w")
        probe = ("%s\n%s g(%s v) { return v; }\n"
                 "int run1(%s x, %s y, %s z, int c, int i, %s *p) { %s return %s; }\n"
                 "int runn(%s x, %s y, %s z, int c, int i, %s *p, long n) { for (long k = 0; k < n; k++) { %s } return 0; }\n"
                 % (self.pre, t, t, t, t, t, t, stmt, nan_chk, t, t, t, t, stmt))
        ints = lambda k: ", ".join("int a%d" % j for j in range(k))
        probe = ("struct W { int f; } w;\n%s g7(%s, %s v) { return v; } %s g8(%s, %s v) { return v; } %s g9(%s, %s v) { return v; }\n"
                 % (t, ints(6), t, t, ints(7), t, t, ints(8), t)) + probe if self.tid in ARITH else probe
        if self.tid in ARITH:
            probe = self.pre + "\n" + probe.replace(self.pre + "\n", "", 1) if self.pre else probe
        init = "{0}" if agg else "0"
        one = init if agg or self.tid == "ptr" else "1"
        driver = ("#include <stdio.h>\n#include <string.h>\n%s\n"
                  "int run1(%s, %s, %s, int, int, %s *); int runn(%s, %s, %s, int, int, %s *, long);\n"
                  "static unsigned tagword(void) { unsigned char env[28]; __asm__ volatile(\"fnstenv %%0; fldenv %%0\" : \"+m\"(env)); unsigned short tw; memcpy(&tw, env + 8, 2); return tw; }\n"
                  "int main(void) { static %s q; %s x = %s, y = %s, z = %s;%s\n"
                  "  for (int c = 0; c < 2; c++) for (int i = 0; i < 3; i++) {\n"
                  "    __asm__ volatile(\"fninit\"); unsigned t0 = tagword(); int nan = run1(x, y, z, c, i, &q); unsigned t1 = tagword();\n"
                  "    if (t0 != t1) { printf(\"x87 tag word %%04x -> %%04x (c=%%d i=%%d)\\n\", t0, t1, c, i); return 1; }\n"
                  "    if (nan) { printf(\"operand became NaN (c=%%d i=%%d)\\n\", c, i); return 2; } }\n"
                  "  __asm__ volatile(\"fninit\"); runn(x, y, z, 0, 2, &q, 3000000); runn(x, y, z, 1, 1, &q, 3000000); return 0; }\n"
                  % (self.pre, t, t, t, t, t, t, t, t, t, t, one, one, one,
                     " static int cell[4]; x = y = z = cell + 1;" if self.tid == "ptr" else ""))
        return probe, driver


def mk_probes(tier, only=None):
    P = []
    n = [0]

    def fn():
        n[0] += 1
        return "h%d" % n[0]

    def want(f):
        return only is None or f in only

    full = tier == "thorough"
    for tid, tname, pre, rc in TYPES:
        for name, st in stmt_forms(tid):
            st = st.replace("%s", tname)
            if want("stmt"):
                f = fn()
                P.append(StmtProbe("stmt/%s/%s" % (name, tid), f, tid, tname, pre, rc, st.replace("g(", "g_%s(" % f)))
            if want("loop"):
                loops = ["for", "while", "do"] if (full or name in ("assign", "assign2", "call", "add", "postinc", "cond", "comma", "nested", "callexpr")) else ["for"]
                for lp in loops:
                    f = fn()
                    P.append(StmtProbe("loop/%s/%s/%s" % (lp, name, tid), f, tid, tname, pre, rc, st.replace("g(", "g_%s(" % f), loop=lp))
                if st.count(";") == 1 and not st.startswith("{") and not st.startswith("if") and not st.startswith("switch"):
                    f = fn()
                    P.append(StmtProbe("loop/forinc/%s/%s" % (name, tid), f, tid, tname, pre, rc, st.replace("g(", "g_%s(" % f), loop="forinc"))
    # ---- control leaving an expression that has pending temporaries (break / goto out of a statement expression)
    if want("escape"):
        for name, body in [("break-from-stmtexpr", "for (;;) { mark_FN(); x = y + ({ if (c) break; z; }); break; } mark_FN();"),
                           ("continue-from-stmtexpr", "for (int k = 0; k < 2; k++) { mark_FN(); x = y + ({ if (c) continue; z; }); }"),
                           ("goto-from-stmtexpr", "mark_FN(); x = y + ({ if (c) goto out; z; }); out: mark_FN();"),
                           ("return-in-arg", "mark_FN(); g_FN(({ if (c) goto out2; y; })); out2: mark_FN();"),
                           ("break-from-call-arg", "for (;;) { mark_FN(); g8_FN(i, i, i, i, i, i, i, ({ if (c) break; z; })); break; } mark_FN();")]:
            for tid, tname, pre, rc in TYPES:
                if tid not in ("long", "ldouble", "double"):
                    continue
                f = fn()
                p = StmtProbe("escape/%s/%s" % (name, tid), f, tid, tname, pre, rc, "x;")
                ints = lambda k: ", ".join(["int"] * k)
                p.csrc = ("%s\nvoid mark_%s(void); %s g_%s(%s); %s g8_%s(%s, %s);\n"
                          "void %s(%s x, %s y, %s z, int c, int i, %s *p) { %s }\n"
                          % (pre, f, tname, f, tname, tname, f, ints(7), tname, f, tname, tname, tname, tname, body.replace("FN", f)))
                p.extern_ret["g8_" + f] = rc if rc != "sse" else "int"
                p.escape = True
                p.loop = None
                P.append(p)
    # ---- value-producing expressions leave exactly one usable value (checked by using it)
    if want("value"):
        for t in (INT, DOUBLE, LDOUBLE):
            asfp = e2.ScalarProbe.as_fp
            ident = (lambda t: (lambda v: asfp(v, t)) if is_fp(t) else (lambda v: v))(t)
            forms = [("assign", "return a = b;", lambda a, b, c, k=ident: (k(b), TRUE)),
                     ("assign2", "return a = b = c;", lambda a, b, c, k=ident: (k(c), TRUE)),
                     ("assign2use", "a = b = c; return a;", lambda a, b, c, k=ident: (k(c), TRUE)),
                     ("assign2mid", "a = b = c; return b;", lambda a, b, c, k=ident: (k(c), TRUE)),
                     ("comma", "return (a, b);", lambda a, b, c, k=ident: (k(b), TRUE)),
                     ("commadiscard", "a, b; return c;", lambda a, b, c, k=ident: (k(c), TRUE)),
                     ("stmtdiscard", "a; b; a; b; a; b; a; b; a; b; return c;", lambda a, b, c, k=ident: (k(c), TRUE)),
                     ("stmtexpr", "return ({ a; b; });", lambda a, b, c, k=ident: (k(b), TRUE)),
                     ("init", "%s t = a; return t;" % t.name, lambda a, b, c, k=ident: (k(a), TRUE)),
                     ("viaptr", "%s *p = &a; *p = b; return a;" % t.name, lambda a, b, c, k=ident: (k(b), TRUE))]
            for name, body, ref in forms:
                P.append(e2.ScalarProbe("value/%s/%s" % (name, t.cid), fn(), t, [t, t, t], body, ref))
            if is_fp(t):
                RNE = z3.RNE()
                def deep(a, b, c, t=t):
                    x, y, z = asfp(a, t), asfp(b, t), asfp(c, t)
                    seq = [x, y, z, x, y, z, x, y, z, x]
                    acc = seq[-1]
                    for v in reversed(seq[:-1]):
                        acc = z3.fpAdd(RNE, v, acc)
                    return acc, TRUE
                P.append(e2.ScalarProbe("value/deep9/%s" % t.cid, fn(), t, [t, t, t],
                                        "return a + (b + (c + (a + (b + (c + (a + (b + (c + a))))))));", deep))
    return P


def main(tier, only=None):
    chk = vf.Check("C20", tier)
    probes = mk_probes(tier, only)
    chk.bounds += ["statement/expression forms: %d forms x 11 result types (char,int,long,float,double,long double,pointer, 4 struct shapes)" % len(stmt_forms("ldouble")),
                   "loops: for/while/do bodies and for-increment: rsp and x87 depth compared between two consecutive loop-head marks (one iteration); "
                   "this is an inductive step because the emitted code has no rsp- or x87-depth-dependent control flow",
                   "operand values: all (symbolic)"]
    chk.outside += ["alloca/VLA growth (exempt by the property; covered under C04)", "asm statements",
                    "x87 stack depth of deeply right-nested long double expressions (> 8 pending values)"]
    chk.assumptions += ["external callees obey the psABI (rsp preserved, x87 stack empty on return except a long double result)"]
    chk.functions.update(["codegen.c:push/pop/pushf/popf", "codegen.c:gen_stmt", "codegen.c:gen_expr", "codegen.c:load/store",
                          "codegen.c:push_args/ND_FUNCALL"])
    e2.run_probes(chk, probes, chunk=16)
    for p in probes[:5]:
        chk.sample(dict(key=p.key, c=p.csrc.strip()[-300:]))
    return chk.finish()


replay = vf.generic_replay
