# C11 — literals: value, type, encoding (E1, cbmc over unicode.c / tokenize.c)
import vf, e1

def main(tier, only=None):
    chk = vf.Check("C11", tier)
    chk.bounds += ["utf8: every code point 0..0x10FFFF minus surrogates (symbolic, no sampling)"]
    hs = [
        e1.H("h_utf8_roundtrip", "utf8/roundtrip", unwind=6),
        e1.H("h_utf8_decode_wellformed", "utf8/decode-wellformed", unwind=6),
        e1.H("h_ident_classes", "ident/annexD", unwind=110),
    ]
    e1.run_set(chk, "c11/utf8.c", hs)
    return chk.finish()
replay = vf.generic_replay
