# C11 — literals: value, type, encoding (E1, cbmc over unicode.c / tokenize.c)
import os
import vf, e1

def main(tier, only=None):
    chk = vf.Check("C11", tier)
    fams = only or ["utf8", "ident", "int", "escape", "wide", "ucn"]
    if any(f in fams for f in ("utf8", "ident")):
        chk.bounds += ["utf8: every code point 0..0x10FFFF minus surrogates (symbolic, no sampling)"]
        hs = [
            e1.H("h_utf8_roundtrip", "utf8/roundtrip", unwind=6),
            e1.H("h_utf8_decode_wellformed", "utf8/decode-wellformed", unwind=6),
            e1.H("h_ident_classes", "ident/annexD", unwind=110),
        ]
        hs = [h for h in hs if h.key.split("/")[0] in fams]
        e1.run_set(chk, "c11/utf8.c", hs)
    hs = []
    ND = ("__NO_CTYPE",)
    EA = "error_at:stub_error_at"   # diagnostic path: end the path instead of formatting the message
    uni = [os.path.join(vf.REPO, "unicode.c")]
    if "int" in fams:
        chk.bounds += ["int: convert_pp_int for every 64-bit value x {decimal, 0x, 0X, octal, 0b, 0B} x all 23 "
                       "well-formed suffix spellings (symbolic), except decimal constants without u that exceed "
                       "LONG_MAX (no type in C11 6.4.4.1p6); 10 ill-formed suffixes must be rejected"]
        chk.assumptions += ["strtoul -> contract stub (returns the symbolic value, end pointer just past the digit "
                            "sequence; base and start position are asserted); the digit text under cbmc is a "
                            "placeholder, native replay writes the real digits and runs the real strtoul",
                            "error_at -> ends the path (its message formatting, verror_at/display_width, is not the subject)",
                            "lits.c is compiled with -D__NO_CTYPE so that cbmc's exact ctype models are used (glibc's "
                            "macros go through __ctype_b_loc(), which has no body in cbmc)"]
        hs += [e1.H("h_int_ladder", "int/type-ladder", unwind=8, unwindset=("build_number.0:4", "build_number.3:4"),
                    defines=ND, replace_calls=("strtoul:stub_strtoul", EA), timeout=600),
               e1.H("h_int_badsuffix", "int/bad-suffix-rejected", unwind=8, defines=ND,
                    replace_calls=("strtoul:stub_strtoul", EA), timeout=600)]
    if "escape" in fams:
        chk.bounds += ["escape: read_escaped_char on every 5-byte sequence after the backslash (simple escapes, octal "
                       "1..3 digits, hex 1..4 digits)"]
        hs += [e1.H("h_escape", "escape/value-and-length", unwind=8, defines=ND, replace_calls=(EA,), timeout=600)]
    if "wide" in fams:
        chk.bounds += ['wide: u"c", U"c", L\'c\' for every scalar value c except NUL, newline, backslash and the '
                       "closing quote (which need an escape)"]
        hs += [e1.H("h_utf16", "wide/utf16-surrogates", unwind=8, defines=ND, replace_calls=(EA,), timeout=600),
               e1.H("h_utf32", "wide/utf32", unwind=8, defines=ND, replace_calls=(EA,), timeout=600),
               e1.H("h_wchar", "wide/wchar-constant", unwind=8, defines=ND, replace_calls=(EA,), timeout=600)]
    if hs:
        e1.run_set(chk, "c11/lits.c", hs, extra_src=uni, workers=int(os.environ.get("VERIF_WORKERS", "8")))
    if "ucn" in fams:
        n = 11 if tier == "thorough" else 8
        chk.bounds += ["ucn: convert_universal_chars on every buffer of <= %d symbols over { \\ u U 0 4 e A x } plus the final newline "
                       "(covers \\uXXXX, \\\\uXXXX, adjacent and truncated names%s)" % (n, "; \\UXXXXXXXX needs 10 symbols: thorough tier" if n < 10 else ", \\UXXXXXXXX")]
        e1.run_set(chk, "c11/ucn.c", [e1.H("h_ucn", "ucn/convert", unwind=n + 4, defines=ND + ("UCN_N=%d" % n,), timeout=1500)], extra_src=uni)
    chk.outside += ["floating constants (strtold text -> value), digit text -> value (strtoul)",
                    "hex escapes longer than 4 digits / octal escapes > 255 (out of range for the element type: "
                    "constraint violations), universal character names beyond the ucn/* alphabet and length bound",
                    "u'c' (masked to 16 bits in tokenize()), u8 prefix, literals with more than one character, "
                    "concatenation of adjacent literals (preprocess.c join_adjacent_string_literals), "
                    "string_initializer in parse.c",
                    "BOM / CRLF / splice handling: see C18 splice/*"]
    if os.environ.get("VERIF_VERBOSE"):
        for o in chk.obl:
            print("  %-28s %-12s %6.1fs  %s" % (o["key"], o["status"], o["secs"], o["detail"][:170]))
    return chk.finish()
replay = vf.generic_replay
