# C14 — driver process discipline (E1: cbmc over the real main.c with a recording environment)
import os
import vf, e1

# (shape number, name, number of children in the reference pipeline, number of temporaries)
# must mirror the table `shapes[]` in harness/c14/driver.c
SHAPES = [
    (0, "E_1", 1, 0), (1, "E_o_1", 1, 0), (2, "E_2", 2, 0),
    (3, "S_1", 1, 0), (4, "S_o_1", 1, 0), (5, "S_2", 2, 0),
    (6, "c_1", 2, 1), (7, "c_o_1", 2, 1), (8, "c_2", 4, 2),
    (9, "link_1", 3, 2), (10, "link_o_1", 3, 2), (11, "link_2", 5, 4), (12, "link_o_2", 5, 4),
    (13, "link_o_c+o", 3, 2), (14, "c_asm", 1, 0),
    (15, "c_o_2_rejected", 0, 0), (16, "S_o_2_rejected", 0, 0), (17, "c_asm+c", 3, 1),
    (18, "link_c+asm", 4, 3), (19, "E_asm", 1, 0), (20, "S_asm", 0, 0),
]
QUICK = {1, 2, 4, 5, 7, 8, 10, 12, 13, 14, 15, 17, 18, 19}


def main(tier, only=None):
    chk = vf.Check("C14", tier)
    want = lambda fam: (not only) or fam in only
    chk.bounds += [
        "driver: command shapes -E/-S/-c/link x with/without -o x 1..2 inputs (+ .s and .o inputs, -o with 2 inputs "
        "rejected): %d shapes%s; per shape every single point of failure: k-th child with ANY wait status "
        "(exit code 1..255 or killed by signal 1..126, core bit arbitrary) or k-th mkstemp failing"
        % (len(SHAPES) if tier != "quick" else len(QUICK), "" if tier != "quick" else " (quick subset)"),
        "cc1: -cc1 mode for `-c`, `-S -o`, `-E -o`, `-E`; failing phase symbolic over {unreadable input, tokenize, "
        "preprocess, parse, codegen}; fopen of the output may fail; a write error on the output stream (ferror/fflush/fclose) may happen",
    ]
    chk.assumptions += [
        "fork/execvp/wait modelled sequentially: the child's execvp argv is recorded, then control continues as the "
        "parent whose wait() delivers the symbolic status once and then -1/ECHILD; fork failure is not modelled",
        "mkstemp: returns a fresh name (uniqueness contract) or fails; close/unlink succeed; stat says every probed "
        "crt file exists; glob returns one gcc directory; dirname/basename/format(%s only) are harness implementations",
        "statuses of children after the failing one are fixed to 0 (they must not be consumed; if they are, the "
        "'no child after a failed child' assertion fails independently of their value)",
        "cc1 harness: tokenize_file/preprocess/parse/codegen are may-fail stubs (exit(1) or NULL), -M/-MD not used",
    ]
    chk.outside += [
        "3 or more inputs; -M/-MD dependency files; -x, -Wl, -l inputs",
        "concurrent invocations: reduced to non-interference (driver unlinks/creates only names from mkstemp or "
        "given on the command line — asserted); same-output races are outside",
        "death of the driver itself by a signal (atexit handlers do not run)",
        "fork() failure (now reported by the driver) is not modelled",
    ]
    if want("driver"):
        hs = []
        for n, name, nch, ntmp in SHAPES:
            if tier == "quick" and n not in QUICK:
                continue
            hs.append(e1.H("h_s%d_ok" % n, "driver/%s/ok" % name, unwind=101, timeout=300,
                           desc="all children succeed: exit 0, exact pipeline and outputs, temporaries unlinked"))
            for k in range(nch):
                hs.append(e1.H("h_s%d_f%d" % (n, k), "driver/%s/child%d-fails" % (name, k), unwind=101, timeout=300,
                               desc="child %d has any non-zero/signalled status" % k))
            for k in range(ntmp):
                hs.append(e1.H("h_s%d_m%d" % (n, k), "driver/%s/mkstemp%d-fails" % (name, k), unwind=101,
                               timeout=300))
        e1.run_set(chk, "c14/driver.c", hs, workers=8, extra_src=[os.path.join(vf.REPO, "strings.c")])
    if want("cc1"):
        hs = []
        for fn in ("h_cc1_compile", "h_cc1_S_o", "h_cc1_E_o", "h_cc1_E_stdout"):
            nm = fn[len("h_cc1_"):]
            hs.append(e1.H(fn, "cc1/%s" % nm, unwind=40, timeout=300,
                           desc="output opened only after the last may-fail phase returned"))
            hs.append(e1.H(fn, "cc1/%s/failpath" % nm, unwind=40, timeout=300, defines=("WIT_FAIL",),
                           desc="witness placed on the failing exit path"))
        e1.run_set(chk, "c14/cc1.c", hs, workers=8, extra_src=[os.path.join(vf.REPO, "strings.c")])
    if want("read"):
        n = 4
        chk.bounds += ["read: the real tokenize_file()/read_file() on every file of <= %d bytes whose k-th fread() (k <= %d, symbolic; the other reads deliver chunks of "
                       "symbolic length) fails with the error indicator set: the result is NULL" % (n, n)]
        chk.assumptions += ["read: memory-backed stdio model of harness/c18/readfile.c (fopen succeeds - a directory opens for reading - fread/ferror as POSIX documents)"]
        e1.run_set(chk, "c18/readfile.c", [e1.H("h_readfile_error", "read/error-reported", unwind=n + 5, defines=("__NO_CTYPE", "RF_N=%d" % n),
                                                 replace_calls=("tokenize:stub_tokenize",), timeout=900, native=False)])
    return chk.finish()


replay = vf.generic_replay
