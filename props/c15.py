# C15 — linkage and symbol emission kernels (E1: cbmc over the real parse.c / codegen.c)
import vf, e1

GB = 128


def main(tier, only=None):
    chk = vf.Check("C15", tier)
    want = lambda fam: (not only) or fam in only
    thorough = tier != "quick"
    chk.bounds += [
        "mark_live: every call graph on 3 functions (%s), every combination of is_root flags, missing reference slots "
        "naming a variable or an undeclared identifier: %d graphs" %
        ("all 9 edges incl. self loops" if thorough else "quick: the 6 edges between distinct functions, no self loops",
         8192 if thorough else 1024),
        "scan_globals: every list of <= 4 file-scope objects over 2 names, each `extern T x;` / `T x;` / `T x = v;`, at "
        "most one initialised definition per name (symbolic)",
        "emit_data: one symbolic Obj (static?, tentative?, tls?, initialised?, scalar or array, size 1..32 / <=4 when "
        "initialised, align in {1,2,4,8,16,32}) x opt_fcommon; emit_text: one symbolic function Obj "
        "(definition?, live?, static?)",
    ]
    chk.assumptions += [
        "mark_live: IN.graph is symbolic, but each cbmc run explores its batch of 128 graphs case by case with concrete "
        "data inside each case (a symbolic graph makes cbmc explore the whole recursion tree: no verdict in 200 s for 3 "
        "nodes); the fixed file scope is given by a specification-level hashmap_get (C17 covers the hash table); the "
        "three-line root loop of parse() is replicated in the harness",
        "scan_globals/mark_live: names are 2-byte pooled strings, strcmp replaced by an equivalent 3-byte comparison",
        "emit_*: vfprintf is replaced by a recorder of (format, arguments); gen_stmt/gen_expr are cut (no body emitted), "
        "the function has no parameters",
    ]
    chk.outside += [
        "call graphs on more than 3 functions; references recorded by primary()/function() (token level)",
        "behaviour of linked multi-unit programs under PIC/static (needs ld); gen_addr forms; string literals and "
        "static locals as anonymous globals; relocations in initialised data",
    ]
    if want("mark_live"):
        us = ("mark_live:5", "run_gbatch.0:%d" % (GB + 1), "run_gbatch.1:%d" % (GB + 1), "run_gbatch.2:%d" % (GB + 1),
              "expand_quick.0:4", "expand_quick.1:4")
        names = ["q%d" % b for b in range(8)] if not thorough else ["%d" % b for b in range(64)]
        hs = [e1.H("h_mark_live_" + n, "mark_live/batch-" + n, unwind=9, unwindset=us, timeout=900,
                   witness=(i % 8 == 0), desc="graphs %d..%d" % (i * GB, i * GB + GB - 1))
              for i, n in enumerate(names)]
        e1.run_set(chk, "c15/link.c", hs, workers=8)
    if want("scan_globals"):
        e1.run_set(chk, "c15/link.c", [e1.H("h_scan_globals", "scan_globals/tentative", unwind=9, timeout=300)], workers=2)
    if want("emit"):
        hs = [e1.H("h_emit_data", "emit/data", unwind=42, timeout=300),
              e1.H("h_emit_text", "emit/text", unwind=42, timeout=300, defines=("HK_text",),
                   replace_calls=("gen_stmt:stub_gen_stmt",))]
        e1.run_set(chk, "c15/emit.c", hs, workers=4)
    return chk.finish()


replay = vf.generic_replay
