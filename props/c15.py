# C15 — linkage and symbol emission kernels (E1: cbmc over the real parse.c / codegen.c)
import vf, e1

GB = 128


def main(tier, only=None):
    chk = vf.Check("C15", tier)
    want = lambda fam: (not only) or fam in only
    thorough = tier != "quick"
    chk.bounds += [
        "mark_live: every call graph on 3 functions (%s), every combination of is_root flags, missing reference slots "
        "naming a variable or an undeclared identifier: %d graphs" %
        ("all 9 edges incl. self loops" if thorough else "quick: the 6 edges between distinct functions, no self loops",
         8192 if thorough else 1024),
        "scan_globals: every list of <= 4 file-scope objects over 2 names, each `extern T x;` / `T x;` / `T x = v;`, at "
        "most one initialised definition per name (symbolic)",
        "emit_data: one symbolic Obj (static?, tentative?, tls?, initialised?, scalar or array, size 1..32 / <=4 when "
        "initialised, align in {1,2,4,8,16,32}) x opt_fcommon; emit_text: one symbolic function Obj "
        "(definition?, live?, static?)",
    ]
    chk.assumptions += [
        "mark_live: IN.graph is symbolic, but each cbmc run explores its batch of 128 graphs case by case with concrete "
        "data inside each case (a symbolic graph makes cbmc explore the whole recursion tree: no verdict in 200 s for 3 "
        "nodes); the fixed file scope is given by a specification-level hashmap_get (C17 covers the hash table); the "
        "three-line root loop of parse() is replicated in the harness",
        "scan_globals/mark_live: names are 2-byte pooled strings, strcmp replaced by an equivalent 3-byte comparison",
        "emit_*: vfprintf is replaced by a recorder of (format, arguments); gen_stmt/gen_expr are cut (no body emitted), "
        "the function has no parameters",
    ]
    chk.outside += [
        "call graphs on more than 3 functions; references recorded by primary()/function() (token level)",
        "behaviour of linked multi-unit programs under PIC/static (needs ld); string literals and "
        "static locals as anonymous globals; relocations in initialised data",
    ]
    if want("mark_live"):
        us = ("mark_live:5", "run_gbatch.0:%d" % (GB + 1), "run_gbatch.1:%d" % (GB + 1), "run_gbatch.2:%d" % (GB + 1),
              "expand_quick.0:4", "expand_quick.1:4")
        names = ["q%d" % b for b in range(8)] if not thorough else ["%d" % b for b in range(64)]
        hs = [e1.H("h_mark_live_" + n, "mark_live/batch-" + n, unwind=9, unwindset=us, timeout=900,
                   witness=(i % 8 == 0), desc="graphs %d..%d" % (i * GB, i * GB + GB - 1))
              for i, n in enumerate(names)]
        import os
        e1.run_set(chk, "c15/link.c", hs, workers=8, extra_src=[os.path.join(vf.REPO, "type.c")])
    if want("scan_globals"):
        import os
        e1.run_set(chk, "c15/link.c", [e1.H("h_scan_globals", "scan_globals/tentative", unwind=9, timeout=300)], workers=2,
                   extra_src=[os.path.join(vf.REPO, "type.c")])
    if want("emit"):
        hs = [e1.H("h_gen_addr", "emit/address-formation", unwind=42, timeout=300),
              e1.H("h_emit_data", "emit/data", unwind=42, timeout=300),
              e1.H("h_emit_text", "emit/text", unwind=42, timeout=300, defines=("HK_text",),
                   replace_calls=("gen_stmt:stub_gen_stmt",))]
        e1.run_set(chk, "c15/emit.c", hs, workers=4)
    if want("unit"):
        unit_family(chk, thorough)
        tls_family(chk)
    return chk.finish()


def tls_family(chk):
    """Storage duration of _Thread_local objects as an observable of the emitted code (E2): the address a function computes
    for a thread-local object must FOLLOW the thread pointer (%fs:0) - executed with two different thread pointers the
    two addresses differ - and the address of an object with static storage duration must not depend on it. The native
    confirmation runs the function in two threads."""
    import z3
    import e2, asmx

    class TlsAddr(e2.Probe):
        def __init__(self, key, fn, pre, body, tls):
            self.key, self.fn, self.family, self.tls = "tls/" + key, fn, "tls", tls
            self.csrc = "%s\nlong %s(void) { %s }\n" % (pre.replace("@", fn), fn, body.replace("@", fn))

        def goals(self, M, finals):
            TP = M.TP
            tp2 = z3.BitVec("thread_pointer_of_another_thread", 64)
            out = []
            for pi, s in enumerate(finals):
                if s.dead:
                    continue
                rax = s.regs["rax"]
                rax2 = z3.substitute(rax, (TP, tp2))
                claim = z3.Implies(TP != tp2, rax != rax2) if self.tls else rax == rax2
                out.append(e2.Goal("address/p%d" % pi, list(s.pc), claim, {},
                                   note="thread-local object: one instance per thread" if self.tls else "static storage duration: one instance"))
            return out

        def runtime_replay(self):
            driver = ("#include <pthread.h>\nlong %s(void);\nstatic void *th(void *p) { *(long *)p = %s(); return 0; }\n"
                      "int main(void) { long a = %s(), b = 0; pthread_t t; pthread_create(&t, 0, th, &b); pthread_join(t, 0);\n"
                      "  return (a != b) == %d ? 0 : 1; }\n" % (self.fn, self.fn, self.fn, 1 if self.tls else 0))
            return self.csrc, driver

    cases = [
        ("file-scope", "_Thread_local int t_@ = 3;\n", "return (long)&t_@;", True),
        ("file-scope-tentative", "_Thread_local int u_@;\n", "return (long)&u_@;", True),
        ("file-scope-static", "static _Thread_local long v_@ = 4;\n", "return (long)&v_@;", True),
        ("block-scope-static", "", "static _Thread_local int n = 5; return (long)&n;", True),
        ("block-scope-static-uninitialised", "", "static _Thread_local long n; return (long)&n;", True),
        ("block-scope-extern", "_Thread_local int w_@ = 1;\n", "extern _Thread_local int w_@; return (long)&w_@;", True),
        ("control/static-local-not-thread-local", "", "static int n = 5; return (long)&n;", False),
        ("control/file-scope-not-thread-local", "int x_@ = 2;\n", "return (long)&x_@;", False),
    ]
    P = [TlsAddr(key, "tl%d" % k, pre, body, tls) for k, (key, pre, body, tls) in enumerate(cases)]
    e2.run_probes(chk, P, chunk=4)
    chk.bounds.append("tls/*: %d declarations of thread-local (file scope, tentative, static, block-scope static/extern) and ordinary objects: the address computed by the "
                      "emitted code follows the thread pointer iff the object is _Thread_local (non-PIC local-exec code)" % len(P))
    chk.functions.update(["parse.c:declaration/global_variable (is_tls propagation, via emitted code)", "codegen.c:gen_addr TLS forms (via emitted code)"])


def unit_family(chk, thorough):
    """Whole-pipeline view (E2): single translation units whose declarations exercise the linkage rules; `long m(void)`
    combines every object/function into one value. The emitted unit is assembled with the real `as` and executed
    symbolically at program start (static data = the emitted image, .comm = zero bytes, every same-unit call inlined,
    indirect calls through emitted address constants resolved): the value must be the C11 value, which needs every
    referenced static (inline) function to be emitted, every tentative definition to be defined exactly once with its
    complete type, and extern-with-initializer to define. A function that is not emitted shows up as an external
    call (symbolic result)."""
    import z3, re
    import e2, asmx
    from cref import LONG
    TRUE = z3.BoolVal(True)
    fns = "static inline int h(void) { return 7; }\nstatic inline int g(void) { return 10 + h(); }\nstatic inline int f(void) { return 100 + g(); }\nstatic inline int dead(void) { return 99 + h(); }\n"
    cases = [
        # (key, file-scope text, body of m, expected value)
        ("inline/direct-chain", fns, "return f();", 117),
        ("inline/file-scope-pointer-after-definitions", fns + "int (*p)(void) = f;\n", "return p();", 117),
        ("inline/file-scope-pointer-before-definition", "static inline int f(void);\nint (*p)(void) = f;\nstatic inline int f(void) { return 31; }\n", "return p();", 31),
        ("inline/file-scope-table", fns + "static int (*tab[2])(void) = { g, h };\n", "return tab[0]() * 100 + tab[1]();", 1707),
        ("inline/static-local-pointer", fns, "static int (*q)(void) = g; return q();", 17),
        ("inline/address-taken-local", fns, "int (*loc)(void) = f; return loc();", 117),
        ("inline/address-of-operator", fns, "int (*loc)(void) = &g; return (*loc)();", 17),
        ("inline/passed-as-argument", fns + "static int apply(int (*fn)(void)) { return fn() + 1; }\n", "return apply(h);", 8),
        ("inline/conditional-operand", fns, "int (*loc)(void) = 1 ? g : h; return loc();", 17),
        ("inline/struct-member-initializer", fns + "struct Ops { int k; int (*op)(void); };\nstatic struct Ops ops = { 2, f };\n", "return ops.k * 1000 + ops.op();", 2117),
        ("inline/redeclared-after-use", "static inline int f(void) { return 5; }\nint (*p)(void) = f;\nstatic inline int f(void);\n", "return p();", 5),
        ("tentative/twice", "int a; int a;\n", "return a + 40;", 40),
        ("tentative/then-initialised-then-tentative", "int b; int b = 7; int b;\n", "return b;", 7),
        ("tentative/static-twice", "static int s; static int s;\n", "return s + 3;", 3),
        ("tentative/static-then-initialised", "static int s; static int s = 4;\n", "return s;", 4),
        ("tentative/extern-then-tentative", "extern int c; int c;\n", "return c + 9;", 9),
        ("tentative/incomplete-then-complete", "int e[]; int e[3] = {1, 2, 3};\n", "return e[2] * 100 + sizeof(e);", 312),
        ("tentative/incomplete-then-complete-tentative", "int e[]; int e[3];\n", "return e[2] + sizeof(e);", 12),
        ("tentative/complete-then-incomplete", "int a4[4]; int a4[];\n", "return a4[3] + sizeof(a4);", 16),
        ("tentative/incomplete-alone", "int lone[];\n", "lone[0] = 6; return lone[0] + 1;", 7),
        ("tentative/complete-then-extern-incomplete", "int a4[4]; extern int a4[];\n", "return a4[3] + sizeof(a4);", 16),
        ("extern/with-initializer", "extern int x = 5;\n", "return x;", 5),
        ("extern/declared-then-defined", "extern long y; long y = 1L << 40;\n", "return y >> 38;", 4),
        ("static-local/counter-image", "", "static int n = 41; return n + 1;", 42),
        ("static-local/array-and-string", "", "static char t[] = \"xyz\"; static const char *u = \"pq\"; return t[1] * 1000 + u[1];", 121 * 1000 + 113),
    ]
    P = []
    for k, (key, pre, body, want) in enumerate(cases):
        fn = "lk%d" % k
        p = e2.ScalarProbe("unit/" + key, fn, LONG, [], body, (lambda w: lambda: (z3.BitVecVal(w, 64), TRUE))(want), family="unit", pre=pre, max_visits=16)
        # several probes share one file: rename the file-scope identifiers per probe
        names = sorted(set(re.findall(r"\b(?:int|long|char|struct Ops|void)\s+\(?\*?([A-Za-z_]\w*)", pre)) | {"Ops", "f", "g", "h", "dead", "apply"}, key=len, reverse=True)
        for nm in names:
            if nm in ("void", "fn", "k", "op"):
                continue
            p.csrc = re.sub(r"\b%s\b" % re.escape(nm), "%s_%s" % (nm, fn), p.csrc)
        p.inline = "*"
        p.comm_zero = True
        P.append(p)
    e2.run_probes(chk, P, chunk=3)
    chk.bounds.append("unit/*: %d single translation units (static inline call chains reached by call / file-scope pointer / table / static local / address-taken / argument / "
                      "struct initializer, repeated and mixed tentative/extern/static/initialised declarations incl. incomplete array types, extern with initializer, static locals), "
                      "executed symbolically at program start with every same-unit call inlined" % len(P))
    chk.assumptions.append("unit/*: single-unit program start: initialised data = the emitted image, common symbols = zero bytes")
    chk.functions.update(["parse.c:function/global_variable/primary (reference recording)/scan_globals/mark_live (via emitted code)", "codegen.c:emit_data/emit_text (via emitted code)"])


replay = vf.generic_replay
