# C08 (E2 part): layouts through the whole compiler (declspec, declarators, struct_members, attribute_list,
# struct_decl/union_decl, sizeof/_Alignof/offsetof lowering). For generated struct/union declarations the
# constants the emitted code returns for sizeof, _Alignof, every member offset, and the byte image obtained by
# setting one bit-field to all ones, must equal the System V psABI layout. The psABI oracle is the reference
# algorithm of harness/c08/ref_layout.h as validated against gcc; here gcc's own values for the very same
# program are used as the expected values (oracle validation and expectation in one step).
import os, random, z3
import vf, e2, asmx
import c08_oracle

EXTRA_DECLS = [
    # declarators / specifier orders / nesting that the flat member palette does not reach
    ("struct X0 { char a; struct { int x; char y; } in; short b; };", ["a", "in", "in.y", "b"]),
    ("struct X1 { char a; union { long l; char c[3]; }; int z; };", ["a", "l", "c", "z"]),
    ("struct X2 { char a; struct { short s; struct { char c; long l; }; }; char e; };", ["a", "s", "c", "l", "e"]),
    ("struct X3 { int n; char flex[]; };", ["n", "flex"]),
    ("struct X4 { char c; int (*fp)(int, long); char d; int *ap[3]; int (*pa)[3]; };", ["c", "fp", "d", "ap", "pa"]),
    ("struct X5 { long unsigned int a; short unsigned b; char signed c; long long int d; int long unsigned long e; };", ["a", "b", "c", "d", "e"]),
    ("struct X6 { char a; long double ld; char b; double _Alignas(32) al; char c; };", ["a", "ld", "b", "al", "c"]),
    ("struct X7 { char a; int m[2][3]; char b; struct { char q; } arr[3]; };", ["a", "m", "b", "arr"]),
    ("typedef struct { short s; char c; } T8; struct X8 { char a; T8 t; T8 u[2]; char z; };", ["a", "t", "u", "z"]),
    ("struct __attribute__((packed)) X9 { char a; long l; short s; int i; };", ["a", "l", "s", "i"]),
    ("struct X10 { char a; long l; } __attribute__((packed));", ["a", "l"]),
    ("struct X11 { char a; struct __attribute__((packed)) { char p; int q; } in; char z; };", ["a", "in", "z"]),
    ("struct __attribute__((aligned(32))) X12 { char a; };", ["a"]),
    ("struct X13 { char a; struct __attribute__((aligned(16))) { char p; } in; char z; };", ["a", "in", "z"]),
    ("union X14 { char a; struct { char p; long q; } s; short h[5]; };", ["a", "s", "h"]),
    ("struct X15 { _Bool b; enum { K1, K2 } e; char c; float f; double d; void *p; };", ["b", "e", "c", "f", "d", "p"]),
    ("struct X16 { char a; _Alignas(16) _Alignas(4) char b; _Alignas(2) _Alignas(8) char c; _Alignas(int) _Alignas(1) char d; };", ["a", "b", "c", "d"]),
    ("union X17 { char a; _Alignas(8) _Alignas(2) short s; };", ["a", "s"]),
]


class LayoutProbe(e2.Probe):
    def __init__(self, key, fn, decl, tag, offs, bfs, size_hint=64):
        self.key, self.fn, self.family = key, fn, "layout"
        src = "enum E { E0, E1 };\n" + c08_oracle.PRELUDE + decl + "\n"
        src += "long sz_%s(void) { return sizeof(%s); }\nlong al_%s(void) { return _Alignof(%s); }\n" % (fn, tag, fn, tag)
        self.funcs = ["sz_" + fn, "al_" + fn]
        for i, m in enumerate(offs):
            src += "long of%d_%s(void) { return (long)&((%s *)0)->%s; }\n" % (i, fn, tag, m)
            self.funcs.append("of%d_%s" % (i, fn))
        for i, m in enumerate(bfs):
            for w in range(size_hint // 8):
                src += ("unsigned long bf%d_%d_%s(void) { union { unsigned long w[%d]; %s v; } u = {0}; "
                        "u.v.%s = -1; return u.w[%d]; }\n" % (i, w, fn, size_hint // 8 + 1, tag, m, w))
                self.funcs.append("bf%d_%d_%s" % (i, w, fn))
        self.csrc = src
        self.decl = decl


def _one(idx):
    import time
    p = e2._PROBES[idx]
    t1 = time.time()
    res = dict(key=p.key, family="layout", status="proved", detail="", secs=0.0, replay=None, nq=0)
    try:
        d = vf.subdir("c08")
        base = os.path.join(d, "g%d_%s" % (os.getpid(), p.fn))
        main = "#include <stdio.h>\nint main(void) {\n" + "".join('  printf("%%ld\\n", (long)%s());\n' % f for f in p.funcs) + "  return 0; }\n"
        with open(base + ".c", "w") as fh:
            fh.write(p.csrc + main)
        rc, o, e, _ = vf.run(["gcc", "-w", "-O0", "-o", base + ".exe", base + ".c"], timeout=60)
        if rc != 0:
            res["status"], res["detail"] = "skipped", "gcc rejects: " + e.strip()[-150:]
            return res
        rc, o, e, _ = vf.run([base + ".exe"], timeout=20)
        want = [int(x) for x in o.split()]
        for suf in (".c", ".exe"):
            try:
                os.remove(base + suf)
            except OSError:
                pass
        script = ("#!/bin/bash\n# layout of `%s` : chibicc vs the psABI values (as computed by gcc)\ncat > \"$WORK/p.c\" <<'EOF_P'\n%s\nEOF_P\n"
                  "\"$CHIBICC\" -I\"$CHIBICC_INCLUDE\" -o \"$WORK/t.exe\" \"$WORK/p.c\" || exit 3\n"
                  "got=$(\"$WORK/t.exe\" | tr '\\n' ' ')\nwant='%s'\necho \"functions: %s\"; echo \"got =$got\"; echo \"want=$want\"; [ \"$got\" = \"$want\" ]\n"
                  % (p.decl[:200].replace("'", ""), p.csrc + main, " ".join(str(w) for w in want) + " ", " ".join(p.funcs)))
        rc, asm, err = vf.chibicc_S(p.csrc, name="c08_%d_%s" % (os.getpid(), p.fn), builddir=e2._BUILD, want_rc=True)
        if rc != 0:
            res["status"], res["replay"] = "violated", script
            res["detail"] = "chibicc rejects/crashes (rc=%s) on `%s`: %s" % (rc, p.decl[:160], err.strip()[-200:])
            return res
        P = asmx.Program(asm)
        bad = []
        for f, w in zip(p.funcs, want):
            M = asmx.Machine(P, max_visits=64)
            fin = [s for s in M.run(f) if not s.dead]
            v = asmx.simp(fin[0].regs["rax"]) if len(fin) == 1 else None
            got = v.as_signed_long() if v is not None and z3.is_bv_value(v) else None
            res["nq"] += 1
            if got != w:
                bad.append("%s = %s, psABI %s" % (f.rsplit("_", 1)[0], got, w))
        if bad:
            res["status"], res["replay"] = "violated", script
            res["detail"] = "`%s`: %s" % (p.decl[:200], "; ".join(bad[:5]))
            # replay natively
            sp = os.path.join(d, "r%d.sh" % os.getpid())
            with open(sp, "w") as fh:
                fh.write(script)
            env = dict(os.environ, CHIBICC=os.path.join(e2._BUILD, "chibicc"), CHIBICC_INCLUDE=os.path.join(e2._BUILD, "include"), WORK=d)
            rc2, o2, e2_, _ = vf.run(["bash", sp], timeout=120, env=env)
            if rc2 == 0:
                res["status"] = "mismatch"
                res["detail"] += " | but the natively run program prints the psABI values"
    except asmx.Unmodelled as ex:
        res["status"], res["detail"] = "inconclusive", "unmodelled: %s" % ex
    except Exception as ex:
        import traceback
        res["status"], res["detail"] = "inconclusive", "error: %s %s" % (ex, traceback.format_exc()[-300:])
    res["secs"] = time.time() - t1
    return res


def run(chk, tier):
    import multiprocessing as mp
    rnd = random.Random(chk.seed * 31337 + 5)
    allsh = c08_oracle.shapes(chk.seed, 400 if tier == "quick" else 4000)
    one_two = [s for s in allsh if len(s[1]) <= 2]
    multi = [s for s in allsh if len(s[1]) > 2]
    pick = (rnd.sample(one_two, min(len(one_two), 250 if tier == "quick" else 4000)) + multi)
    probes = []
    for k, ((u, pk, at), ms) in enumerate(pick):
        attrs = (["packed"] if pk else []) + (["aligned(%d)" % at] if at else [])
        attr = ("__attribute__((%s)) " % ",".join(attrs)) if attrs else ""
        kw = "union" if u else "struct"
        decls = [(m["decl"] % ("m%d" % i)) if m["named"] else m["decl"] for i, m in enumerate(ms)]
        decl = "%s %sS%d { %s };" % (kw, attr, k, " ".join(decls))
        offs = ["m%d" % i for i, m in enumerate(ms) if m["named"] and not m["is_bf"]]
        bfs = ["m%d" % i for i, m in enumerate(ms) if m["named"] and m["is_bf"]]
        est = sum(max(m["size"], m["req"], 1) + 16 for m in ms) + (at or 0) + 16
        cat = "plain"
        if pk and any(m["is_bf"] for m in ms) and any(m["req"] for m in ms):
            cat = "packed-bitfield-alignas"
        elif pk and any(m["is_bf"] for m in ms):
            cat = "packed-bitfield"
        elif pk and any(m["req"] for m in ms):
            cat = "packed-alignas"
        probes.append(LayoutProbe("layout/gen/%s/%d" % (cat, k), "y%d" % k, decl, "%s S%d" % (kw, k), offs, bfs, size_hint=min(96, (est + 7) // 8 * 8)))
    for k, (decl, mems) in enumerate(EXTRA_DECLS):
        tag = decl.split("{")[0].replace("typedef", "").replace("__attribute__((packed))", "").replace("__attribute__((aligned(32)))", "").strip()
        if "X8" in decl:
            tag = "struct X8"
        probes.append(LayoutProbe("layout/decl/%d" % k, "x%d" % k, decl, tag, mems, []))
    e2._PROBES = probes
    e2._BUILD = vf.build_chibicc()
    with mp.get_context("fork").Pool(vf.NCPU) as pool:
        results = pool.map(_one, range(len(probes)), chunksize=2)
    skipped = 0
    for r in results:
        if r["status"] == "skipped":
            skipped += 1
            continue
        rp = chk.write_replay(r["key"], r["replay"], ext=".sh") if r["replay"] and r["status"] in ("violated", "mismatch") else None
        chk.add(r["key"], r["status"], r["detail"], r["secs"], replay=rp, family="layout-e2")
    chk.extra["layout_programs"] = len(probes)
    chk.extra["layout_programs_skipped_gcc_rejects"] = skipped
    chk.extra["solver_queries"] = chk.extra.get("solver_queries", 0) + sum(r["nq"] for r in results)
    for p in probes[:3]:
        chk.sample(dict(key=p.key, declaration=p.decl[:200]))
    chk.bounds.append("layouts (E2): %d generated struct/union declarations (1-5 members over scalars, arrays, nested aggregates, _Alignas, named/unnamed/zero-width bit-fields; "
                      "struct/union x packed x aligned) plus %d hand-written declarator/attribute/anonymous-member shapes: sizeof, _Alignof, every member offset and the byte image of "
                      "every bit-field set to all ones" % (len(probes) - len(EXTRA_DECLS), len(EXTRA_DECLS)))
    chk.functions.update(["parse.c:declspec/declarator/type_suffix/struct_members/attribute_list/struct_decl/union_decl (via emitted code)", "parse.c:primary (sizeof/_Alignof)"])
