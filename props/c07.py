# C07 — translation-time constant evaluation equals run-time (C11) evaluation (E1: cbmc over the
# real add_type()/eval()/eval2())
import os
import vf, e1, c07_oracle

ROOTS = ["add", "sub", "mul", "div", "mod", "bitand", "bitor", "bitxor", "shl", "shr", "eq", "ne", "lt", "le",
         "logand", "logor", "comma", "neg", "bitnot", "not", "cond", "cast"]
# operand-operator kinds (R_* codes of ref_eval.h, in enum order)
KINDS = ["add", "sub", "mul", "div", "mod", "bitand", "bitor", "bitxor", "shl", "shr", "eq", "ne", "lt", "le",
         "logand", "logor", "comma", "neg", "bitnot", "not", "cond"]
QUICK_D2 = [(r, k) for r in ("cast", "shr", "lt", "cond") for k in ("sub", "shl", "bitnot")]
# host-level signed overflow / shift checks inside eval2 are not part of C07 (see chk.outside)
FLAGS = ("--sat-solver", "cadical", "--unwinding-assertions", "--div-by-zero-check", "--no-signed-overflow-check", "--no-undefined-shift-check",
         "--drop-unused-functions", "--no-malloc-may-fail")
RC = ("eval_double:cut_eval_double",)


def main(tier, only=None):
    chk = vf.Check("C07", tier)
    thorough = tier == "thorough"
    want = lambda fam: (not only) or fam in only
    extra = [os.path.join(vf.REPO, "type.c"), os.path.join(vf.REPO, "hashmap.c")]
    chk.assumptions += [
        "stubs (harness/penv.h): error*/warn_tok (diagnostic = path ends; a diagnostic on a C11-defined expression "
        "is an assertion failure), align_to/equal/skip/consume unused",
        "eval_double() is cut by a stub that asserts unreachability (integer-only trees)",
        "ND_NUM representation invariant: val is the mathematical value of a literal of type int/unsigned/long, the "
        "bit pattern for unsigned long (what tokenize.c's read_int_literal/new_num produce)",
        "implementation-defined behaviour follows the psABI/gcc: conversion to a signed type wraps, >> of a negative "
        "value is arithmetic; expressions whose evaluation C11 leaves undefined are excluded (assume)",
        "'no cast' on a leaf is built as the identity cast to the literal's own type",
    ]
    chk.outside += [
        "eval_double (floating constant expressions) and integer<->floating casts; address constants (labels)",
        "host-level signed overflow / oversized shifts inside eval2's own int64_t arithmetic (wraps under gcc; "
        "cbmc's signed-overflow and undefined-shift checks are switched off for these harnesses, div-by-zero is on)",
        "trees deeper than the stated depth; operands of * / % wider than the stated restriction",
    ]
    chk.bounds += ["fold/d1: each of the 22 root operators over leaves; leaf = optional cast (8 integer types; _Bool "
                   "casts in fold-bool/*) of a literal of type int/unsigned/long/unsigned long with ANY value of that "
                   "type (inductive step: eval2 of a node depends only on kind, type and the operands' folded values/types)",
                   "fold/d2: root operator over operator nodes (every operand) of one kind over leaves, for %s "
                   "(root,kind) pairs; literal values range over the neighbourhoods [-4,3] of 0, +-2^7, +-2^8, +-2^15, "
                   "+-2^16, +-2^31, +-2^32, +-2^63 wrapped into the literal's type"
                   % ("all 22x21" if thorough else "%d selected" % len(QUICK_D2)),
                   "for * / %% the right operand is restricted to [-%d,%d] (SAT cannot decide 64x64 multiplier/divider "
                   "equivalence); the left operand is unrestricted" % ((16, 15) if thorough else (4, 3)),
                   "divzero: dividend = leaf or operator node (+, unary -, ?:, <<, /) over leaves, divisor = any "
                   "literal/cast leaf whose value is 0"]

    if want("oracle") or not only:
        ok, n, text = c07_oracle.validate(chk.seed, 20000 if thorough else 6000)
        chk.extra["oracle_validation"] = dict(expressions=n, agrees_with_gcc=ok, detail=text[-600:])
        chk.extra["validated"] = n
        if not ok:
            chk.add("oracle/ref-vs-gcc", "inconclusive", "reference evaluator disagrees with gcc: " + text[-300:],
                    family="oracle")

    hs = []
    mulb = ("MULB=16",) if thorough else ()
    H = lambda fn, key, defs, fam, tmo=300, ob=None: e1.H(fn, key, unwind=24, defines=tuple(defs) + mulb, flags=FLAGS,
                                                           std=False, replace_calls=RC, object_bits=ob,
                                                           timeout=tmo * (6 if thorough else 1), family=fam)
    if want("fold"):
        for r in ROOTS:
            hs.append(H("h_d1_" + r, "fold/d1/%s" % r, (), "fold"))
        pairs = [(r, k) for r in ROOTS for k in KINDS] if thorough else QUICK_D2
        for r, k in pairs:
            hs.append(H("h_d2_" + r, "fold/d2/%s/%s" % (r, k), ("KSET=%d" % (1 << KINDS.index(k)),), "fold",
                        900 if thorough else 300))
    if want("fold-bool"):
        for r in ("cast", "add", "cond", "not", "logand"):
            hs.append(H("h_d1_" + r, "fold-bool/d1/%s" % r, ("CASTSET=1",), "fold-bool"))
    if want("divzero"):
        for r in ("div", "mod"):
            hs.append(H("h_divzero_" + r, "divzero/%s" % r, (), "divzero", 300, 11))
        trapflags = tuple(f for f in FLAGS if f != "--no-signed-overflow-check") + ("--signed-overflow-check",)
        for r in ("div", "mod"):
            hs.append(e1.H("h_divtrap_" + r, "divtrap/%s" % r, unwind=24, defines=mulb, flags=trapflags, std=False, replace_calls=RC, object_bits=11,
                           timeout=300 * (6 if thorough else 1), family="divzero",
                           desc="INT64_MIN / -1 and INT64_MIN % -1 are never executed on the host (cbmc's signed div/mod overflow property = the SIGFPE condition)"))
    if hs:
        e1.run_set(chk, "c07/fold.c", hs, workers=8, extra_src=extra)

    if (not only) or "const" in only:
        import c07_e2
        c07_e2.run(chk, tier)
    if (not only) or "fconst" in only:
        import c07_f
        c07_f.run(chk, tier)

    if os.environ.get("VERIF_VERBOSE"):
        for o in chk.obl:
            print("  %-40s %-12s %6.1fs %s" % (o["key"], o["status"], o["secs"], o["detail"][:110]))
    return chk.finish()


def replay(path):
    import e1replay
    return e1replay.replay_with(path)
