# C07 — translation-time constant evaluation equals run-time (C11) evaluation (E1: cbmc over the
# real add_type()/eval()/eval2())
import os
import vf, e1, c07_oracle

ROOTS = [  # (name, R_* code as C token)
    ("add", "R_ADD"), ("sub", "R_SUB"), ("mul", "R_MUL"), ("div", "R_DIV"), ("mod", "R_MOD"),
    ("bitand", "R_BITAND"), ("bitor", "R_BITOR"), ("bitxor", "R_BITXOR"), ("shl", "R_SHL"), ("shr", "R_SHR"),
    ("eq", "R_EQ"), ("ne", "R_NE"), ("lt", "R_LT"), ("le", "R_LE"), ("logand", "R_LOGAND"), ("logor", "R_LOGOR"),
    ("comma", "R_COMMA"), ("neg", "R_NEG"), ("bitnot", "R_BITNOT"), ("not", "R_NOT"), ("cond", "R_COND"),
    ("cast", "R_CASTROOT"),
]
# host-level signed overflow / shift checks inside eval2 are not part of C07 (see chk.outside)
FLAGS = ("--unwinding-assertions", "--div-by-zero-check", "--no-signed-overflow-check", "--no-undefined-shift-check",
         "--drop-unused-functions", "--no-malloc-may-fail")
RC = ("eval_double:cut_eval_double",)


def main(tier, only=None):
    chk = vf.Check("C07", tier)
    thorough = tier == "thorough"
    want = lambda fam: (not only) or fam in only
    extra = [os.path.join(vf.REPO, "type.c"), os.path.join(vf.REPO, "hashmap.c")]
    chk.assumptions += [
        "stubs (harness/penv.h): error*/warn_tok (diagnostic = path ends; a diagnostic on a C11-defined expression "
        "is an assertion failure), align_to/equal/skip/consume unused",
        "eval_double() is cut by a stub that asserts unreachability (integer-only trees)",
        "ND_NUM representation invariant: val is the mathematical value of a literal of type int/unsigned/long, the "
        "bit pattern for unsigned long (what tokenize.c's read_int_literal/new_num produce)",
        "implementation-defined behaviour follows the psABI/gcc: conversion to a signed type wraps, >> of a negative "
        "value is arithmetic; expressions whose evaluation C11 leaves undefined are excluded (assume)",
        "'no cast' on a leaf is built as the identity cast to the literal's own type",
    ]
    chk.outside += [
        "eval_double (floating constant expressions) and integer<->floating casts; address constants (labels)",
        "host-level signed overflow / oversized shifts inside eval2's own int64_t arithmetic (wraps under gcc; "
        "cbmc's signed-overflow and undefined-shift checks are switched off for these harnesses, div-by-zero is on)",
        "trees deeper than the stated depth; operands of * / % wider than the stated restriction",
    ]
    chk.bounds += ["fold: root operator (22 kinds, one obligation each) over operands that are a leaf or (depth 2) an "
                   "operator node of symbolic kind (20 kinds) over leaves; leaf = optional cast (8 integer types; "
                   "_Bool casts in fold-bool/*) of a literal of type int/unsigned/long/unsigned long with ANY value",
                   "for * the right operand is restricted to [-128,127]; for / and % additionally the left operand "
                   "to [0,65535] (SAT cannot decide 64x64 multiplier/divider equivalence)"]

    if want("oracle") or not only:
        ok, n, text = c07_oracle.validate(chk.seed, 20000 if thorough else 6000)
        chk.extra["oracle_validation"] = dict(expressions=n, agrees_with_gcc=ok, detail=text[-600:])
        chk.extra["validated"] = n
        if not ok:
            chk.add("oracle/ref-vs-gcc", "inconclusive", "reference evaluator disagrees with gcc: " + text[-300:],
                    family="oracle")

    hs = []
    if want("fold"):
        for name, code in ROOTS:
            for depth in ((1, 2) if True else (1,)):
                hs.append(e1.H("h_fold", "fold/d%d/%s" % (depth, name), unwind=8,
                               defines=("ROOT=%s" % code, "DEPTH=%d" % depth), flags=FLAGS, std=False,
                               replace_calls=RC, timeout=900 if thorough else 300, family="fold"))
    if want("fold-bool"):
        for name, code in (("cast", "R_CASTROOT"), ("add", "R_ADD"), ("cond", "R_COND")):
            hs.append(e1.H("h_fold", "fold-bool/d1/%s" % name, unwind=8,
                           defines=("ROOT=%s" % code, "DEPTH=1", "CASTSET=1"), flags=FLAGS, std=False,
                           replace_calls=RC, timeout=300, family="fold-bool"))
    if want("divzero"):
        for name, code in (("div", "R_DIV"), ("mod", "R_MOD")):
            hs.append(e1.H("h_divzero", "divzero/%s" % name, unwind=8, defines=("ROOT=%s" % code, "DEPTH=2"),
                           flags=FLAGS, std=False, replace_calls=RC, timeout=300, family="divzero"))
    if hs:
        e1.run_set(chk, "c07/fold.c", hs, workers=8, extra_src=extra)

    if os.environ.get("VERIF_VERBOSE"):
        for o in chk.obl:
            print("  %-40s %-12s %6.1fs %s" % (o["key"], o["status"], o["secs"], o["detail"][:110]))
    return chk.finish()


replay = vf.generic_replay
