# C03 — control flow and lexical scoping follow the abstract machine (E2: asm-smt)
import itertools, z3
import vf, e2, asmx, cref
from cref import CHAR, UCHAR, SHORT, USHORT, INT, UINT, LONG, ULONG, BOOL, conv, promote

TRUE = z3.BoolVal(True)
bv = asmx.bv


# ------------------------------------------------------------------------------------------------
# (a) switch dispatch
# ------------------------------------------------------------------------------------------------
def switch_probes(fn, full):
    P = []
    label_sets = {
        "small": [("1", 1), ("2", 2), ("7", 7)],
        "neg": [("-1", -1), ("-128", -128), ("0", 0), ("127", 127)],
        "range": [("3 ... 9", (3, 9)), ("-20 ... -10", (-20, -10)), ("100", 100)],
        "big": [("2147483647", 2147483647), ("-2147483647 - 1", -2147483648), ("65536", 65536)],
        "wide": [("4294967296L", 1 << 32), ("-4294967297L", -(1 << 32) - 1), ("1", 1), ("4294967297L", (1 << 32) + 1)],
        "widerange": [("4294967290L ... 4294967300L", (4294967290, 4294967300)), ("5", 5)],
        "uns": [("4294967295U", 4294967295), ("2147483648U", 2147483648), ("0", 0)],
        "char": [("'a'", 97), ("255", 255), ("256", 256), ("-1", -1)],
        "rangeedge": [("0 ... 0", (0, 0)), ("10 ... 2147483647", (10, 2147483647)), ("-2147483647 - 1 ... -5", (-2147483648, -5))],
    }
    types = [CHAR, UCHAR, SHORT, USHORT, INT, UINT, LONG, ULONG]
    for t in types:
        for sname, labels in label_sets.items():
            if sname in ("wide", "widerange") and t.bits < 64 and not full:
                continue
            for dpos in ("none", "first", "middle", "last"):
                if not full and dpos in ("first",) and sname not in ("small", "wide", "range"):
                    continue
                tp = promote(t)
                body = "switch (a) {\n"
                items = [("case %s: return %d;" % (txt, 10 + i), val, 10 + i) for i, (txt, val) in enumerate(labels)]
                d = "default: return 99;"
                if dpos == "first":
                    lines = [d] + [x[0] for x in items]
                elif dpos == "middle":
                    lines = [items[0][0], d] + [x[0] for x in items[1:]]
                elif dpos == "last":
                    lines = [x[0] for x in items] + [d]
                else:
                    lines = [x[0] for x in items]
                body += "\n".join("  " + l for l in lines) + "\n}\nreturn 0;"

                def ref(a, t=t, tp=tp, items=items, dpos=dpos):
                    x = conv(a, t, tp)          # integer promotions on the controlling expression
                    res = z3.BitVecVal(99 if dpos != "none" else 0, 32)
                    for txt, val, r in reversed(items):
                        if isinstance(val, tuple):
                            lo, hi = val
                            # labels are converted to the promoted type of the controlling expression
                            lov, hiv = z3.BitVecVal(lo, tp.bits), z3.BitVecVal(hi, tp.bits)
                            if not (-(1 << (tp.bits - 1)) <= lo and hi < (1 << tp.bits)):
                                pass
                            c = z3.And(x >= lov, x <= hiv) if tp.signed else z3.And(z3.UGE(x, lov), z3.ULE(x, hiv))
                            # a range whose converted bounds are not ordered in the promoted type is skipped by construction below
                        else:
                            c = x == z3.BitVecVal(val, tp.bits)
                        res = z3.If(c, z3.BitVecVal(r, 32), res)
                    return res, TRUE
                # skip label sets whose converted labels would collide or invert in this controlling type
                vals = []
                ok = True
                for txt, val, r in items:
                    for v in (val if isinstance(val, tuple) else (val,)):
                        vals.append(v)
                    if isinstance(val, tuple):
                        lo, hi = [(v & ((1 << tp.bits) - 1)) for v in val]
                        if tp.signed:
                            lo, hi = [v - (1 << tp.bits) if v >= 1 << (tp.bits - 1) else v for v in (lo, hi)]
                        if lo > hi:
                            ok = False
                conv_vals = [v & ((1 << tp.bits) - 1) for v in vals]
                if len(set(conv_vals)) != len(conv_vals) and sname not in ("rangeedge",):
                    ok = False
                if not ok:
                    continue
                P.append(e2.ScalarProbe("switch/%s/%s/default-%s" % (t.cid, sname, dpos), fn(), INT, [t], body, ref, family="switch"))
    # fall-through and nested switch
    P.append(e2.ScalarProbe("switch/fallthrough", fn(), INT, [INT], "int r = 0; switch (a) { case 1: r += 1; case 2: r += 10; break; case 3: r += 100; default: r += 1000; case 4: r += 10000; } return r;",
                            lambda a: (z3.If(a == 1, z3.BitVecVal(11, 32), z3.If(a == 2, z3.BitVecVal(10, 32), z3.If(a == 3, z3.BitVecVal(11100, 32),
                                       z3.If(a == 4, z3.BitVecVal(10000, 32), z3.BitVecVal(11000, 32))))), TRUE), family="switch"))
    P.append(e2.ScalarProbe("switch/nested", fn(), INT, [INT, INT], "switch (a) { case 1: switch (b) { case 1: return 11; default: return 12; case 2: break; } return 13; case 2: return 20; } return 0;",
                            lambda a, b: (z3.If(a == 1, z3.If(b == 1, z3.BitVecVal(11, 32), z3.If(b == 2, z3.BitVecVal(13, 32), z3.BitVecVal(12, 32))),
                                                z3.If(a == 2, z3.BitVecVal(20, 32), z3.BitVecVal(0, 32))), TRUE), family="switch"))
    P.append(e2.ScalarProbe("switch/in-loop-continue", fn(), INT, [INT], "int r = 0; for (int i = 0; i < 3; i++) { switch (a) { case 1: continue; case 2: break; default: r += 100; } r += 1; } return r;",
                            lambda a: (z3.If(a == 1, z3.BitVecVal(0, 32), z3.If(a == 2, z3.BitVecVal(3, 32), z3.BitVecVal(303, 32))), TRUE), family="switch", max_visits=8))
    return P


# ------------------------------------------------------------------------------------------------
# (b) statement order: mini statement language with a reference interpreter
# ------------------------------------------------------------------------------------------------
class Gen:
    """Generates C text for a statement tree and interprets it (reference abstract machine).
    Conditions are distinct int parameters c0..c5 (symbolic); loop bounds are parameters n0,n1 (0..2).
    Markers are calls m(<id>)."""

    def __init__(self):
        self.nm = 0
        self.nc = 0
        self.nl = 0
        self.nn = 0

    def mark(self):
        self.nm += 1
        return ("M", self.nm)

    def cond(self):
        self.nc += 1
        return "c%d" % (self.nc - 1)

    def bound(self):
        self.nn += 1
        return "n%d" % (self.nn - 1)

    def label(self):
        self.nl += 1
        return "L%d" % self.nl


FORMS = ["if", "ifelse", "for", "while", "do", "switch", "forbreak", "whilecontinue", "gotofwd", "gotoback", "cgoto", "ternary", "land", "lor",
         "comma", "stmtexpr", "block", "dobreak", "forcontinue", "switchloop"]


def build(g, form, inner):
    """returns a statement tree; `inner` is a callable producing a fresh inner statement (or a marker)"""
    if form == "if":
        return ("if", g.cond(), ("seq", [g.mark(), inner()]), None)
    if form == "ifelse":
        return ("if", g.cond(), ("seq", [g.mark(), inner()]), ("seq", [inner(), g.mark()]))
    if form == "for":
        return ("for", g.bound(), ("seq", [g.mark(), inner()]), g.mark())
    if form == "while":
        return ("while", g.bound(), ("seq", [inner(), g.mark()]))
    if form == "do":
        return ("do", g.bound(), ("seq", [g.mark(), inner()]))
    if form == "switch":
        return ("switch", g.cond(), [(1, ("seq", [g.mark(), inner()]), False), (2, g.mark(), True), ("default", ("seq", [g.mark()]), True), (3, inner(), True)])
    if form == "forbreak":
        return ("for", g.bound(), ("seq", [g.mark(), ("if", g.cond(), ("break",), None), inner()]), g.mark())
    if form == "whilecontinue":
        return ("while", g.bound(), ("seq", [g.mark(), ("if", g.cond(), ("continue",), None), inner()]))
    if form == "forcontinue":
        return ("for", g.bound(), ("seq", [("if", g.cond(), ("seq", [g.mark(), ("continue",)]), None), inner()]), g.mark())
    if form == "dobreak":
        return ("do", g.bound(), ("seq", [inner(), ("if", g.cond(), ("break",), ("continue",)), g.mark()]))
    if form == "gotofwd":
        l = g.label()
        return ("seq", [("if", g.cond(), ("goto", l), None), g.mark(), inner(), ("label", l), g.mark()])
    if form == "gotoback":
        l = g.label()
        return ("gotoloop", g.bound(), l, ("seq", [g.mark(), inner()]))
    if form == "cgoto":
        l1, l2 = g.label(), g.label()
        return ("cgoto", g.cond(), l1, l2, ("seq", [g.mark(), inner()]), g.mark())
    if form == "ternary":
        return ("expr", ("?:", g.cond(), ("seq", [g.mark()]), ("seq", [g.mark(), g.mark()])), inner())
    if form == "land":
        return ("expr", ("&&", g.cond(), g.mark(), g.cond(), g.mark()), inner())
    if form == "lor":
        return ("expr", ("||", g.cond(), g.mark(), g.cond(), g.mark()), inner())
    if form == "comma":
        return ("expr", (",", g.mark(), g.mark()), inner())
    if form == "stmtexpr":
        return ("stmtexpr", ("seq", [g.mark(), inner()]), g.mark())
    if form == "block":
        return ("seq", [g.mark(), ("seq", [inner()]), g.mark()])
    if form == "switchloop":
        return ("for", g.bound(), ("switch", g.cond(), [(1, ("continue",), False), (2, ("break",), False), ("default", inner(), True)]), g.mark())
    raise ValueError(form)


def ctext(s, ind=1):
    pad = "  " * ind
    k = s[0]
    if k == "M":
        return pad + "m(%d);\n" % s[1]
    if k == "seq":
        return pad + "{\n" + "".join(ctext(x, ind + 1) for x in s[1]) + pad + "}\n"
    if k == "if":
        r = pad + "if (%s)\n" % s[1] + ctext(s[2], ind + 1)
        if s[3] is not None:
            r += pad + "else\n" + ctext(s[3], ind + 1)
        return r
    if k == "for":
        i = "i_" + s[1]
        return pad + "for (int %s = 0; %s < %s; %s++, m(%d))\n" % (i, i, s[1], i, s[3][1]) + ctext(s[2], ind + 1)
    if k == "while":
        i = "i_" + s[1]
        return pad + "{ int %s = 0; while (%s++ < %s)\n" % (i, i, s[1]) + ctext(s[2], ind + 1) + pad + "}\n"
    if k == "do":
        i = "i_" + s[1]
        return pad + "{ int %s = 0; do\n" % i + ctext(s[2], ind + 1) + pad + "while (++%s < %s); }\n" % (i, s[1])
    if k == "switch":
        r = pad + "switch (%s) {\n" % s[1]
        for lab, body, brk_after in s[2]:
            r += pad + ("default:\n" if lab == "default" else "case %d:\n" % lab) + ctext(body, ind + 1)
            if not brk_after:
                pass
            else:
                r += pad + "  break;\n"
        return r + pad + "}\n"
    if k == "break":
        return pad + "break;\n"
    if k == "continue":
        return pad + "continue;\n"
    if k == "goto":
        return pad + "goto %s;\n" % s[1]
    if k == "label":
        return pad + "%s: ;\n" % s[1]
    if k == "gotoloop":
        i = "i_" + s[1]
        return pad + "{ int %s = 0; %s: if (%s++ < %s) {\n" % (i, s[2], i, s[1]) + ctext(s[3], ind + 1) + pad + "goto %s; } }\n" % s[2]
    if k == "cgoto":
        return (pad + "{ void *t_ = %s ? &&%s : &&%s; goto *t_;\n" % (s[1], s[2], s[3]) + pad + "%s:\n" % s[2] + ctext(s[4], ind + 1) +
                pad + "%s: m(%d); }\n" % (s[3], s[5][1]))
    if k == "expr":
        e = s[1]
        if e[0] == "?:":
            ex = "%s ? (%s) : (%s)" % (e[1], ", ".join("m(%d)" % x[1] for x in e[2][1]), ", ".join("m(%d)" % x[1] for x in e[3][1]))
        elif e[0] in ("&&", "||"):
            ex = "(%s %s (m(%d), %s)) %s (m(%d), 1)" % (e[1], e[0], e[2][1], e[3], e[0], e[4][1])
        else:
            ex = "m(%d), m(%d)" % (e[1][1], e[2][1])
        return pad + ex + ";\n" + ctext(s[2], ind)
    if k == "stmtexpr":
        return pad + "({\n" + ctext(s[1], ind + 1) + pad + "  m(%d); });\n" % s[2][1]
    raise ValueError(k)


class Brk(Exception):
    pass


class Cont(Exception):
    pass


class Goto(Exception):
    def __init__(self, l):
        self.l = l


class Abort(Exception):
    pass


def interp(s, env, trace, decide):
    """reference abstract machine. env: loop counters; decide(cexpr:str)->bool is asked for every condition."""
    k = s[0]
    if k == "M":
        trace.append(s[1])
        return
    if k == "seq":
        items = s[1]
        i = 0
        while i < len(items):
            try:
                interp(items[i], env, trace, decide)
            except Goto as g:
                # forward goto to a label in this sequence
                idx = [j for j, x in enumerate(items) if x[0] == "label" and x[1] == g.l]
                if not idx:
                    raise
                i = idx[0]
                continue
            i += 1
        return
    if k == "if":
        if decide(("nz", s[1])):
            interp(s[2], env, trace, decide)
        elif s[3] is not None:
            interp(s[3], env, trace, decide)
        return
    if k == "for":
        i = 0
        while decide(("lt", i, s[1])):
            try:
                interp(s[2], env, trace, decide)
            except Brk:
                break
            except Cont:
                pass
            i += 1
            trace.append(s[3][1])
            if i > 3:
                raise Abort()
        return
    if k == "while":
        i = 0
        while True:
            c = decide(("lt", i, s[1]))
            i += 1
            if not c:
                break
            try:
                interp(s[2], env, trace, decide)
            except Brk:
                break
            except Cont:
                pass
            if i > 4:
                raise Abort()
        return
    if k == "do":
        i = 0
        while True:
            try:
                interp(s[2], env, trace, decide)
            except Brk:
                break
            except Cont:
                pass
            i += 1
            if not decide(("lt", i, s[1])):
                break
            if i > 4:
                raise Abort()
        return
    if k == "switch":
        labs = [c[0] for c in s[2]]
        start = None
        for j, lab in enumerate(labs):
            if lab != "default" and decide(("eq", s[1], lab)):
                start = j
                break
        if start is None:
            start = labs.index("default") if "default" in labs else None
        if start is None:
            return
        try:
            for lab, body, brk_after in s[2][start:]:
                interp(body, env, trace, decide)
                if brk_after:
                    break
        except Brk:
            pass
        return
    if k == "break":
        raise Brk()
    if k == "continue":
        raise Cont()
    if k == "goto":
        raise Goto(s[1])
    if k == "label":
        return
    if k == "gotoloop":
        i = 0
        while True:
            c = decide(("lt", i, s[1]))
            i += 1
            if not c:
                break
            interp(s[3], env, trace, decide)
            if i > 4:
                raise Abort()
        return
    if k == "cgoto":
        if decide(("nz", s[1])):
            interp(s[4], env, trace, decide)
        trace.append(s[5][1])
        return
    if k == "expr":
        e = s[1]
        if e[0] == "?:":
            for x in (e[2][1] if decide(("nz", e[1])) else e[3][1]):
                trace.append(x[1])
        elif e[0] == "&&":
            v = False
            if decide(("nz", e[1])):
                trace.append(e[2][1])
                v = decide(("nz", e[3]))
            if v:
                trace.append(e[4][1])
        elif e[0] == "||":
            v = True
            if not decide(("nz", e[1])):
                trace.append(e[2][1])
                v = decide(("nz", e[3]))
            if not v:
                trace.append(e[4][1])
        else:
            trace.append(e[1][1])
            trace.append(e[2][1])
        interp(s[2], env, trace, decide)
        return
    if k == "stmtexpr":
        interp(s[1], env, trace, decide)
        trace.append(s[2][1])
        return
    raise ValueError(k)


class TraceProbe(e2.Probe):
    """void f(int c0..c3, int n0, int n1) { <statement tree with m(id) markers> } : for every input, the sequence of
    marker calls made by the compiled code equals the reference abstract machine's sequence."""

    def __init__(self, key, fn, tree, nconds, nbounds):
        self.key, self.fn, self.family, self.tree = key, fn, "order", tree
        self.nconds, self.nbounds = nconds, nbounds
        params = ["int c%d" % i for i in range(nconds)] + ["int n%d" % i for i in range(nbounds)]
        self.params = [p.split()[1] for p in params]
        if len(params) > 6:
            raise ValueError("too many parameters")
        body = ctext(tree).replace("m(", "m_%s(" % fn)
        self.csrc = "void m_%s(int);\nvoid %s(%s) {\n%s}\n" % (fn, fn, ", ".join(params) or "void", body)
        self.extern_ret = {"m_" + fn: "int"}
        self.max_visits = 40        # three nested loops of at most 2 iterations each revisit the innermost test 27 times

    def assumptions(self, M):
        import abi
        regs = {p: z3.Extract(31, 0, z3.BitVec("in_" + abi.GP_ARGS[i], 64)) for i, p in enumerate(self.params)}
        return [z3.And(regs[p] >= 0, regs[p] <= 2) for p in self.params if p.startswith("n")]

    def goals(self, M, finals):
        import abi
        regs = {p: z3.Extract(31, 0, z3.BitVec("in_" + abi.GP_ARGS[i], 64)) for i, p in enumerate(self.params)}
        A = [z3.And(regs[p] >= 0, regs[p] <= 2) for p in self.params if p.startswith("n")]
        out = []
        for pi, s in enumerate(finals):
            if s.dead:
                continue
            calls = [e for e in s.events if e.kind == "call"]
            got = []
            concrete = True
            for e in calls:
                v = asmx.simp(z3.Extract(31, 0, e.regs["rdi"]))
                if not z3.is_bv_value(v):
                    concrete = False
                    break
                got.append(v.as_long())
            H = A + s.pc
            if not concrete:
                out.append(e2.Goal("markerid/p%d" % pi, H, z3.BoolVal(False), note="marker argument is not the constant id"))
                continue
            out.append(e2.Goal("frame/p%d" % pi, H, z3.And(s.regs["rsp"] == M.RSP0 + bv(8), s.regs["rbp"] == z3.BitVec("in_rbp", 64))))
            # lock-step: run the reference machine under this path's condition; wherever the path condition does not
            # decide a reference condition, both outcomes are explored
            sol = z3.Solver()
            sol.set("timeout", 20000)
            sol.add(*H)
            if sol.check() != z3.sat:
                continue
            work = [[]]          # list of decision prefixes (z3 constraints)
            while work:
                cons = work.pop()
                pend = []

                def decide(c, cons=cons, pend=pend):
                    if c[0] == "nz":
                        f = regs[c[1]] != 0
                    elif c[0] == "lt":
                        f = z3.BitVecVal(c[1], 32) < regs[c[2]]
                    else:
                        f = regs[c[1]] == z3.BitVecVal(c[2], 32)
                    sol.push()
                    sol.add(*cons)
                    sol.add(f)
                    t = sol.check() == z3.sat
                    sol.pop()
                    sol.push()
                    sol.add(*cons)
                    sol.add(z3.Not(f))
                    fl = sol.check() == z3.sat
                    sol.pop()
                    if t and fl:
                        # undecided by the path: fork the reference
                        work.append(cons + pend + [z3.Not(f)])
                        pend.append(f)
                        cons.append(f)
                        return True
                    if t:
                        return True
                    return False
                trace = []
                try:
                    interp(self.tree, {}, trace, decide)
                except Abort:
                    continue
                except (Brk, Cont, Goto):
                    continue
                if trace != got:
                    out.append(e2.Goal("trace/p%d" % pi, H + cons, z3.BoolVal(False),
                                       {p: regs[p] for p in self.params},
                                       note="compiled code called markers %s, the abstract machine executes %s" % (got, trace)))
                    break
            else:
                out.append(e2.Goal("trace/p%d" % pi, H, z3.BoolVal(True)))
        return out

    def runtime_replay(self):
        return None


def order_probes(fn, full):
    P = []
    forms = FORMS
    leafs = [None]
    inner_forms = forms if full else ["if", "ifelse", "for", "while", "do", "switch", "forbreak", "whilecontinue", "gotofwd", "cgoto", "land", "lor", "ternary", "stmtexpr", "dobreak"]
    # depth 1
    for f in forms:
        g = Gen()
        tree = ("seq", [g.mark(), build(g, f, g.mark), g.mark()])
        P.append(TraceProbe("order/d1/%s" % f, fn(), tree, g.nc, g.nn))
    # depth 2: every outer x inner
    for fo in forms:
        for fi in inner_forms:
            g = Gen()
            try:
                tree = ("seq", [g.mark(), build(g, fo, lambda: build(g, fi, g.mark)), g.mark()])
                if g.nc + g.nn > 6:
                    continue
                P.append(TraceProbe("order/d2/%s/%s" % (fo, fi), fn(), tree, g.nc, g.nn))
            except ValueError:
                continue
    # depth 3: exhaustive over 10 forms in the thorough tier, a seeded sample in the quick tier
    forms3 = ["if", "ifelse", "for", "while", "do", "switch", "forbreak", "gotofwd", "land", "ternary", "whilecontinue", "cgoto"]
    import random, os
    combos = [(a, b, c) for a in forms3 for b in forms3 for c in forms3]
    if not full:
        rnd = random.Random(int(os.environ.get("VERIF_SEED", "0") or 0))
        combos = rnd.sample(combos, 60)
    for fo, fm, fi in combos:
        g = Gen()
        try:
            tree = ("seq", [g.mark(), build(g, fo, lambda: build(g, fm, lambda: build(g, fi, g.mark))), g.mark()])
            if g.nc + g.nn > 6:
                continue
            P.append(TraceProbe("order/d3/%s/%s/%s" % (fo, fm, fi), fn(), tree, g.nc, g.nn))
        except ValueError:
            continue
    return P


# ------------------------------------------------------------------------------------------------
# (c) scoping: uses bind to the innermost visible declaration of their name space
# ------------------------------------------------------------------------------------------------
def scope_probes(fn, full):
    P = []
    n = 0
    # each program returns the value a particular use must have; declarations are initialised from parameters
    progs = [
        ("block-shadow", "int x = a; { int x = b; if (x != b) return 0; } return x == a;", 2),
        ("for-init", "int i = a; for (int i = b; i == b; ) { int i = c; if (i != c) return 0; break; } return i == a;", 3),
        ("param-shadow", "{ int a = b; if (a != b) return 0; } return 1;", 2),
        ("tag-vs-object", "struct s { int m; } s; s.m = a; { struct s { char m[3]; }; if (sizeof(struct s) != 3) return 0; } return sizeof(struct s) == 4 && s.m == a;", 1),
        ("typedef-shadow", "typedef int T; { long T = a; if (sizeof(T) != 8 || T != a) return 0; } T t = b; return sizeof(t) == 4;", 2),
        ("typedef-inner", "typedef char T; { typedef long T; T x = a; if (sizeof(x) != 8) return 0; } T y = 1; return sizeof(y) == 1;", 1),
        ("enum-shadow", "enum { K = 5 }; { enum { K = 7 }; if (K != 7) return 0; { int K = a; if (K != a) return 0; } } return K == 5;", 1),
        ("label-namespace", "int L = a; goto L; L: return L == a;", 1),
        ("member-namespace", "struct p { int x; } v; int x = a; v.x = b; return x == a && v.x == b;", 2),
        ("stmtexpr-scope", "int x = a; int y = ({ int x = b; x; }); return x == a && y == b;", 2),
        ("nested-3", "int x = a; { int x = b; { int x = c; if (x != c) return 0; } if (x != b) return 0; } return x == a;", 3),
        ("decl-after-use", "int x = a; { int y = x; int x = b; return y == a && x == b; }", 2),
        ("init-self-outer", "int x = a; { int y = x + 0, x = y + b; return x == a + b; }", 2),
        ("switch-scope", "int x = a; switch (b) { case 1: { int x = c; return x == c; } default: return x == a; }", 3),
        ("if-body-scope", "int x = a; if (b) { int x = c; x++; } return x == a;", 3),
        ("while-body-scope", "int x = a; int k = 0; while (k++ < 2) { int x = b; x += k; } return x == a;", 2),
        ("struct-tag-inner-incomplete", "struct t { int v; }; struct t o; o.v = a; { struct t; struct t *p = 0; (void)p; } return o.v == a;", 1),
        ("tag-shadow-self-reference", "struct t { int v; }; struct t o; o.v = a; { struct t { struct t *next; int y; } p, q; p.next = &q; q.y = b; if (p.next->y != b) return 0; } return o.v == a;", 2),
        ("tag-inner-declaration-hides", "struct t { int v; }; { struct t; struct t *p; struct t { long w[4]; } z; p = &z; z.w[3] = a; if (sizeof(*p) != 32 || p->w[3] != a) return 0; } return sizeof(struct t) == 4;", 1),
        ("union-tag-shadow-self-reference", "union u { char c; }; { union u { union u *n; long l; } p, q; p.n = &q; q.l = a; if (p.n->l != a) return 0; } return sizeof(union u) == 1;", 1),
        ("funcparam-vs-global", "return g_glob == 0 ? 1 : 1;", 0),
    ]
    for name, body, nargs in progs:
        f = fn()
        params = ["a", "b", "c"][:nargs]
        pre = "int g_glob;\n" if "g_glob" in body else ""
        p = e2.ScalarProbe("scope/" + name, f, INT, [INT] * nargs, body,
                           (lambda nargs: lambda *a: (z3.BitVecVal(1, 32), TRUE))(nargs), pre=pre, family="scope", max_visits=8)
        P.append(p)
    # file scope vs parameter vs block, with symbolic values
    f = fn()
    P.append(e2.ScalarProbe("scope/file-vs-param", f, INT, [INT, INT], "{ extern int v_%s; int keep = v_%s; (void)keep; } int v_%s = b; return a + v_%s * 0 == a && v_%s == b;" % ((f,) * 5),
                            lambda a, b: (z3.BitVecVal(1, 32), TRUE), pre="int v_%s;" % f, family="scope"))
    return P


def mk_probes(tier, only=None):
    P = []
    n = [0]

    def fn():
        n[0] += 1
        return "s%d" % n[0]

    def want(f):
        return only is None or f in only

    full = tier == "thorough"
    if want("switch"):
        P += switch_probes(fn, full)
    if want("order"):
        P += order_probes(fn, full)
    if want("scope"):
        P += scope_probes(fn, full)
    if want("cond"):
        # conditions of every scalar type (integer part; floating types are under C02)
        for t in cref.INT9:
            truth = (lambda t: lambda a: (z3.If(a != 0, z3.BitVecVal(1, 32), z3.BitVecVal(0, 32)), TRUE))(t)
            for form, body in [("if", "if (a) return 1; return 0;"), ("while", "while (a) return 1; return 0;"), ("for", "for (; a; ) return 1; return 0;"),
                               ("do", "int k = 0; do { if (k++) return 1; } while (a); return 0;"), ("ternary", "return a ? 1 : 0;"),
                               ("lnot", "return !a ? 0 : 1;"), ("land", "return a && 1;"), ("lor", "return a || 0;")]:
                P.append(e2.ScalarProbe("cond/%s/%s" % (form, t.cid), fn(), INT, [t], body, truth, family="cond", max_visits=6))
        # short-circuit operators whose operands have DIFFERENT types, as controlling expressions: each operand is tested
        # for zero at its own type and width (the guarded statement runs iff the C11 truth value says so)
        pairs = [(a_, b_) for a_ in cref.INT9 for b_ in cref.INT9 if a_.bits != b_.bits] if full else \
                [(cref.INT, cref.LONG), (cref.LONG, cref.INT), (cref.CHAR, cref.ULONG), (cref.ULONG, cref.SHORT), (cref.UINT, cref.LONG), (cref.BOOL, cref.LONG), (cref.LONG, cref.UCHAR)]
        for t1, t2 in pairs:
            for op, nm in (("||", "lor"), ("&&", "land")):
                ref = (lambda op: lambda a, b: (z3.If((z3.Or if op == "||" else z3.And)(a != 0, b != 0), z3.BitVecVal(1, 32), z3.BitVecVal(0, 32)), TRUE))(op)
                for form, body in [("if", "if (a %s b) return 1; return 0;" % op), ("while", "while (a %s b) return 1; return 0;" % op),
                                   ("ternary-not", "return !(a %s b) ? 0 : 1;" % op)]:
                    P.append(e2.ScalarProbe("cond/mixed-%s/%s/%s/%s" % (nm, form, t1.cid, t2.cid), fn(), INT, [t1, t2], body, ref, family="cond", max_visits=6))
    return P


def main(tier, only=None):
    chk = vf.Check("C03", tier)
    probes = mk_probes(tier, only)
    chk.bounds += ["switch: 8 controlling types x 9 label sets (negative, > 32 bits, ranges, unsigned, boundary) x default placement; controlling value symbolic over its full width",
                   "statement order: all depth-1 and depth-2 nestings of %d statement forms (%s inner forms) and depth-3 nestings of 12 forms (%s); every branch condition is a distinct symbolic int; loop bounds symbolic in 0..2" % (len(FORMS), "all" if tier == "thorough" else "15", "all that fit in 6 parameters" if tier == "thorough" else "a seeded sample of 60"),
                   "scoping: %d shadowing patterns across file/parameter/block/for-init/statement-expression scope and the tag/ordinary/label/member name spaces, values symbolic" % 19]
    chk.outside += ["nesting depth > 3; loop trip counts > 2", "asm statements", "scoping patterns beyond the listed ones (the scope stack itself is not model-checked here)"]
    chk.assumptions += ["marker function m() is an arbitrary psABI-conforming external function"]
    chk.functions.update(["codegen.c:gen_stmt", "codegen.c:gen_expr ND_COND/ND_LOGAND/ND_LOGOR/ND_COMMA/ND_STMT_EXPR", "parse.c:stmt", "parse.c:resolve_goto_labels",
                          "parse.c:enter_scope/leave_scope/find_var/find_tag (via emitted code)"])
    e2.run_probes(chk, probes, chunk=8)
    for p in probes[:3]:
        chk.sample(dict(key=p.key, c=p.csrc.strip()[-500:]))
    return chk.finish()


replay = vf.generic_replay
