# C06 — calls obey the System V x86-64 calling convention (E2: asm-smt against an independent psABI model)
import z3
import vf, e2, asmx, abi
from abi import CT, struct, classify, place, entry_bytes, call_bytes, INT, LONG, CHAR, UCHAR, BOOL, SHORT, UINT, FLOAT, DOUBLE, LDOUBLE, PTR

TRUE = z3.BoolVal(True)
bv = asmx.bv

S_ii = struct("Sii", [("a", INT), ("b", INT)])
S_ll = struct("Sll", [("a", LONG), ("b", LONG)])
S_d = struct("Sd", [("a", DOUBLE)])
S_dd = struct("Sdd", [("a", DOUBLE), ("b", DOUBLE)])
S_ff = struct("Sff", [("a", FLOAT), ("b", FLOAT)])
S_fff = struct("Sfff", [("a", FLOAT), ("b", FLOAT), ("c", FLOAT)])
S_ld = struct("Sld", [("a", LONG), ("b", DOUBLE)])
S_dl = struct("Sdl", [("a", DOUBLE), ("b", LONG)])
S_fi = struct("Sfi", [("a", FLOAT), ("b", INT)])
S_fid = struct("Sfid", [("a", FLOAT), ("b", INT), ("c", DOUBLE)])
S_c3 = struct("Sc3", [("a", (CHAR, 3))])
S_c9 = struct("Sc9", [("a", (CHAR, 9))])
S_lll = struct("Slll", [("a", LONG), ("b", LONG), ("c", LONG)])
S_L = struct("SL", [("a", LDOUBLE)])
U_ld = struct("Uld", [("a", LONG), ("b", DOUBLE)], union=True)
S_pk = struct("Spk", [("a", CHAR), ("b", DOUBLE)], packed=True)
S_nest = struct("Snest", [("s", S_ff), ("c", FLOAT)])
S_f4 = struct("Sf4", [("a", (FLOAT, 4))])
S_i = struct("Si", [("a", INT)])
S_f = struct("Sf", [("a", FLOAT)])
S_cf = struct("Scf", [("a", CHAR), ("b", FLOAT)])
S_dc = struct("Sdc", [("a", DOUBLE), ("b", CHAR)])
S_nL = struct("SnL", [("s", S_L)])                                    # X87,X87UP through a nested struct: st(0)
S_L1 = struct("SL1", [("a", (LDOUBLE, 1))])                           # ... through an array of one
U_LL = struct("ULL", [("a", LDOUBLE), ("b", LDOUBLE)], union=True)    # ... union of two long doubles
U_Ll = struct("ULl", [("a", LDOUBLE), ("b", LONG)], union=True)       # X87 merged with INTEGER: MEMORY

STRUCTS = [S_ii, S_ll, S_d, S_dd, S_ff, S_fff, S_ld, S_dl, S_fi, S_fid, S_c3, S_c9, S_lll, S_L, U_ld, S_pk, S_nest, S_f4,
           S_i, S_f, S_cf, S_dc, S_nL, S_L1, U_LL, U_Ll]
SCALARS = [INT, LONG, CHAR, FLOAT, DOUBLE, LDOUBLE, PTR]
MENU = SCALARS + STRUCTS


def vsize(ft):
    return getattr(ft, "valsize", ft.size)


def decls(types):
    seen, out = set(), ""
    for t in types:
        if t is not None and t.decl and t.cid not in seen:
            seen.add(t.cid)
            out += t.decl
    # nested declarations may repeat: dedupe lines
    lines, uniq = out.split("\n"), []
    for l in lines:
        if l and l not in uniq:
            uniq.append(l)
    return "\n".join(uniq) + "\n"


def signatures(tier):
    """parameter lists placing every menu type at every position relative to register exhaustion"""
    full = tier == "thorough"
    sigs = []
    for t in MENU:
        ks = range(0, 8) if full else (0, 4, 5, 6, 7)
        js = range(0, 10) if full else (0, 6, 7, 8, 9)
        for k in ks:
            sigs.append([INT] * k + [t])
            if k and (full or k in (5, 6)):
                sigs.append([t] + [LONG] * k)
        for j in js:
            if j:
                sigs.append([DOUBLE] * j + [t])
                if full or j in (7, 8):
                    sigs.append([t] + [DOUBLE] * j)
        for k, j in ([(4, 6), (5, 7), (6, 8), (5, 8), (6, 7)] if full else [(5, 7), (6, 8)]):
            sigs.append([INT] * k + [DOUBLE] * j + [t])
    # an aggregate around register exhaustion FOLLOWED by scalars that must still get the left-over registers
    for t in STRUCTS:
        for k in ((3, 4, 5, 6) if full else (4, 5)):
            sigs.append([LONG] * k + [t, LONG, DOUBLE])
        for j in ((5, 6, 7, 8) if full else (6, 7)):
            sigs.append([DOUBLE] * j + [t, DOUBLE, LONG])
        if full:
            sigs.append([LONG] * 5 + [DOUBLE] * 7 + [t, LONG, DOUBLE, t])
    # pairs of aggregates / mixed orders
    pairs = [(S_ll, S_dd), (S_ld, S_dl), (S_fid, S_ii), (S_lll, S_ii), (LDOUBLE, S_ll), (S_L, DOUBLE), (S_c9, S_fff), (S_ii, S_ii, S_ii, S_ii),
             (S_d, S_d, S_d, S_d, S_d, S_d, S_d, S_d, S_d), (S_ll, S_ll, S_ll, S_ll), (S_ii, S_ii, S_ii, INT, INT, PTR),
             (S_i, S_i, S_i, S_i, S_i, S_i, S_i), (S_f, S_f, S_f, S_f, S_f, S_f, S_f, S_f, S_f), (S_ld, S_ld, S_ld, S_ld, S_ld, S_ld, S_ld)]
    for p in pairs:
        sigs.append(list(p))
        sigs.append(list(reversed(p)))
    # dedupe
    out, seen = [], set()
    for s in sigs:
        k = tuple(x.cid for x in s)
        if k not in seen:
            seen.add(k)
            out.append(s)
    return out


def sigkey(sig):
    out, i = [], 0
    while i < len(sig):
        j = i
        while j < len(sig) and sig[j] is sig[i]:
            j += 1
        out.append("%s%s" % (sig[i].cid, "x%d" % (j - i) if j - i > 1 else ""))
        i = j
    return "_".join(out)


RSP_ALIGNED = lambda M: z3.Extract(3, 0, M.RSP0) == bv(8, 4)


def canon(ft, bits):
    """long double objects are assumed to hold canonical x87 encodings (they are copied through fldt/fstpt)"""
    if ft is BOOL:
        return [z3.ULE(bits, bv(1, 8))]      # a _Bool object / register image holds 0 or 1
    if ft.kind != "x87":
        return []
    e = z3.Extract(78, 64, bits)
    notnan = z3.Not(z3.And(e == bv(0x7fff, 15), z3.Extract(62, 0, bits) != bv(0, 63)))
    return [asmx.x87_canonical(bits), notnan]     # NaN payloads are not tracked by the FP theory


def disjoint(M, objs, extra_ptrs=()):
    """hypotheses: the named extern objects (symbol, size) are pairwise disjoint, do not wrap around the
    address space and lie outside this function's stack area; extra_ptrs = [(bv expr, size)] likewise."""
    items = [(M.symaddr(n), sz) for n, sz in objs] + list(extra_ptrs)
    H = []
    for i, (a, sa) in enumerate(items):
        H.append(z3.ULE(a, bv((1 << 64) - sa - 1)))
        H.append(z3.UGE(a - (M.RSP0 - bv(0x10000)), bv(0x20000)))
        for b, sb in items[i + 1:]:
            H.append(z3.And(z3.UGE(a - b, bv(sb)), z3.UGE(b - a, bv(sa))))
    return H


class CalleeProbe(e2.Probe):
    """void fn(T1 a1..Tn an) { o1 = a1; ...; on = an; }  from an arbitrary ABI entry state: every sink object ends up
    holding exactly the bytes the psABI placed for that parameter."""

    def __init__(self, key, fn, sig, ret=None):
        self.key, self.fn, self.family, self.sig, self.ret = key, fn, "callee", sig, ret
        names = ["a%d" % i for i in range(len(sig))]
        self.csrc = decls(sig + [ret]) + "".join("extern %s o%d_%s;\n" % (t.name, i, fn) for i, t in enumerate(sig))
        rt = ret.name if ret else "void"
        if ret:
            self.csrc += "extern %s rv_%s;\n" % (ret.name, fn)
        self.csrc += "%s %s(%s) { %s %s }\n" % (rt, fn, ", ".join("%s %s" % (t.name, n) for t, n in zip(sig, names)) or "void",
                                                 " ".join("o%d_%s = a%d;" % (i, fn, i) for i in range(len(sig))),
                                                 "return rv_%s;" % fn if ret else "")

    def goals(self, M, finals):
        locs, stack, nsse, hidden = place(self.sig, self.ret)
        out = []
        H0 = [RSP_ALIGNED(M)] + disjoint(M, [("o%d_%s" % (i, self.fn), t.size) for i, t in enumerate(self.sig)])
        for pi, s in enumerate(finals):
            if s.dead:
                continue
            H = H0 + s.pc
            for i, t in enumerate(self.sig):
                base = M.symaddr("o%d_%s" % (i, self.fn))
                for (off, ft), path in zip(t.fields, t.field_paths or [""]):
                    n = vsize(ft)
                    want = entry_bytes(M, locs[i], t, off, n)
                    got = s.copy().load(base + bv(off), n)
                    out.append(e2.Goal("param%d%s/p%d" % (i, path, pi), H + canon(ft, want), got == want,
                                       {"want": want, "got": got}, note="parameter %d (%s) field %s expected at %s" % (i, t.cid, path or "-", locs[i])))
            out.append(e2.Goal("frame/p%d" % pi, H, z3.And(s.regs["rsp"] == M.RSP0 + bv(8), s.regs["rbp"] == z3.BitVec("in_rbp", 64),
                                                            s.regs["rbx"] == z3.BitVec("in_rbx", 64), s.regs["r12"] == z3.BitVec("in_r12", 64),
                                                            s.regs["r13"] == z3.BitVec("in_r13", 64), s.regs["r14"] == z3.BitVec("in_r14", 64),
                                                            s.regs["r15"] == z3.BitVec("in_r15", 64))))
            if len(s.st) != (1 if abi.ret_class(self.ret) == ["X87"] else 0):
                out.append(e2.Goal("x87depth/p%d" % pi, H, z3.BoolVal(False), note="x87 depth %d at ret" % len(s.st)))
        return out

    def runtime_replay(self):
        return roundtrip_sources(self.sig, self.ret, chibicc_callee=True)


class CallerProbe(e2.Probe):
    """void fn(void) { g(a1..an); } with extern objects a_i: at the call every psABI location holds the object's bytes,
    rsp is 16-byte aligned, %al = number of vector registers used, the x87 stack is empty."""

    def __init__(self, key, fn, sig, ret=None, variadic=False):
        self.key, self.fn, self.family, self.sig, self.ret, self.variadic = key, fn, "caller", sig, ret, variadic
        self.csrc = decls(sig + [ret]) + "".join("extern %s a%d_%s;\n" % (t.name, i, fn) for i, t in enumerate(sig))
        rt = ret.name if ret else "void"
        proto = ", ".join(t.name for t in sig) or "void"
        if variadic:
            proto = "int, ..."
        self.csrc += "%s g_%s(%s);\n" % (rt, fn, proto)
        if ret:
            self.csrc += "extern %s ro_%s;\n" % (ret.name, fn)
        args = ", ".join("a%d_%s" % (i, fn) for i in range(len(sig)))
        self.csrc += "void mk_%s(void);\n" % fn
        self.csrc += "void %s(void) { mk_%s(); %sg_%s(%s); mk_%s(); }\n" % (fn, fn, "ro_%s = " % fn if ret else "", fn, args, fn)
        self.extern_ret = {"g_" + fn: self.callee_model, "mk_" + fn: self.mark_model}

    def mark_model(self, s, ev):
        """marker: clobbers caller-saved registers, leaves memory alone"""
        m = s.m
        for r in ("rax", "rcx", "rdx", "rsi", "rdi", "r8", "r9", "r10", "r11"):
            s.regs[r] = m.fresh_bv("mk_" + r)
        for i in range(16):
            s.xmm[i] = m.fresh_bv("mk_xmm%d" % i)
        s.undef_flags()

    def callee_model(self, s, ev):
        """an arbitrary psABI-conforming callee: clobbers caller-saved registers, returns arbitrary values"""
        m = s.m
        rdi_in = s.regs["rdi"]
        for r in ("rax", "rcx", "rdx", "rsi", "rdi", "r8", "r9", "r10", "r11"):
            s.regs[r] = m.fresh_bv("clob_" + r)
        for i in range(16):
            s.xmm[i] = m.fresh_bv("clob_xmm%d" % i)
        s.undef_flags()
        self.R = dict(rax=z3.BitVec("ret_rax", 64), rdx=z3.BitVec("ret_rdx", 64), xmm0=z3.BitVec("ret_xmm0", 64),
                      xmm1=z3.BitVec("ret_xmm1", 64), st0=z3.BitVec("ret_st0", 80))
        s.regs["rax"], s.regs["rdx"] = self.R["rax"], self.R["rdx"]
        s.xmm[0], s.xmm[1] = self.R["xmm0"], self.R["xmm1"]
        if self.ret is not None:
            rc = abi.ret_class(self.ret)
            if rc == ["X87"]:
                s.st.append(asmx.x87_from_bits(self.R["st0"]))
            elif rc == "MEMORY":
                # callee stores the object through the hidden pointer and returns it in rax
                for i in range(self.ret.size):
                    s.store(rdi_in + bv(i), z3.BitVec("ret_mem%d" % i, 8), 1)
                s.regs["rax"] = rdi_in

    def goals(self, M, finals):
        sig = ([INT] + self.sig) if False else self.sig
        locs, stack, nsse, hidden = place(self.sig, self.ret)
        out = []
        H0 = [RSP_ALIGNED(M)] + disjoint(M, [("a%d_%s" % (i, self.fn), t.size) for i, t in enumerate(self.sig)] +
                                         ([("ro_" + self.fn, self.ret.size)] if self.ret is not None else []))
        for pi, s in enumerate(finals):
            if s.dead:
                continue
            H = H0 + s.pc
            marks = [e for e in s.events if e.kind == "call" and e.name == "mk_" + self.fn]
            calls = [e for e in s.events if e.kind == "call" and e.name != "mk_" + self.fn]
            if len(calls) != 1 or len(marks) != 2:
                out.append(e2.Goal("onecall/p%d" % pi, H, z3.BoolVal(False), note="%d calls, %d marks" % (len(calls), len(marks))))
                continue
            ev = calls[0]
            out.append(e2.Goal("rsp-restored/p%d" % pi, H, marks[0].regs["rsp"] == marks[1].regs["rsp"],
                               note="the stack pointer after the call sequence differs from before it"))
            if len(marks[0].st) != len(marks[1].st):
                out.append(e2.Goal("x87-restored/p%d" % pi, H, z3.BoolVal(False), note="x87 depth changed across the call sequence"))
            out.append(e2.Goal("align/p%d" % pi, H, z3.Extract(3, 0, ev.regs["rsp"]) == bv(0, 4), note="rsp not 16-byte aligned at the call"))
            if len(ev.st) != 0:
                out.append(e2.Goal("x87empty/p%d" % pi, H, z3.BoolVal(False), note="x87 depth %d at call" % len(ev.st)))
            if self.variadic:
                out.append(e2.Goal("al/p%d" % pi, H, z3.And(z3.UGE(z3.Extract(7, 0, ev.regs["rax"]), bv(nsse, 8)),
                                                           z3.ULE(z3.Extract(7, 0, ev.regs["rax"]), bv(8, 8))),
                                   note="%%al must be an upper bound (<=8) on the %d vector registers used" % nsse))
            for i, t in enumerate(self.sig):
                base = M.symaddr("a%d_%s" % (i, self.fn))
                for (off, ft), path in zip(t.fields, t.field_paths or [""]):
                    n = vsize(ft)
                    bs = [z3.Select(M.M0, asmx.simp(base + bv(off + k))) for k in range(n)]
                    want = asmx.simp(z3.Concat(*reversed(bs))) if n > 1 else bs[0]
                    got = call_bytes(M, ev, locs[i], t, off, n)
                    out.append(e2.Goal("arg%d%s/p%d" % (i, path, pi), H + canon(ft, want), got == want, {"want": want, "got": got},
                                       note="argument %d (%s) field %s expected at %s" % (i, t.cid, path or "-", locs[i])))
                if locs[i][0].kind == "stack" and t.align > 8:
                    pass
            # returned value ends up in ro_
            if self.ret is not None:
                base = M.symaddr("ro_" + self.fn)
                rc = abi.ret_class(self.ret)
                ig = isse = 0
                for (off, ft), path in zip(self.ret.fields, self.ret.field_paths or [""]):
                    n = vsize(ft)
                    got = s.copy().load(base + bv(off), n)
                    if rc == "MEMORY":
                        bsw = [z3.BitVec("ret_mem%d" % (off + k), 8) for k in range(n)]
                        want = asmx.simp(z3.Concat(*reversed(bsw))) if n > 1 else bsw[0]
                    elif rc == ["X87"]:
                        want = self.R["st0"]
                        H = H + [asmx.x87_canonical(self.R["st0"])]
                    else:
                        eb = off // 8
                        regs = []
                        g_, x_ = ["rax", "rdx"], ["xmm0", "xmm1"]
                        gi = xi = 0
                        for c in rc:
                            if c == "INTEGER":
                                regs.append(g_[gi]); gi += 1
                            else:
                                regs.append(x_[xi]); xi += 1
                        lo = 8 * (off % 8)
                        want = asmx.simp(z3.Extract(lo + 8 * n - 1, lo, self.R[regs[eb]]))
                    out.append(e2.Goal("ret%s/p%d" % (path, pi), H + canon(ft, want), got == want, {"want": want, "got": got},
                                       note="returned %s field %s (class %s)" % (self.ret.cid, path or "-", rc)))
            out.append(e2.Goal("frame/p%d" % pi, H, z3.And(s.regs["rsp"] == M.RSP0 + bv(8), s.regs["rbp"] == z3.BitVec("in_rbp", 64),
                                                            s.regs["rbx"] == z3.BitVec("in_rbx", 64), s.regs["r12"] == z3.BitVec("in_r12", 64))))
        return out

    def runtime_replay(self):
        if self.variadic:
            return None
        return roundtrip_sources(self.sig, self.ret, chibicc_callee=False)


class CalleeRetProbe(e2.Probe):
    """T fn(void) { return rv; } : the psABI return registers / hidden buffer hold rv's bytes at ret."""

    def __init__(self, key, fn, ret, lead=()):
        self.key, self.fn, self.family, self.ret, self.lead = key, fn, "ret", ret, list(lead)
        self.csrc = decls([ret] + self.lead) + "extern %s rv_%s;\n" % (ret.name, fn)
        self.csrc += "".join("extern %s o%d_%s;\n" % (t.name, i, fn) for i, t in enumerate(self.lead))
        self.csrc += "%s %s(%s) { %s return rv_%s; }\n" % (ret.name, fn, ", ".join("%s a%d" % (t.name, i) for i, t in enumerate(self.lead)) or "void",
                                                           " ".join("o%d_%s = a%d;" % (i, fn, i) for i in range(len(self.lead))), fn)

    def goals(self, M, finals):
        rc = abi.ret_class(self.ret)
        locs, stack, nsse, hidden = place(self.lead, self.ret)
        out = []
        base = M.symaddr("rv_" + self.fn)
        for pi, s in enumerate(finals):
            if s.dead:
                continue
            objs = [("rv_" + self.fn, self.ret.size)] + [("o%d_%s" % (i, self.fn), t.size) for i, t in enumerate(self.lead)]
            H = [RSP_ALIGNED(M)] + s.pc + disjoint(M, objs, [(z3.BitVec("in_rdi", 64), self.ret.size)] if rc == "MEMORY" else [])
            # the global rv and the hidden buffer / sinks are distinct objects
            if rc == "MEMORY":
                rdi = z3.BitVec("in_rdi", 64)
                out.append(e2.Goal("raxptr/p%d" % pi, H, s.regs["rax"] == rdi, note="rax must return the hidden pointer"))
            for i, t in enumerate(self.lead):
                ob = M.symaddr("o%d_%s" % (i, self.fn))
                for (off, ft), path in zip(t.fields, t.field_paths or [""]):
                    n = vsize(ft)
                    out.append(e2.Goal("lead%d%s/p%d" % (i, path, pi), H + canon(ft, entry_bytes(M, locs[i], t, off, n)), s.copy().load(ob + bv(off), n) == entry_bytes(M, locs[i], t, off, n),
                                       note="parameter %d after a hidden return pointer expected at %s" % (i, locs[i])))
            if rc == ["X87"]:
                if len(s.st) != 1:
                    out.append(e2.Goal("x87depth/p%d" % pi, H, z3.BoolVal(False), note="x87 depth %d" % len(s.st)))
                    continue
                bs = [z3.Select(M.M0, asmx.simp(base + bv(k))) for k in range(10)]
                wb = asmx.simp(z3.Concat(*reversed(bs)))
                out.append(e2.Goal("st0/p%d" % pi, H + [asmx.x87_canonical(wb)], s.st[-1] == asmx.x87_from_bits(wb)))
                continue
            if len(s.st) != 0:
                out.append(e2.Goal("x87depth/p%d" % pi, H, z3.BoolVal(False), note="x87 depth %d" % len(s.st)))
            g_, x_ = ["rax", "rdx"], [0, 1]
            regs, gi, xi = [], 0, 0
            if rc != "MEMORY":
                for c in rc:
                    if c == "INTEGER":
                        regs.append(s.regs[g_[gi]]); gi += 1
                    else:
                        regs.append(s.xmm[x_[xi]]); xi += 1
            for (off, ft), path in zip(self.ret.fields, self.ret.field_paths or [""]):
                n = vsize(ft)
                bs = [z3.Select(M.M0, asmx.simp(base + bv(off + k))) for k in range(n)]
                want = asmx.simp(z3.Concat(*reversed(bs))) if n > 1 else bs[0]
                if rc == "MEMORY":
                    got = s.copy().load(z3.BitVec("in_rdi", 64) + bv(off), n)
                else:
                    lo = 8 * (off % 8)
                    got = asmx.simp(z3.Extract(lo + 8 * n - 1, lo, regs[off // 8]))
                out.append(e2.Goal("ret%s/p%d" % (path, pi), H + canon(ft, want), got == want, note="return %s field %s class %s" % (self.ret.cid, path or "-", rc)))
            out.append(e2.Goal("frame/p%d" % pi, H, z3.And(s.regs["rsp"] == M.RSP0 + bv(8), s.regs["rbp"] == z3.BitVec("in_rbp", 64))))
        return out

    def runtime_replay(self):
        probe, driver = roundtrip_sources(self.lead, self.ret, chibicc_callee=True)
        if abi.ret_class(self.ret) == "MEMORY" and not self.lead:
            # an ABI-conforming caller may use %rax (the hidden pointer handed back) after the call
            driver = driver.replace("int main(void) { return caller(); }",
                "int main(void) { int r = caller(); if (r) return r; static char buf[256]; void *got;\n"
                "  __asm__ volatile(\"mov %1, %%rdi; call callee; mov %%rax, %0\" : \"=r\"(got) : \"r\"(buf) : \"rax\", \"rdi\", \"rsi\", \"rdx\", \"rcx\", \"r8\", \"r9\", \"r10\", \"r11\", \"memory\", \"cc\");\n"
                "  return got == (void *)buf ? 0 : 60; }")
        return probe, driver


class NarrowRetProbe(e2.ScalarProbe):
    pass


# ---- run-time replay: the same signature exercised between gcc-compiled and chibicc-compiled code -------------
def field_value(i, j, ft):
    seed = (i * 7 + j * 3 + 1)
    if ft.kind == "sse":
        return "%d.5" % (seed + 10) + ("f" if ft.size == 4 else "")
    if ft.kind == "x87":
        return "%d.25L" % (seed + 20)
    if ft is BOOL:
        return "1"
    if ft.size == 1:
        return str((seed * 5) % 100 + 1)
    if ft is PTR or ft.name == "void *":
        return "(void *)0x%x" % (0x1000 + seed * 16)
    return str(1000003 * seed + 7) if ft.size == 8 else str(10007 * seed + 3)


def roundtrip_sources(sig, ret, chibicc_callee):
    """(probe for chibicc, driver for gcc). Exit status 0 iff all values arrive intact."""
    d = decls(sig + [ret])
    params = ", ".join("%s a%d" % (t.name, i) for i, t in enumerate(sig)) or "void"
    chk = ""
    for i, t in enumerate(sig):
        for j, ((off, ft), path) in enumerate(zip(t.fields, t.field_paths or [""])):
            chk += "  if (a%d%s != %s) return %d;\n" % (i, path, field_value(i, j, ft), 10 + i)
    setret = ""
    retchk = ""
    if ret is not None:
        for j, ((off, ft), path) in enumerate(zip(ret.fields, ret.field_paths or [""])):
            setret += "  r%s = %s;\n" % (path, field_value(9, j, ft))
            retchk += "  if (r%s != %s) return %d;\n" % (path, field_value(9, j, ft), 50 + j)
    rt = ret.name if ret else "int"
    junk = "  __asm__ volatile(\"mov $0x5a5a5a5a5a5a5a5a, %%rdx; movq %%rdx, %%xmm1\" ::: \"rdx\", \"xmm1\");\n"
    callee = "%s%s callee(%s) { extern int status; status = check(%s); %s r; memset(&r, 0, sizeof r);\n%s%s  return r; }\n" % (
        "", rt, params, ", ".join("a%d" % i for i in range(len(sig))), rt if ret else "int", setret, "JUNK") if ret else \
        "int callee(%s) { return check(%s); }\n" % (params, ", ".join("a%d" % i for i in range(len(sig))))
    check = "int check(%s) {\n%s  return 0;\n}\n" % (params, chk)
    inits = ""
    for i, t in enumerate(sig):
        inits += "  %s v%d; memset(&v%d, 0, sizeof v%d);\n" % (t.name, i, i, i)
        for j, ((off, ft), path) in enumerate(zip(t.fields, t.field_paths or [""])):
            if getattr(t, "union", False) and j > 0:
                continue
            inits += "  v%d%s = %s;\n" % (i, path, field_value(i, j, ft))
    args = ", ".join("v%d" % i for i in range(len(sig)))
    # after the checked call the chibicc-compiled caller repeats the call: a stack pointer that is not restored
    # after each call sequence exhausts the stack
    rep = "" if chibicc_callee else "  for (long k_ = 0; k_ < 3000000; k_++) callee(%s);\n" % args
    if ret:
        caller = "int caller(void) {\n%s  %s r = callee(%s);\n  if (status) return status;\n%s%s  return 0;\n}\n" % (inits, rt, args, retchk, rep)
    else:
        caller = "int caller(void) {\n%s  int r_ = callee(%s); if (r_) return r_;\n%s  return 0;\n}\n" % (inits, args, rep)
    pre = "#include <string.h>\n" + d + "int status;\n"
    # unions: only the first member is compared
    for t in sig:
        if getattr(t, "union", False):
            check = check.replace("a%d.b !=" % sig.index(t), "0 !=")
    proto_callee = "%s callee(%s);\n" % (rt, params)
    proto_check = "int check(%s);\n" % params
    if chibicc_callee:
        callee = callee.replace("JUNK", "")
    else:
        callee = callee.replace("JUNK", junk)     # gcc callee: registers that are not part of the return value hold junk
    if chibicc_callee:
        probe = pre.replace("int status;", "extern int status;") + check + callee.replace("extern int status; ", "")
        # make stale stack contents unlucky: the bytes just above the outgoing arguments are junk
        junk = "  char *junk = __builtin_alloca(512); memset(junk, 0x5A, 512); __asm__ volatile(\"\" :: \"r\"(junk) : \"memory\");\n"
        caller = caller.replace("int caller(void) {\n", "int caller(void) {\n" + junk, 1)
        driver = pre + proto_callee + caller + "int main(void) { return caller(); }\n"
    else:
        # argument registers hold junk before the chibicc caller sets up the call (they are caller-saved)
        scr = ("void scramble(void) { __asm__ volatile(\"mov $0x5a5a5a5a5a5a5a5a, %%rax; movq %%rax, %%xmm0; movq %%rax, %%xmm1; movq %%rax, %%xmm2; \"\n"
               "  \"movq %%rax, %%xmm3; movq %%rax, %%xmm4; movq %%rax, %%xmm5; movq %%rax, %%xmm6; movq %%rax, %%xmm7; mov %%rax, %%rdi; mov %%rax, %%rsi; \"\n"
               "  \"mov %%rax, %%rdx; mov %%rax, %%rcx; mov %%rax, %%r8; mov %%rax, %%r9\" ::: \"rax\", \"rdi\", \"rsi\", \"rdx\", \"rcx\", \"r8\", \"r9\", "
               "\"xmm0\", \"xmm1\", \"xmm2\", \"xmm3\", \"xmm4\", \"xmm5\", \"xmm6\", \"xmm7\"); }\n")
        caller2 = caller.replace("  %s r = callee(" % rt, "  scramble();\n  %s r = callee(" % rt).replace("  return callee(", "  scramble();\n  return callee(")
        probe = pre.replace("int status;", "extern int status;") + "void scramble(void);\n" + proto_callee + caller2
        driver = pre + scr + proto_check + check + callee.replace("extern int status; ", "") + "int caller(void);\nint main(void) { return caller(); }\n"
    return probe, driver


def mk_probes(tier, only=None):
    P = []
    n = [0]

    def fn():
        n[0] += 1
        return "k%d" % n[0]

    def want(f):
        return only is None or f in only

    full = tier == "thorough"
    sigs = signatures(tier)
    if want("callee"):
        for sig in sigs:
            P.append(CalleeProbe("callee/" + sigkey(sig), fn(), sig))
    if want("caller"):
        for sig in sigs:
            P.append(CallerProbe("caller/" + sigkey(sig), fn(), sig))
    if want("ret"):
        rets = MENU + [SHORT, UCHAR, BOOL, UINT]
        for t in rets:
            P.append(CalleeRetProbe("ret/callee/" + t.cid, fn(), t))
            P.append(CalleeRetProbe("ret/callee-lead/" + t.cid, fn(), t, lead=[LONG, S_ii, DOUBLE]))
            P.append(CallerProbe("ret/caller/" + t.cid, fn(), [], ret=t))
            P.append(CallerProbe("ret/caller-args/" + t.cid, fn(), [LONG, S_ll, DOUBLE, S_lll], ret=t))
            P[-1].family = P[-2].family = "ret"
        # narrow return values: the caller may not rely on the upper bits of the return register
        import cref
        for t, ct in [(CHAR, cref.CHAR), (UCHAR, cref.UCHAR), (SHORT, cref.SHORT), (BOOL, cref.BOOL), (INT, cref.INT), (UINT, cref.UINT)]:
            f = fn()
            p = NarrowCallProbe("ret/narrow/" + t.cid, f, ct)
            P.append(p)
    if want("nested"):
        P += nested_probes(fn)
    if want("variadic"):
        from c06v import variadic_probes
        P += variadic_probes(fn, full)
    return P


class NestedCallProbe(e2.Probe):
    """calls inside argument lists: every call site on the path is 16-byte aligned with an empty x87 stack, and the
    outer call receives the inner calls' results in the psABI locations."""

    def __init__(self, key, fn, proto, body, expect):
        """expect: list of (register name or ('xmm', n), inner function name) checked at the call to g_"""
        self.key, self.fn, self.family = key, fn, "nested"
        self.expect = expect
        self.csrc = proto.replace("FN", fn) + "\n" + body.replace("FN", fn) + "\n"
        self.extern_ret = {"*": "int"}
        for nm in ("hd1_", "hd2_"):
            self.extern_ret[nm + fn] = self.fp_model
        self.extern_ret["hl_" + fn] = "x87"

    def fp_model(self, s, ev):
        m = s.m
        for r in ("rax", "rcx", "rdx", "rsi", "rdi", "r8", "r9", "r10", "r11"):
            s.regs[r] = m.fresh_bv("clob_" + r)
        for i in range(16):
            s.xmm[i] = m.fresh_bv("clob_xmm%d" % i)
        s.undef_flags()
        ev.ret_xmm0 = s.xmm[0]

    def goals(self, M, finals):
        out = []
        for pi, s in enumerate(finals):
            if s.dead:
                continue
            H = [RSP_ALIGNED(M)] + s.pc
            calls = [e for e in s.events if e.kind == "call"]
            byname = {}
            for e in calls:
                byname[(e.name or "?").rsplit("_", 1)[0]] = e
                out.append(e2.Goal("align-%s/p%d" % ((e.name or "?").rsplit("_", 1)[0], pi), H, z3.Extract(3, 0, e.regs["rsp"]) == bv(0, 4),
                                   note="rsp not 16-byte aligned at the call of %s" % e.name))
                if len(e.st) != 0:
                    out.append(e2.Goal("x87-%s/p%d" % (e.name, pi), H, z3.BoolVal(False), note="x87 depth %d at the call of %s" % (len(e.st), e.name)))
            g = byname.get("g")
            if g is None:
                out.append(e2.Goal("outer/p%d" % pi, H, z3.BoolVal(False), note="outer call missing"))
                continue
            for loc, src in self.expect:
                inner = byname.get(src)
                if inner is None:
                    out.append(e2.Goal("inner-%s/p%d" % (src, pi), H, z3.BoolVal(False), note="inner call %s missing" % src))
                    continue
                if isinstance(loc, tuple) and loc[0] == "xmm":
                    got, want = g.xmm[loc[1]], inner.ret_xmm0
                elif isinstance(loc, tuple) and loc[0] == "stack":
                    got, want = g.state.copy().load(g.regs["rsp"] + bv(loc[1]), 8), inner.ret_rax
                else:
                    got, want = g.regs[loc], inner.ret_rax
                out.append(e2.Goal("arg-%s/p%d" % (src, pi), H, got == want, note="result of %s must arrive in %s of the outer call" % (src, loc)))
            out.append(e2.Goal("frame/p%d" % pi, H, z3.And(s.regs["rsp"] == M.RSP0 + bv(8), s.regs["rbp"] == z3.BitVec("in_rbp", 64))))
        return out


def nested_probes(fn):
    P = []
    PRO = "long g_FN(); long h1_FN(long); long h2_FN(long); long h3_FN(long); double hd1_FN(double); double hd2_FN(double); long double hl_FN(long);"
    shapes = [
        ("two", "long FN(long a, long b) { return g_FN(h1_FN(a), 2L, h2_FN(b)); }", [("rdi", "h1"), ("rdx", "h2")]),
        ("three", "long FN(long a) { return g_FN(h1_FN(a), h2_FN(a), h3_FN(a)); }", [("rdi", "h1"), ("rsi", "h2"), ("rdx", "h3")]),
        ("deep", "long FN(long a) { return g_FN(1L, h1_FN(h2_FN(h3_FN(a)))); }", [("rsi", "h1")]),
        ("stack7", "long FN(long a) { return g_FN(1L, 2L, 3L, 4L, 5L, 6L, h1_FN(a), h2_FN(a)); }", [(("stack", 0), "h1"), (("stack", 8), "h2")]),
        ("stack-odd", "long FN(long a) { return g_FN(1L, 2L, 3L, 4L, 5L, 6L, h1_FN(a)); }", [(("stack", 0), "h1")]),
        ("mixed-fp", "long FN(long a, double d) { return g_FN(h1_FN(a), hd1_FN(d), h2_FN(a), hd2_FN(d)); }", [("rdi", "h1"), (("xmm", 0), "hd1"), ("rsi", "h2"), (("xmm", 1), "hd2")]),
        ("in-expr", "long FN(long a, long b) { return a + g_FN(b * h1_FN(a), h2_FN(b) - 1 + 1); }", [("rsi", "h2")]),
        ("ldouble-inner", "long FN(long a) { return g_FN(h1_FN(a), (long)hl_FN(a)); }", [("rdi", "h1")]),
    ]
    for name, body, exp in shapes:
        P.append(NestedCallProbe("nested/" + name, fn(), PRO, body, exp))
    return P


class NarrowCallProbe(e2.Probe):
    """T g(void); long fn(void) { return g(); } : only the low bits of rax defined by T may be used."""

    def __init__(self, key, fn, ct):
        self.key, self.fn, self.family, self.ct = key, fn, "ret", ct
        self.csrc = "%s g_%s(void);\nlong %s(void) { return g_%s(); }\n" % (ct.name, fn, fn, fn)
        self.extern_ret = {"g_" + fn: "int"}

    def goals(self, M, finals):
        import cref
        out = []
        for pi, s in enumerate(finals):
            calls = [e for e in s.events if e.kind == "call"]
            if len(calls) != 1:
                out.append(e2.Goal("onecall", s.pc, z3.BoolVal(False)))
                continue
            r = calls[0].ret_rax
            v = z3.Extract(self.ct.bits - 1, 0, r)
            hyp = [z3.ULE(v, bv(1, 8))] if self.ct.is_bool else []
            out.append(e2.Goal("value/p%d" % pi, s.pc + hyp, s.regs["rax"] == cref.conv(v, self.ct, cref.LONG),
                               note="return value of type %s must be taken from the low %d bits only" % (self.ct.name, self.ct.bits)))
        return out


def main(tier, only=None):
    chk = vf.Check("C06", tier)
    probes = mk_probes(tier, only)
    chk.bounds += ["signatures: every menu type (7 scalars, %d struct/union shapes covering INTEGER, SSE, mixed, X87->MEMORY, >16 bytes, packed) placed after k INTEGER and j SSE "
                   "arguments for k in 0..7, j in 0..9 (%s), plus aggregate pairs; both caller and callee side separately against the psABI model"
                   % (len(STRUCTS), "all k,j" if tier == "thorough" else "k in {0,4,5,6,7}, j in {0,6,7,8,9}"),
                   "values: every argument byte symbolic (arbitrary memory / registers)",
                   "variadic: va_start image and va_arg walkers for sequences of up to 10 variadic arguments"]
    chk.outside += ["signatures with more than ~17 parameters", "__int128, _Complex, vector types (unsupported by chibicc)",
                    "padding bytes of aggregates (unspecified by the psABI)"]
    chk.assumptions += ["rsp = 8 (mod 16) at function entry (psABI)", "objects named by distinct extern symbols do not overlap",
                        "an external callee is modelled as an arbitrary psABI-conforming function"]
    chk.functions.update(["codegen.c:has_flonum", "codegen.c:push_args/push_args2/push_struct", "codegen.c:ND_FUNCALL",
                          "codegen.c:assign_lvar_offsets", "codegen.c:emit_text (prologue, store_gp/store_fp, va area)",
                          "codegen.c:copy_ret_buffer/copy_struct_reg/copy_struct_mem", "include/stdarg.h", "parse.c:__builtin_reg_class"])
    e2.run_probes(chk, probes, chunk=8)
    for p in probes[:4]:
        chk.sample(dict(key=p.key, c=p.csrc.strip()[-400:]))
    return chk.finish()


replay = vf.generic_replay
