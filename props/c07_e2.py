# C07 (E2 part): constant expressions through the whole compiler, in every syntactic position that demands a
# constant. For generated constant expressions over boundary literals of all integer types the value the
# compiler folds (static initializer image, enumerator, array bound, case label, bit-field width, _Alignas,
# #if) must equal (a) the C11 reference value (lib/cref.py on the literal values) and (b) what the emitted code
# computes when the same expression is evaluated at run time over variables holding the same values.
import os, random, z3
import vf, e2, asmx, cref
from cref import INT, UINT, LONG, ULONG, CHAR, UCHAR, SHORT, USHORT, BOOL, conv, binop, unop

LITS = {
    INT: ["0", "1", "2", "7", "31", "32", "255", "65536", "2147483647", "(-1)", "(-2147483647 - 1)", "(-128)", "0x7fffffff", "0x10", "017"],
    UINT: ["0u", "1u", "31u", "2147483648u", "4294967295u", "65535u", "0x80000000", "0xffffffff", "037777777777"],
    LONG: ["0L", "3L", "4294967296L", "9223372036854775807L", "(-9223372036854775807L - 1)", "(-4294967297L)", "63L", "0x100000000", "2147483648", "7ll", "8LL"],
    ULONG: ["1UL", "9223372036854775808UL", "18446744073709551615UL", "4294967295UL", "64UL", "0xffffffffffffffff", "0x8000000000000000", "0ull", "1ULL", "0x10ull", "5llu", "3uLL", "2lu", "6LLU"],
}
CASTS = [CHAR, UCHAR, SHORT, USHORT, INT, UINT, LONG, ULONG, BOOL]
BIN = ["+", "-", "*", "/", "%", "&", "|", "^", "<<", ">>", "<", "<=", ">", ">=", "==", "!=", "&&", "||"]
UN = ["-", "~", "!", "+"]


def litval(text, t):
    s = text.strip("()").replace(" ", "")
    py = s.rstrip("uUlL")
    if py.startswith(("0x", "0X")):
        return z3.BitVecVal(int(py, 16), t.bits)
    if len(py) > 1 and py.startswith("0") and py.isdigit():
        return z3.BitVecVal(int(py, 8), t.bits)
    if "-1" in s and s.startswith("-") and s.endswith("-1") and s.count("-") == 2:
        a = s[1:].split("-")[0].rstrip("uUlL")
        v = -int(a) - 1
    else:
        v = int(py)
    return z3.BitVecVal(v, t.bits)


class Expr:
    """(C text, C text with literals replaced by variables, variable decls, z3 value, type, defined)"""

    def __init__(self, text, vtext, decls, val, ty, defined, pp=None):
        self.text, self.vtext, self.decls, self.val, self.ty, self.defined = text, vtext, decls, val, ty, defined
        self.pp = pp          # (value, type, defined) under #if rules (every integer type acts as intmax_t/uintmax_t), None if not usable in #if


def gen_expr(rnd, depth, counter):
    if depth == 0 or rnd.random() < 0.2:
        t = rnd.choice(list(LITS))
        txt = rnd.choice(LITS[t])
        counter[0] += 1
        v = "v%d" % counter[0]
        # C11 6.10.1p4: in #if a constant has type intmax_t unless it has a u suffix or does not fit (then uintmax_t)
        lv = litval(txt, t)
        uval = z3.simplify(lv).as_long()
        wt = ULONG if ("u" in txt.lower().replace("0x", "")) or (not t.signed and t.bits == 64 and uval >= 1 << 63) else LONG
        ppv = conv(lv, t, wt) if t.signed else z3.ZeroExt(64 - t.bits, lv) if t.bits < 64 else lv
        return Expr(txt, v, ["%s %s = %s;" % (t.name, v, txt)], lv, t, z3.BoolVal(True), pp=(ppv, wt, z3.BoolVal(True)))
    k = rnd.random()
    if k < 0.6:
        op = rnd.choice(BIN)
        a, b = gen_expr(rnd, depth - 1, counter), gen_expr(rnd, depth - 1, counter)
        val, ty, d = binop(op, a.val, a.ty, b.val, b.ty)
        d = z3.And(a.defined, b.defined, d)
        if op in ("&&", "||"):
            need = (a.val != 0) if op == "&&" else (a.val == 0)
            d = z3.And(a.defined, z3.Implies(need, b.defined))
        pp = None
        if a.pp and b.pp:
            pv, pt, pd = binop(op, a.pp[0], a.pp[1], b.pp[0], b.pp[1])
            if pt.bits == 32:                     # results of relational/logical operators are intmax_t too
                pv, pt = conv(pv, pt, LONG), LONG
            pd = z3.And(a.pp[2], b.pp[2], pd)
            if op in ("&&", "||"):
                pd = z3.And(a.pp[2], z3.Implies((a.pp[0] != 0) if op == "&&" else (a.pp[0] == 0), b.pp[2]))
            pp = (pv, pt, pd)
        return Expr("(%s %s %s)" % (a.text, op, b.text), "(%s %s %s)" % (a.vtext, op, b.vtext), a.decls + b.decls, val, ty, d, pp=pp)
    if k < 0.75:
        op = rnd.choice(UN)
        a = gen_expr(rnd, depth - 1, counter)
        val, ty, d = unop(op, a.val, a.ty)
        pp = None
        if a.pp:
            pv, pt, pd = unop(op, a.pp[0], a.pp[1])
            if pt.bits == 32:
                pv, pt = conv(pv, pt, LONG), LONG
            pp = (pv, pt, z3.And(a.pp[2], pd))
        return Expr("(%s%s)" % (op, a.text), "(%s%s)" % (op, a.vtext), a.decls, val, ty, z3.And(a.defined, d), pp=pp)
    if k < 0.9:
        t = rnd.choice(CASTS)
        a = gen_expr(rnd, depth - 1, counter)
        return Expr("((%s)%s)" % (t.name, a.text), "((%s)%s)" % (t.name, a.vtext), a.decls, conv(a.val, a.ty, t), t, a.defined)
    c, a, b = gen_expr(rnd, depth - 1, counter), gen_expr(rnd, depth - 1, counter), gen_expr(rnd, depth - 1, counter)
    ty = cref.cond_type(a.ty, b.ty)
    val = z3.If(c.val != 0, conv(a.val, a.ty, ty), conv(b.val, b.ty, ty))
    d = z3.And(c.defined, z3.If(c.val != 0, a.defined, b.defined))
    pp = None
    if c.pp and a.pp and b.pp:
        pt = cref.cond_type(a.pp[1], b.pp[1])
        pp = (z3.If(c.pp[0] != 0, conv(a.pp[0], a.pp[1], pt), conv(b.pp[0], b.pp[1], pt)), pt,
              z3.And(c.pp[2], z3.If(c.pp[0] != 0, a.pp[2], b.pp[2])))
    return Expr("(%s ? %s : %s)" % (c.text, a.text, b.text), "(%s ? %s : %s)" % (c.vtext, a.vtext, b.vtext), c.decls + a.decls + b.decls, val, ty, d, pp=pp)


def sval(e, t):
    v = z3.simplify(e)
    n = v.as_long()
    if t.signed and n >= 1 << (t.bits - 1):
        n -= 1 << t.bits
    return n


class ConstProbe(e2.Probe):
    def __init__(self, key, fn, ex):
        self.key, self.fn, self.family, self.ex = key, fn, "const", ex
        self.value = sval(ex.val, ex.ty)                       # value at the expression's own type
        self.aslong = sval(conv(ex.val, ex.ty, LONG), LONG)    # converted to long (initializer of a long, return value)
        E = ex.text
        src = "long s_%s = %s;\n" % (fn, E)
        src += "long rs_%s(void) { return s_%s; }\n" % (fn, fn)
        src += "long rt_%s(void) { %s return %s; }\n" % (fn, " ".join(ex.decls), ex.vtext)
        src += "long sl_%s(void) { static long t_ = %s; return t_; }\n" % (fn, E)
        self.parts = [("static-init", "rs_" + fn, self.aslong), ("run-time", "rt_" + fn, self.aslong), ("static-local", "sl_" + fn, self.aslong)]
        if -(1 << 31) <= self.value < (1 << 31):
            src += "enum { A_%s = %s };\nlong en_%s(void) { return A_%s; }\n" % (fn, E, fn, fn)
            self.parts.append(("enumerator", "en_" + fn, self.value))
        if 1 <= self.value <= 100000:
            src += "long ab_%s(void) { return sizeof(char[%s]); }\n" % (fn, E)
            self.parts.append(("array-bound", "ab_" + fn, self.value))
            src += "long ga_%s(void) { static char g_[%s]; return sizeof(g_); }\n" % (fn, E)
            self.parts.append(("static-array-bound", "ga_" + fn, self.value))
        if 1 <= self.value <= 32:
            src += "struct B_%s { unsigned f : %s; };\nlong bw_%s(void) { struct B_%s b = {0}; b.f = -1; return b.f; }\n" % (fn, E, fn, fn)
            self.parts.append(("bit-field-width", "bw_" + fn, (1 << self.value) - 1))
        if self.value in (1, 2, 4, 8, 16):
            src += "struct A_%s { char x; _Alignas(%s) char y; };\nlong al_%s(void) { return sizeof(struct A_%s) * 100 + (long)&((struct A_%s *)0)->y; }\n" % (fn, E, fn, fn, fn)
            self.parts.append(("alignas", "al_" + fn, 200 * self.value + self.value))
        # #if: every integer type acts as intmax_t / uintmax_t (C11 6.10.1p4)
        if ex.pp is not None and z3.is_true(z3.simplify(ex.pp[2])):
            pv = sval(ex.pp[0], ex.pp[1])
            lit = ("%dL" % pv if pv > -(1 << 63) else "(-9223372036854775807L - 1)") if ex.pp[1].signed else "%dUL" % pv
            src += "#if %s == %s\nlong pe_%s(void) { return 1; }\n#else\nlong pe_%s(void) { return 0; }\n#endif\n" % (E, lit, fn, fn)
            src += "#if %s < 0\nlong pn_%s(void) { return 1; }\n#else\nlong pn_%s(void) { return 0; }\n#endif\n" % (E, fn, fn)
            self.parts.append(("#if value", "pe_" + fn, 1))
            self.parts.append(("#if sign", "pn_" + fn, 1 if (ex.pp[1].signed and pv < 0) else 0))
        # case label: dispatch on a long controlling value
        src += "long cs_%s(long x) { switch (x) { case %s: return 1; } return 0; }\n" % (fn, E)
        self.csrc = src

    def evaluate(self, P):
        out = []
        for what, f, want in self.parts:
            M = asmx.Machine(P, max_visits=8)
            fin = [s for s in M.run(f) if not s.dead]
            v = asmx.simp(fin[0].regs["rax"]) if len(fin) == 1 else None
            got = v.as_signed_long() if v is not None and z3.is_bv_value(v) else ("%d paths" % len(fin) if v is None else str(v)[:50])
            out.append((what, got, want))
        # case label: taken exactly for x == (long)value
        M = asmx.Machine(P, max_visits=8)
        fin = [s for s in M.run("cs_" + self.fn) if not s.dead]
        x = z3.BitVec("in_rdi", 64)
        ok = True
        for s in fin:
            st, _ = asmx.prove(M, s.pc, s.regs["rax"] == z3.If(x == z3.BitVecVal(self.aslong, 64), asmx.bv(1), asmx.bv(0)), timeout_ms=20000)
            ok = ok and st == "proved"
        out.append(("case-label", "taken for x == %d only" % self.aslong if ok else "wrong dispatch", "taken for x == %d only" % self.aslong))
        return out


def _one(idx):
    import time
    p = e2._PROBES[idx]
    t1 = time.time()
    res = dict(key=p.key, family="const", status="proved", detail="", secs=0.0, replay=None, nq=0)
    try:
        rc, asm, err = vf.chibicc_S(p.csrc, name="c07_%d_%s" % (os.getpid(), p.fn), builddir=e2._BUILD, want_rc=True)
        script = ("#!/bin/bash\n# constant expression `%s` : C11 value %d (as long %d)\ncat > \"$WORK/p.c\" <<'EOF_P'\n#include <stdio.h>\n%s\n"
                  "int main(void) { long want = %dL; int bad = 0;\n%s  return bad; }\nEOF_P\n"
                  "\"$CHIBICC\" -I\"$CHIBICC_INCLUDE\" -o \"$WORK/t.exe\" \"$WORK/p.c\" || exit 3\n\"$WORK/t.exe\"\n"
                  % (p.ex.text, p.value, p.aslong, p.csrc, p.aslong,
                     "".join('  if (%s() != %dL) { printf("%s: got %%ld want %dL\\n", %s()); bad = 1; }\n' % (f, w, what, w, f) for what, f, w in p.parts)))
        if rc != 0:
            res["status"] = "violated"
            res["detail"] = "chibicc rejects/crashes (rc=%s) on the constant expression `%s`: %s" % (rc, p.ex.text, err.strip()[-200:])
            res["replay"] = script
            return res
        P = asmx.Program(asm)
        bad = ["%s: compiler gives %s, C11 value %s" % (w, g, x) for w, g, x in p.evaluate(P) if g != x]
        res["nq"] = len(p.parts) + 1
        if bad:
            d = vf.subdir("c07")
            sp = os.path.join(d, "r%d.sh" % os.getpid())
            with open(sp, "w") as fh:
                fh.write(script)
            env = dict(os.environ, CHIBICC=os.path.join(e2._BUILD, "chibicc"), CHIBICC_INCLUDE=os.path.join(e2._BUILD, "include"), WORK=d)
            rc2, o, e, _ = vf.run(["bash", sp], timeout=120, env=env)
            res["replay"] = script
            if rc2 == 0 and all(not b.startswith("case-label") for b in bad):
                res["status"], res["detail"] = "mismatch", "executor: %s | native run agrees with the reference" % "; ".join(bad[:3])
            else:
                res["status"], res["detail"] = "violated", "`%s`: %s | native: %s" % (p.ex.text, "; ".join(bad[:3]), o.strip()[-150:])
    except asmx.Unmodelled as ex:
        res["status"], res["detail"] = "inconclusive", "unmodelled: %s" % ex
    except Exception as ex:
        import traceback
        res["status"], res["detail"] = "inconclusive", "error: %s %s" % (ex, traceback.format_exc()[-300:])
    res["secs"] = time.time() - t1
    return res


def run(chk, tier):
    import multiprocessing as mp
    rnd = random.Random(chk.seed * 104729 + 17)
    count = 250 if tier == "quick" else 3000
    probes = []
    tries = 0
    while len(probes) < count and tries < count * 30:
        tries += 1
        counter = [0]
        ex = gen_expr(rnd, rnd.choice([1, 2, 2, 3]), counter)
        if not z3.is_true(z3.simplify(ex.defined)):
            continue
        if ex.text.startswith("(") is False:
            continue
        try:
            probes.append(ConstProbe("const/%d" % len(probes), "q%d" % len(probes), ex))
        except Exception:
            continue
    e2._PROBES = probes
    e2._BUILD = vf.build_chibicc()
    with mp.get_context("fork").Pool(vf.NCPU) as pool:
        results = pool.map(_one, range(len(probes)), chunksize=2)
    for r in results:
        rp = chk.write_replay(r["key"], r["replay"], ext=".sh") if r["replay"] and r["status"] in ("violated", "mismatch") else None
        chk.add(r["key"], r["status"], r["detail"], r["secs"], replay=rp, family="const")
    chk.extra["solver_queries"] = chk.extra.get("solver_queries", 0) + sum(r["nq"] for r in results)
    for p in probes[:4]:
        chk.sample(dict(key=p.key, expression=p.ex.text, c11_value=p.value))
    chk.bounds.append("constant expressions (E2): %d generated expressions of depth <= 3 over boundary literals of int/unsigned/long/unsigned long, casts to all 9 integer types, all "
                      "binary/unary operators and ?:; each used as static initializer (file scope and block scope), enumerator, array bound (automatic and static), bit-field width, "
                      "_Alignas operand, case label, and evaluated at run time over variables" % len(probes))
    chk.functions.update(["parse.c:eval/eval2/const_expr/is_const_expr (via emitted code/data)", "tokenize.c:convert_pp_int (literal typing)", "parse.c:struct_members (bit-field width)",
                          "parse.c:declspec (_Alignas)", "parse.c:stmt (case)", "parse.c:enum_specifier", "parse.c:array_dimensions"])
