// Definitions of what preprocess.c imports (see pp_env.h). Include AFTER "preprocess.c".
// Hooks a harness may define before including this file:
//   VERIF_FILE_EXISTS(path)  -> bool     (default: false)
//   VERIF_TOKENIZE(file)     -> Token*   (default: one token spelling = contents)
//   VERIF_CONST_EXPR(tok)    -> long     (default: 0)
#ifndef VERIF_PP_ENV_IMPL_H
#define VERIF_PP_ENV_IMPL_H

StringArray include_paths;
char *base_file = "base.c";

// ---- tokenize.c: token predicates (same semantics as the real ones, bounded loops)
// pack a spelling of <= 7 bytes into an integer; written as straight-line expressions so that
// symbolic execution folds it in a handful of steps for string literals
static int64_t verif_spell(const char *s) {
  int64_t v = 0;
  int n = 0;
  while (n < 8 && s[n]) { v |= (int64_t)(unsigned char)s[n] << (8 * n); n++; }
  if (n > 7) return -1;       // longer spellings are not representable: no harness token has one
  return (v << 4) | n;
}
#ifdef VERIF_PACKED_SPELLING
// Harness invariant in this mode: every token carries val == verif_spell(its spelling) (set by the
// harness's token constructor; copy_token preserves it).  equal() then needs no character
// dereference through a symbolic Token pointer (which cbmc 6.11 handles very slowly).
bool equal(Token *tok, char *op) { return tok->val == verif_spell(op); }
#else
bool equal(Token *tok, char *op) {
  // tok->len == strlen(op) && bytes equal; loop bound is the (concrete) length of `op`
  int n = 0;
  bool same = true;
  for (; op[n]; n++)
    if (n < tok->len && tok->loc[n] != op[n]) same = false;
  return same && tok->len == n;
}
#endif
noreturn void error(char *fmt, ...) { verif_exit(1); }
noreturn void error_at(char *loc, char *fmt, ...) { verif_exit(1); }
noreturn void error_tok(Token *tok, char *fmt, ...) { verif_exit(1); }
static int verif_warnings;
void warn_tok(Token *tok, char *fmt, ...) { verif_warnings++; }
Token *skip(Token *tok, char *op) {
  if (!equal(tok, op)) error_tok(tok, "expected '%s'", op);
  return tok->next;
}
bool consume(Token **rest, Token *tok, char *str) {
  if (equal(tok, str)) { *rest = tok->next; return true; }
  *rest = tok;
  return false;
}
void convert_pp_tokens(Token *tok) {}
// referenced only by join_adjacent_string_literals()/read_line_marker() (not exercised): link-time stubs
Token *tokenize_string_literal(Token *tok, Type *basety) { return tok; }
Type *array_of(Type *base, int len) { return base; }
// type.c objects that preprocess.c may name (eval_const_expr retypes #if operands)
static Type verif_ty_int = {.kind = TY_INT, .size = 4, .align = 4};
static Type verif_ty_uint = {.kind = TY_INT, .size = 4, .align = 4, .is_unsigned = true};
static Type verif_ty_long = {.kind = TY_LONG, .size = 8, .align = 8};
static Type verif_ty_ulong = {.kind = TY_LONG, .size = 8, .align = 8, .is_unsigned = true};
Type *ty_int = &verif_ty_int, *ty_uint = &verif_ty_uint, *ty_long = &verif_ty_long, *ty_ulong = &verif_ty_ulong;
bool is_integer(Type *ty) {
  TypeKind k = ty->kind;
  return k == TY_BOOL || k == TY_CHAR || k == TY_SHORT || k == TY_INT || k == TY_LONG || k == TY_ENUM;
}
#ifndef VERIF_CONST_EXPR
#define VERIF_CONST_EXPR(tok) 0
#endif
int64_t const_expr(Token **rest, Token *tok) {
  long v = VERIF_CONST_EXPR(tok);
  while (tok->kind != TK_EOF) tok = tok->next;
  *rest = tok;
  return v;
}
File *new_file(char *name, int file_no, char *contents) {
  File *f = calloc(1, sizeof(File));
  f->name = name; f->display_name = name; f->file_no = file_no; f->contents = contents;
  return f;
}
static File verif_file = {.name = "dir0/in.c", .display_name = "dir0/in.c", .file_no = 1, .contents = ""};
static Token *verif_default_tokenize(File *file) {
  char *s = file->contents;
  int n = 0;
  while (n < 24 && s[n] && s[n] != '\n') n++;
  Token *t = calloc(1, sizeof(Token)), *e = calloc(1, sizeof(Token));
  t->kind = (s[0] >= '0' && s[0] <= '9') ? TK_PP_NUM : s[0] == '"' ? TK_STR : TK_IDENT;
  t->loc = s; t->len = n; t->file = file; t->next = e; t->at_bol = true;
  e->kind = TK_EOF; e->loc = s + n; e->file = file; e->at_bol = true;
  return t;
}
#ifndef VERIF_TOKENIZE
#define VERIF_TOKENIZE(file) verif_default_tokenize(file)
#endif
Token *tokenize(File *file) { return VERIF_TOKENIZE(file); }
#ifndef VERIF_TOKENIZE_FILE
#define VERIF_TOKENIZE_FILE(path) NULL
#endif
Token *tokenize_file(char *path) { return VERIF_TOKENIZE_FILE(path); }
#ifndef VERIF_FILE_EXISTS
#define VERIF_FILE_EXISTS(path) false
#endif
bool file_exists(char *path) { return VERIF_FILE_EXISTS(path); }

static char *verif_dirname(char *p) {
  int n = 0, i;
  while (n < 40 && p[n]) n++;
  i = n - 1;
  while (i > 0 && p[i] != '/') i--;
  if (i <= 0) return p[0] == '/' ? "/" : ".";
  p[i] = 0;
  return p;
}

// ---- strings.c: format() for the conversions preprocess.c uses: %s %d %.*s
char *format(char *fmt, ...) {
  char *out = calloc(1, 64);
  int j = 0;
  va_list ap;
  va_start(ap, fmt);
  for (int i = 0; i < 24 && fmt[i]; i++) {
    if (fmt[i] == '%' && fmt[i + 1] == 's') {
      char *s = va_arg(ap, char *);
      for (int k = 0; k < 24 && s[k] && j < 62; k++) out[j++] = s[k];
      i++;
    } else if (fmt[i] == '%' && fmt[i + 1] == '.' && fmt[i + 2] == '*' && fmt[i + 3] == 's') {
      int n = va_arg(ap, int);
      char *s = va_arg(ap, char *);
      for (int k = 0; k < 24 && k < n && j < 62; k++) out[j++] = s[k];
      i += 3;
    } else if (fmt[i] == '%' && fmt[i + 1] == 'd') {
      int v = va_arg(ap, int);
      if (v < 0) { out[j++] = '-'; v = -v; }
      char tmp[12]; int m = 0;
      do { tmp[m++] = '0' + v % 10; v /= 10; } while (v && m < 11);
      while (m > 0 && j < 62) out[j++] = tmp[--m];
      i++;
    } else if (j < 62)
      out[j++] = fmt[i];
  }
  va_end(ap);
  out[j] = 0;
  return out;
}

// ---- hashmap.c replaced by its specification (an association list; sound given C17).
// Keys are compared by value; they are packed into 64 bits (harness bound: keys <= 8 bytes).
#ifndef VERIF_HM_MAX
#define VERIF_HM_MAX 6
#endif
static struct { HashMap *map; uint64_t key; void *val; bool live; } verif_hm[VERIF_HM_MAX];
static uint64_t verif_pack(char *key, int keylen) {
  VASSERT(keylen >= 0 && keylen <= 8, "harness bound: hashmap keys are at most 8 bytes");
  uint64_t v = 0;
  for (int k = 0; k < 8; k++) {
    v = v << 8;                                   // (shifts, not multiplications: no multiplier circuits)
    if (k < keylen) v |= (unsigned char)key[k];
  }
  return v ^ ((uint64_t)keylen << 60);
}
static int verif_hm_find(HashMap *map, uint64_t key) {
  int r = -1;
  for (int i = VERIF_HM_MAX - 1; i >= 0; i--)
    if (verif_hm[i].live && verif_hm[i].map == map && verif_hm[i].key == key) r = i;
  return r;
}
static int verif_klen(char *k) { int n = 0; while (n < 9 && k[n]) n++; return n; }
void *hashmap_get2(HashMap *map, char *key, int keylen) {
  int i = verif_hm_find(map, verif_pack(key, keylen));
  return i < 0 ? NULL : verif_hm[i].val;
}
void *hashmap_get(HashMap *map, char *key) { return hashmap_get2(map, key, verif_klen(key)); }
void hashmap_put2(HashMap *map, char *key, int keylen, void *val) {
  uint64_t pk = verif_pack(key, keylen);
  int i = verif_hm_find(map, pk);
  if (i < 0)
    for (int k = VERIF_HM_MAX - 1; k >= 0; k--) if (!verif_hm[k].live) i = k;
  VASSERT(i >= 0, "harness bound: hashmap specification capacity");
  if (i < 0) return;
  verif_hm[i].map = map; verif_hm[i].key = pk; verif_hm[i].val = val; verif_hm[i].live = true;
}
void hashmap_put(HashMap *map, char *key, void *val) { hashmap_put2(map, key, verif_klen(key), val); }
void hashmap_delete2(HashMap *map, char *key, int keylen) {
  int i = verif_hm_find(map, verif_pack(key, keylen));
  if (i >= 0) verif_hm[i].live = false;
}
void hashmap_delete(HashMap *map, char *key) { hashmap_delete2(map, key, verif_klen(key)); }
#endif
