// C10/C09: what is a directive line?  C11 6.10p2: a `#` that (before macro replacement) is the first
// token of a line; 6.10.3.4p3: the result of macro replacement is never processed as a directive
// even if it resembles one.  The REAL preprocess2 + REAL expand_macro (object-like and function-like
// application, hide sets, append) run on small token lists (built here); symbolic: which macro is
// used, and the bit of the #if.
//   macros: E (object-like, empty), F() (function-like, empty body), N -> n, H -> #
//   h_after_empty   x M        | #if b | t | #endif | u       M in {E, F(), N, none}
//                   (a) the directive after a line that ends in an empty-expanding macro is honoured
//   h_hash_macro    H error    | u                   (b) a `#` produced by expansion starts no directive
//   h_empty_hash    E # error  | u                   a `#` that merely follows an empty macro which
//                                                    started the line starts no directive either
#define VERIF_PACKED_SPELLING 1
#define VERIF_CONST_EXPR(tok) ((tok)->val == verif_spell("1"))
static int expect_no_diag;
#define VERIF_ON_EXIT(code) VASSERT(!expect_no_diag, "no diagnostic: the input contains no live #error and no malformed directive")
#include "common.h"
#include "pp_env.h"
#include "preprocess.c"
#include "pp_env_impl.h"

struct IN_t { unsigned char which, bit; } IN;
struct IN_t nondet_IN(void);

static Token *first_tok, *last_tok;
static Token *mk(TokenKind k, char *sp, bool bol, bool space) {
  Token *t = calloc(1, sizeof(Token));
  int n = 0; while (n < 8 && sp[n]) n++;
  t->kind = k; t->loc = sp; t->len = n; t->at_bol = bol; t->has_space = space; t->file = &verif_file;
  t->val = verif_spell(sp);
  if (last_tok) last_tok->next = t; else first_tok = t;
  last_tok = t;
  return t;
}
static Token *take_list(void) { Token *f = first_tok; first_tok = last_tok = NULL; return f; }

static Macro mE, mF, mN, mH;
static void define_all(void) {
  mk(TK_EOF, "", true, false); mE = (Macro){.name = "E", .is_objlike = true, .body = take_list()};
  mk(TK_EOF, "", true, false); mF = (Macro){.name = "F", .is_objlike = false, .body = take_list()};
  mk(TK_IDENT, "n", false, true); mk(TK_EOF, "", true, false); mN = (Macro){.name = "N", .is_objlike = true, .body = take_list()};
  mk(TK_PUNCT, "#", false, true); mk(TK_EOF, "", true, false); mH = (Macro){.name = "H", .is_objlike = true, .body = take_list()};
  hashmap_put(&macros, "E", &mE); hashmap_put(&macros, "F", &mF); hashmap_put(&macros, "N", &mN); hashmap_put(&macros, "H", &mH);
}
// eval_const_expr replacement: `tok` is the `if` token; value = the operand's bit; *rest = next line
long stub_eval_const_expr(Token **rest, Token *tok) {
  *rest = tok->next->next;
  return tok->next->val == verif_spell("1");
}
// Branches of preprocess2 these inputs cannot reach are cut by stubs that ASSERT unreachability
#ifdef NATIVE
#define UNREACH(msg) do { VASSERT(0, msg); } while (0)
#else
#define UNREACH(msg) do { VASSERT(0, msg); __CPROVER_assume(0); } while (0)
#endif
char *stub_read_include_filename(Token **rest, Token *tok, bool *is_dquote) { UNREACH("no #include in these inputs"); return 0; }
void stub_read_macro_definition(Token **rest, Token *tok) { UNREACH("no #define in these inputs"); }
void stub_read_line_marker(Token **rest, Token *tok) { UNREACH("no #line in these inputs"); }

static bool out_is(Token *t, const char *sp) { return t && t->kind != TK_EOF && t->val == verif_spell(sp); }

void h_after_empty(void) {
  HAVOC_IN();
  __CPROVER_assume(IN.which <= 3 && IN.bit <= 1);
  define_all();
  for (int cc = 0; cc < 8; cc++) {        // concrete macro choice and #if bit inside each case
    if (IN.which * 2 + IN.bit != cc) continue;
    int c = cc >> 1;
    IN.bit = cc & 1;
    mk(TK_IDENT, "x", true, false);
    if (c == 0) mk(TK_IDENT, "E", false, true);
    if (c == 1) { mk(TK_IDENT, "F", false, true); mk(TK_PUNCT, "(", false, false); mk(TK_PUNCT, ")", false, false); }
    if (c == 2) mk(TK_IDENT, "N", false, true);
    mk(TK_PUNCT, "#", true, false); mk(TK_IDENT, "if", false, false); mk(TK_PP_NUM, IN.bit ? "1" : "0", false, true);
    mk(TK_IDENT, "t", true, false);
    mk(TK_PUNCT, "#", true, false); mk(TK_IDENT, "endif", false, false);
    mk(TK_IDENT, "u", true, false);
    mk(TK_EOF, "", true, false);
    Token *in = take_list();
    expect_no_diag = 1;
    Token *out = NULL;
    TRY(out = preprocess2(in));
    if (verif_diag) return;
    Token *t = out;
    VASSERT(out_is(t, "x"), "first line is emitted");
    t = t->next;
    if (c == 2) { VASSERT(out_is(t, "n"), "N expands to n"); t = t->next; }
    VASSERT(!out_is(t, "#"), "a directive after a line ending in an empty-expanding macro is still a directive");
    if (IN.bit) { VASSERT(out_is(t, "t"), "selected group is emitted"); t = t->next; }
    VASSERT(out_is(t, "u") && t->next->kind == TK_EOF, "skipped group is not emitted; text after #endif is");
    VASSERT(cond_incl == NULL, "conditional stack balanced");
    VCOVER();
    return;
  }
}

static void run_text_hash(bool via_macro) {
  HAVOC_IN();
  define_all();
  if (via_macro) mk(TK_IDENT, "H", true, false);                    // H error
  else { mk(TK_IDENT, "E", true, false); mk(TK_PUNCT, "#", false, true); }   // E # error
  mk(TK_IDENT, "error", false, true);
  mk(TK_IDENT, "u", true, false);
  mk(TK_EOF, "", true, false);
  Token *in = take_list();
  expect_no_diag = 1;
  Token *out = NULL;
  TRY(out = preprocess2(in));
  if (verif_diag) return;
  VASSERT(out_is(out, "#") && out_is(out->next, "error") && out_is(out->next->next, "u") &&
          out->next->next->next->kind == TK_EOF, "the line is ordinary text: # error u");
  VCOVER();
}
void h_hash_macro(void) { run_text_hash(true); }
void h_empty_hash(void) { run_text_hash(false); }
