// C10 (c): command-line part of the include search order.  The REAL main()/parse_args()/
// add_default_include_paths() of main.c run in -cc1 mode for concrete option shapes; the
// observable is `include_paths` as the preprocessor sees it when cc1() reads its first file.
// Expected (C10 / GCC documentation): -I directories in command-line order, then the system
// directories, then the -idirafter directories in command-line order.
static int captured;
// in cbmc mode exit() ends the path: an exit before cc1 read its first file must fail HERE
static int expect_usage;     // h_last_option: the command line is incomplete, the driver must say so and stop
#define VERIF_ON_EXIT(code) do { VASSERT(captured || (expect_usage && (code) != 0), "the driver reaches cc1's first file without a diagnostic (or, for an incomplete command line, exits non-zero)"); \
                                 if (expect_usage) VCOVER(); } while (0)      /* exit ends the path under cbmc: the vacuity witness of h_last_option sits here */
#include "common.h"
#ifndef NATIVE
#define TRY(stmt) do { stmt; } while (0)
#endif
struct IN_t { unsigned char dummy; } IN;
struct IN_t nondet_IN(void);

static bool streq(const char *a, const char *b) {
  if (!a || !b) return a == b;
  for (int i = 0; i < 40; i++) {
    if (a[i] != b[i]) return false;
    if (!a[i]) return true;
  }
  return false;
}
static char *verif_dirname(char *p) {
  int n = 0, i;
  while (n < 40 && p[n]) n++;
  i = n - 1;
  while (i > 0 && p[i] != '/') i--;
  if (i <= 0) return p[0] == '/' ? "/" : ".";
  p[i] = 0;
  return p;
}
static char *verif_format(char *fmt, ...) {
  char *out = calloc(1, 64);
  int j = 0;
  va_list ap;
  va_start(ap, fmt);
  for (int i = 0; i < 32 && fmt[i]; i++) {
    if (fmt[i] == '%' && fmt[i + 1] == 's') {
      char *s = va_arg(ap, char *);
      for (int k = 0; k < 32 && s[k]; k++) out[j++] = s[k];
      i++;
    } else
      out[j++] = fmt[i];
  }
  va_end(ap);
  return out;
}
#define atexit(f) (0)
#undef dirname
#define dirname verif_dirname
#define format verif_format
#define main chibicc_main
#include "main.c"
#undef main

static const char *const *expect;
noreturn void error(char *fmt, ...) { verif_exit(1); }
void init_macros(void) {}
void define_macro(char *name, char *buf) {}
void undef_macro(char *name) {}
char *search_include_paths(char *f) { return NULL; }
Token *preprocess(Token *t) { return t; }
File **get_input_files(void) { return NULL; }
Obj *parse(Token *t) { return NULL; }
void codegen(Obj *p, FILE *o) {}
void hashmap_test(void) {}
void join_adjacent_string_literals(Token *tok) {}
// first file read by cc1(): the include path list is final here
Token *tokenize_file(char *p) {
  captured = 1;
  int n = 0;
  while (n < 12 && expect[n]) n++;
  VASSERT(include_paths.len == n, "number of include directories");
  for (int i = 0; i < 12; i++)
    if (i < n && i < include_paths.len)
      VASSERT(streq(include_paths.data[i], expect[i]), "include search order: -I..., system..., -idirafter...");
  VCOVER();          // (exit ends the path: the vacuity witness sits here)
  verif_exit(0);
}

#define SYS "/x/include", "/usr/local/include", "/usr/include/x86_64-linux-gnu", "/usr/include"
static void run(char **argv, int argc, const char *const *exp) {
  HAVOC_IN();
  expect = exp;
  TRY(chibicc_main(argc, argv));
  VASSERT(captured, "cc1 reached its first file");
}
void h_args_I_only(void) {
  static char a0[] = "/x/cc";
  static char *argv[] = {a0, "-Ia", "-Ib", "-cc1", "-cc1-input", "x.c", "x.c", NULL};
  static const char *const exp[] = {"a", "b", SYS, NULL};
  run(argv, 7, exp);
}
// `-I dir` as two arguments (take_arg() lists -I as an option that takes an argument)
void h_args_I_separate(void) {
  static char a0[] = "/x/cc";
  static char *argv[] = {a0, "-Ia", "-I", "b", "-cc1", "-cc1-input", "x.c", "x.c", NULL};
  static const char *const exp[] = {"a", "b", SYS, NULL};
  run(argv, 8, exp);
}
void h_args_idirafter(void) {
  static char a0[] = "/x/cc";
  static char *argv[] = {a0, "-Ia", "-idirafter", "z", "-Ib", "-cc1", "-cc1-input", "x.c", "x.c", NULL};
  static const char *const exp[] = {"a", "b", SYS, "z", NULL};
  run(argv, 9, exp);
}
void h_args_idirafter2(void) {
  static char a0[] = "/x/cc";
  static char *argv[] = {a0, "-idirafter", "z1", "-idirafter", "z2", "-Ia", "-cc1", "-cc1-input", "x.c", "x.c", NULL};
  static const char *const exp[] = {"a", SYS, "z1", "z2", NULL};
  run(argv, 10, exp);
}


// C13: an option that takes an argument given as the LAST word of the command line (-DLASTOPT selects it): the real
// main()/parse_args()/take_arg() must report it (usage, exit != 0) and must not read beyond argv (argv[argc] is NULL;
// cbmc's pointer checks see a dereference of it).
#ifndef LASTOPT
#define LASTOPT "-o"
#endif
void h_last_option(void) {
  HAVOC_IN();
  static char a0[] = "/x/cc", a1[] = "-c", a2[] = "x.c", a3[] = LASTOPT;
  char **argv = malloc(5 * sizeof(char *));
  __CPROVER_assume(argv != 0);
  argv[0] = a0; argv[1] = a1; argv[2] = a2; argv[3] = a3; argv[4] = NULL;
  static const char *const none[] = {NULL};
  expect = none;
  expect_usage = 1;
  TRY(chibicc_main(4, argv));
  VASSERT(verif_diag && verif_exit_code != 0, "an option without its argument ends in a diagnostic exit");
}
