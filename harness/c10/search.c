// C10 (c): #include search order in preprocess.c.  Real search_include_paths /
// search_include_next / the `#include` branch of preprocess2 over a SYMBOLIC file system:
// file_exists() is a symbolic relation over (directory, name) pairs for NDIR include
// directories + the includer's directory and 2 file names.
#define NDIR 4
#define VERIF_FILE_EXISTS(path) verif_exists(path)
#define VERIF_HM_MAX 4
#define VERIF_PACKED_SPELLING 1
// in cbmc mode exit() ends the path: "no diagnostic" must be asserted AT the exit
static int expect_no_diag;
#define VERIF_ON_EXIT(code) VASSERT(!expect_no_diag, "no diagnostic for a well-formed #include / search")
#include "common.h"
static bool verif_exists(char *path);
#include "pp_env.h"
#include "preprocess.c"
#include "pp_env_impl.h"

struct IN_t {
  unsigned char exists[NDIR + 1][2];   // [d][n]: file n exists in include dir d; row NDIR = includer's directory
  unsigned char name, name2;           // which file is searched (0: "a", 1: "b")
  unsigned char is_dquote;
  unsigned char again;
  unsigned char stale;
} IN;
struct IN_t nondet_IN(void);

// directories are named "d0".."d3"; the includer lives in "dir0" (verif_file.name = "dir0/in.c")
static char *dirs[NDIR] = {"d0", "d1", "d2", "d3"};
static char *names[2] = {"a", "b"};
static int exists_calls;
static bool verif_exists(char *p) {
  exists_calls++;
  // parse "d<k>/<n>" or "dir0/<n>"
  if (p[0] != 'd') return false;
  if (p[1] >= '0' && p[1] < '0' + NDIR && p[2] == '/' && (p[3] == 'a' || p[3] == 'b') && p[4] == 0)
    return IN.exists[p[1] - '0'][p[3] - 'a'];
  if (p[1] == 'i' && p[2] == 'r' && p[3] == '0' && p[4] == '/' && (p[5] == 'a' || p[5] == 'b') && p[6] == 0)
    return IN.exists[NDIR][p[5] - 'a'];
  return false;
}
static bool path_is(char *p, int d, int n) {   // p == "d<d>/<n>"  (d == NDIR: "dir0/<n>")
  if (!p) return false;
  if (d == NDIR) return p[0] == 'd' && p[1] == 'i' && p[2] == 'r' && p[3] == '0' && p[4] == '/' && p[5] == 'a' + n && p[6] == 0;
  return p[0] == 'd' && p[1] == '0' + d && p[2] == '/' && p[3] == 'a' + n && p[4] == 0;
}
static int first_hit(int from, int n) {
  for (int d = 0; d < NDIR; d++) if (d >= from && IN.exists[d][n]) return d;
  return -1;
}
static void setup(void) {
  HAVOC_IN();
  for (int d = 0; d <= NDIR; d++) for (int n = 0; n < 2; n++) __CPROVER_assume(IN.exists[d][n] <= 1);
  __CPROVER_assume(IN.name <= 1 && IN.name2 <= 1 && IN.is_dquote <= 1 && IN.again <= 1);
  include_paths.data = dirs; include_paths.len = NDIR; include_paths.capacity = NDIR;
  expect_no_diag = 1;
}

// search_include_paths(n) = first directory in command-line order that has n; include_next_idx
// points just behind it; a following search_include_next(n2) = first hit behind that directory.
void h_search_order(void) {
  setup();
  int n = IN.name;
  char *p = search_include_paths(names[n]);
  int want = first_hit(0, n);
  if (want < 0) VASSERT(p == NULL, "not found anywhere: NULL");
  else {
    VASSERT(path_is(p, want, n), "search_include_paths returns the first directory in order that has the file");
    VASSERT(include_next_idx == want + 1, "include_next_idx is just behind the directory of the hit");
    int n2 = IN.name2;
    char *q = search_include_next(names[n2]);
    int want2 = first_hit(want + 1, n2);
    if (want2 < 0) VASSERT(q == NULL, "include_next: no later directory has the file: NULL");
    else {
      VASSERT(path_is(q, want2, n2), "search_include_next continues behind the directory of the current file");
      // a chain: the file just found contains #include_next of the same name again -> strictly later directory
      // (otherwise three same-named headers chained with #include_next recurse for ever)
      char *r = search_include_next(names[n2]);
      int want3 = first_hit(want2 + 1, n2);
      if (want3 < 0) VASSERT(r == NULL, "include_next chain: no later directory has the file: NULL");
      else VASSERT(path_is(r, want3, n2), "include_next chain: the second #include_next finds the NEXT directory, not the same file again");
    }
  }
  VCOVER();
}

// The include cache must not change answers: second search of the same name = first answer,
// and include_next_idx is again just behind the directory of that hit (it is what a following
// #include_next in the re-included file uses).
void h_search_cache(void) {
  setup();
  int n = IN.name, n2 = IN.name2;
  char *p1 = search_include_paths(names[n]);
  char *p2 = search_include_paths(names[n2]);   // another (or the same) header in between
  char *p3 = search_include_paths(names[n]);
  int want = first_hit(0, n);
  if (want < 0) VASSERT(p3 == NULL, "not found: NULL on every search");
  else {
    VASSERT(path_is(p3, want, n), "cached answer equals the uncached answer");
    VASSERT(include_next_idx == want + 1, "after a cached hit include_next_idx is behind the directory of THAT hit");
  }
  VCOVER();
}

// `#include "n"` / `#include <n>` through the real preprocess2: the file handed to include_file
// is the first hit in (includer's directory for the "" form only, then the include path order);
// include_file is cut to record the path.
static char *included_path;
static char *included_paths[3];
static int include_calls;
Token *stub_include_file(Token *tok, char *path, Token *filename_tok) { included_path = path; if (include_calls < 3) included_paths[include_calls] = path; include_calls++; return tok; }
bool stub_expand_macro(Token **rest, Token *tok) { return false; }

static Token *first_tok, *last_tok;
static Token *mk(TokenKind k, char *sp, int len, bool bol, bool space) {
  Token *t = calloc(1, sizeof(Token));
  t->kind = k; t->loc = sp; t->len = len; t->at_bol = bol; t->has_space = space; t->file = &verif_file;
  t->val = verif_spell(sp);
  if (last_tok) last_tok->next = t; else first_tok = t;
  last_tok = t;
  return t;
}
static void run_include(bool dquote) {
  setup();
  int n = 0;                      // file "a" (the relation is symmetric in the two names)
  mk(TK_PUNCT, "#", 1, true, false);
  mk(TK_IDENT, "include", 7, false, false);
  if (dquote)
    mk(TK_STR, "\"a\"", 3, false, true);
  else {
    mk(TK_PUNCT, "<", 1, false, true);
    mk(TK_IDENT, "a", 1, false, false);
    mk(TK_PUNCT, ">", 1, false, false);
  }
  mk(TK_EOF, "", 0, true, false);
  Token *out = NULL;
  expect_no_diag = 1;
  TRY(out = preprocess2(first_tok));
  if (verif_diag) return;
  VASSERT(include_calls == 1, "exactly one file is included");
  int want = first_hit(0, n);
  if (dquote && IN.exists[NDIR][n])
    VASSERT(path_is(included_path, NDIR, n), "\"\" form: the includer's directory is searched first");
  else if (want >= 0)
    VASSERT(path_is(included_path, want, n), "then the include directories in command-line order");
  else
    VASSERT(included_path[0] == 'a' + n && included_path[1] == 0, "not found: the bare name is passed on (and fails to open)");
  VCOVER();
}
void h_include_dquote(void) { run_include(true); }

// The SAME spelling `#include "a"` in two files that live in different directories: each is resolved relative to
// ITS includer first (dir0/in.c, then d1/x.c whose directory is also include directory 1), then along the include path.
static File file2 = {.name = "d1/x.c", .display_name = "d1/x.c", .file_no = 2, .contents = ""};
void h_include_dquote_two_includers(void) {
  setup();
  mk(TK_PUNCT, "#", 1, true, false); mk(TK_IDENT, "include", 7, false, false); mk(TK_STR, "\"a\"", 3, false, true);
  Token *h2 = mk(TK_PUNCT, "#", 1, true, false);
  Token *i2 = mk(TK_IDENT, "include", 7, false, false);
  Token *s2 = mk(TK_STR, "\"a\"", 3, false, true);
  h2->file = i2->file = s2->file = &file2;
  mk(TK_EOF, "", 0, true, false);
  Token *out = NULL;
  expect_no_diag = 1;
  TRY(out = preprocess2(first_tok));
  if (verif_diag) return;
  VASSERT(include_calls == 2, "two files are included");
  int want = first_hit(0, 0);
  if (IN.exists[NDIR][0]) VASSERT(path_is(included_paths[0], NDIR, 0), "first includer (dir0): its own directory first");
  else if (want >= 0) VASSERT(path_is(included_paths[0], want, 0), "first includer: then the include path");
  if (IN.exists[1][0]) VASSERT(path_is(included_paths[1], 1, 0), "second includer (d1/x.c): ITS directory first, whatever an earlier include of the same spelling resolved to");
  else if (want >= 0) VASSERT(path_is(included_paths[1], want, 0), "second includer: then the include path");
  else VASSERT(included_paths[1][0] == 'a' && included_paths[1][1] == 0, "not found: the bare name is passed on");
  VCOVER();
}
void h_include_angle(void) { run_include(false); }

// `#include_next <a>` inside the header d1/a: the search continues after directory 1 - the directory of the file that
// contains the directive - whatever the global search position was left at by other includes in between (symbolic).
static File file_d1a = {.name = "d1/a", .display_name = "d1/a", .file_no = 3, .contents = ""};
static void include_next_from(File *cur, int from) {
  setup();
  __CPROVER_assume(IN.stale <= NDIR);
  include_next_idx = IN.stale;                       // left behind by some nested #include
  Token *h = mk(TK_PUNCT, "#", 1, true, false);
  Token *kw = mk(TK_IDENT, "include_next", 12, false, false);
  Token *lt = mk(TK_PUNCT, "<", 1, false, true);
  Token *nm = mk(TK_IDENT, "a", 1, false, false);
  Token *gt = mk(TK_PUNCT, ">", 1, false, false);
  h->file = kw->file = lt->file = nm->file = gt->file = cur;
  mk(TK_EOF, "", 0, true, false);
  Token *out = NULL;
  expect_no_diag = 1;
  TRY(out = preprocess2(first_tok));
  if (verif_diag) return;
  VASSERT(include_calls == 1, "one file is included");
  int want = first_hit(from, 0);
  if (want >= 0) VASSERT(path_is(included_path, want, 0), "#include_next: first directory AFTER the one the current file was found in (from the first one if the file was not found through the include path)");
  else VASSERT(included_path[0] == 'a' && included_path[1] == 0, "no later directory has it: the bare name is passed on (and fails to open)");
  VCOVER();
}
void h_include_next_after_nested(void) { include_next_from(&file_d1a, 2); }
// The file with the directive does NOT live in an include directory (the primary source file, or - as here - a
// directory "d1x" whose name merely starts like the include directory "d1"): there is no "directory of the current
// file" to continue after, the whole list is searched (gcc does the same), whatever the global position was.
static File file_d1xa = {.name = "d1x/a", .display_name = "d1x/a", .file_no = 4, .contents = ""};
void h_include_next_outside(void) { include_next_from(&file_d1xa, 0); }
