// C10 (a): conditional inclusion.  The REAL preprocess2 / skip_cond_incl / skip_cond_incl2 /
// skip_line / push_cond_incl of preprocess.c run over a SYMBOLIC directive sequence of NITEMS
// lines, built as real Token lists (no tokenizer).  Line alphabet:
//   #if b | #ifdef N | #ifndef N | #elif b | #else | #endif | text_i      (b, N symbolic)
// optionally with one trailing junk token on #ifdef/#ifndef/#else/#endif lines.
// eval_const_expr is cut (--replace-calls) to return the bit embedded in the token (its
// arithmetic belongs to C07).  Reference: C11 6.10.1 group selection, written over the
// line array (not over tokens).
//
// Cost control (compositional, both halves use the REAL code against one shared contract):
//   h_skip_*      real skip_cond_incl(+2) from any line inside a group  == spec_skip()
//   h_select_*    real preprocess2 with skip_cond_incl replaced by spec_skip()
//   h_mono_*      real preprocess2 + real skip_cond_incl*, smaller bound (cross-check)
#ifndef NITEMS
#define NITEMS 6
#endif
#ifndef MAXNEST
#define MAXNEST 3
#endif
static int expect_no_diag;
#define VERIF_ON_EXIT(code) VASSERT(!expect_no_diag, "no diagnostic on a well-formed directive sequence")
#include "common.h"
#include "pp_env.h"
#include "preprocess.c"
#include "pp_env_impl.h"

enum { I_IF, I_IFDEF, I_IFNDEF, I_ELIF, I_ELSE, I_ENDIF, I_TEXT, I_NKINDS };
struct IN_t {
  struct { unsigned char kind, bit, name, junk; } it[NITEMS];
  unsigned char defined[2];
  unsigned char start;
} IN;
struct IN_t nondet_IN(void);

// ---------------------------------------------------------------- token construction
// Every line occupies exactly 3 tokens of ONE array with fixed `next` links (keeps pointer
// reasoning linear): directives shorter than 3 tokens are followed by a null directive `#`
// (C11 6.10.7) or by the junk token; a text line is `t_i u u`.  Sequences shorter than NITEMS
// lines are covered because text lines are neutral.
// all spellings live in ONE char object (single-object pointers keep cbmc's dereferencing linear)
enum { O_HASH = 0, O_IF = 2, O_IFDEF = 5, O_IFNDEF = 11, O_ELIF = 18, O_ELSE = 23, O_ENDIF = 28, O_0 = 34, O_1 = 36,
       O_X = 38, O_Y = 40, O_J = 42, O_U = 44, O_TEXT = 46 };
static char pool[O_TEXT + 3 * NITEMS + 1] = "#\0if\0ifdef\0ifndef\0elif\0else\0endif\0" "0\0" "1\0X\0Y\0J\0u\0";
#define sp_J (pool + O_J)
#define sp_X (pool + O_X)
#define sp_Y (pool + O_Y)
#define NTOK (3 * NITEMS)
static Token toks[NTOK + 1];    // toks[NTOK] is EOF
#define eof_tok toks[NTOK]

static void mk(Token *t, TokenKind k, int off, int len, bool bol) {
  t->kind = k; t->loc = pool + off; t->len = len; t->at_bol = bol; t->has_space = !bol; t->next = t + 1;
  t->file = &verif_file; t->line_no = 1;
}

static Token *build(void) {
  eof_tok.kind = TK_EOF; eof_tok.loc = pool + 1; eof_tok.len = 0; eof_tok.at_bol = true; eof_tok.file = &verif_file;
  for (int i = 0; i < NITEMS; i++) {
    int kind = IN.it[i].kind;
    bool junk = IN.it[i].junk;
    Token *t = &toks[3 * i];
    pool[O_TEXT + 3 * i] = 't'; pool[O_TEXT + 3 * i + 1] = '0' + i; pool[O_TEXT + 3 * i + 2] = 0;
    if (kind == I_TEXT) {
      mk(t, TK_IDENT, O_TEXT + 3 * i, 2, true);
      mk(t + 1, TK_IDENT, O_U, 1, false);
      mk(t + 2, TK_IDENT, O_U, 1, false);
    } else {
      mk(t, TK_PUNCT, O_HASH, 1, true);
      if (kind == I_IF || kind == I_ELIF) {
        mk(t + 1, TK_IDENT, kind == I_IF ? O_IF : O_ELIF, kind == I_IF ? 2 : 4, false);
        mk(t + 2, TK_PP_NUM, IN.it[i].bit ? O_1 : O_0, 1, false);
        t[2].val = IN.it[i].bit;
      } else if (kind == I_IFDEF || kind == I_IFNDEF) {
        // (a junk token after the operand would need a 4th slot: junk is only modelled on #else/#endif)
        mk(t + 1, TK_IDENT, kind == I_IFDEF ? O_IFDEF : O_IFNDEF, kind == I_IFDEF ? 5 : 6, false);
        mk(t + 2, TK_IDENT, IN.it[i].name ? O_Y : O_X, 1, false);
      } else {
        mk(t + 1, TK_IDENT, kind == I_ELSE ? O_ELSE : O_ENDIF, kind == I_ELSE ? 4 : 5, false);
        if (junk) mk(t + 2, TK_IDENT, O_J, 1, false);
        else mk(t + 2, TK_PUNCT, O_HASH, 1, true);      // null directive line
      }
    }
  }
  return &toks[0];
}

// eval_const_expr replacement: `tok` is the if/elif token; value = bit carried by the operand;
// *rest = first token of the next line (what copy_line does)
long stub_eval_const_expr(Token **rest, Token *tok) {
  Token *t = tok->next;
  long v = t->val;
  for (int i = 0; i < 3 && !t->at_bol; i++) t = t->next;
  *rest = t;
  return v;
}

// Branches of preprocess2 that the line alphabet cannot reach are cut by stubs that ASSERT
// unreachability (so the cut is checked, not assumed); they would otherwise drag the recursive
// macro/#include machinery (C09's subject) into every query.
#ifdef NATIVE
#define UNREACH(msg) do { VASSERT(0, msg); } while (0)
#else
#define UNREACH(msg) do { VASSERT(0, msg); __CPROVER_assume(0); } while (0)
#endif
bool stub_expand_macro(Token **rest, Token *tok) {
  if (tok->kind == TK_IDENT && (tok->loc == sp_X || tok->loc == sp_Y))
    UNREACH("macro names occur only as #ifdef/#ifndef operands in this alphabet");
  return false;
}
char *stub_read_include_filename(Token **rest, Token *tok, bool *is_dquote) { UNREACH("no #include in this alphabet"); return 0; }
void stub_read_macro_definition(Token **rest, Token *tok) { UNREACH("no #define in this alphabet"); }
void stub_read_line_marker(Token **rest, Token *tok) { UNREACH("no #line in this alphabet"); }

// ---------------------------------------------------------------- reference (C11 6.10.1)
static bool cond_of(int i) {
  int k = IN.it[i].kind;
  if (k == I_IF || k == I_ELIF) return IN.it[i].bit;
  bool d = IN.defined[IN.it[i].name];
  return k == I_IFDEF ? d : !d;
}
static int ref_emit[NITEMS], ref_n;
static int depth_before[NITEMS + 1];   // nesting depth before line i
// returns well-formedness; fills ref_emit with the indices of the text lines that are selected
static bool reference(void) {
  bool par[MAXNEST], taken[MAXNEST], cur[MAXNEST], els[MAXNEST];
  int d = 0;
  ref_n = 0;
  for (int i = 0; i < NITEMS; i++) {
    depth_before[i] = d;
    int k = IN.it[i].kind;
    bool act = d == 0 || (par[d - 1] && cur[d - 1]);
    if (k == I_IF || k == I_IFDEF || k == I_IFNDEF) {
      if (d == MAXNEST) return false;
      bool c = cond_of(i);
      par[d] = act; taken[d] = c; cur[d] = c; els[d] = false;
      d++;
    } else if (k == I_ELIF) {
      if (d == 0 || els[d - 1]) return false;
      cur[d - 1] = !taken[d - 1] && cond_of(i);
      if (cur[d - 1]) taken[d - 1] = true;
    } else if (k == I_ELSE) {
      if (d == 0 || els[d - 1]) return false;
      els[d - 1] = true;
      cur[d - 1] = !taken[d - 1];
      taken[d - 1] = true;
    } else if (k == I_ENDIF) {
      if (d == 0) return false;
      d--;
    } else {
      if (act) ref_emit[ref_n++] = i;
    }
  }
  depth_before[NITEMS] = d;
  return d == 0;
}

static void assume_shape(bool allow_junk) {
  for (int i = 0; i < NITEMS; i++) {
    __CPROVER_assume(IN.it[i].kind < I_NKINDS && IN.it[i].bit <= 1 && IN.it[i].name <= 1 && IN.it[i].junk <= 1);
    int k = IN.it[i].kind;
    if (!allow_junk || (k != I_ELSE && k != I_ENDIF)) __CPROVER_assume(IN.it[i].junk == 0);
  }
  __CPROVER_assume(IN.defined[0] <= 1 && IN.defined[1] <= 1);
}
static Macro dummy_macro = {.name = "X", .is_objlike = true};
static void define_names(void) {
  if (IN.defined[0]) hashmap_put(&macros, "X", &dummy_macro);
  if (IN.defined[1]) hashmap_put(&macros, "Y", &dummy_macro);
}

// ---------------------------------------------------------------- contract of skip_cond_incl
// From a token of line s (first token: scan from s; later token: rest of the line is skipped,
// scan from s+1): first #elif/#else/#endif at nesting level 0, or EOF.
static Token *spec_skip_from(int s) {
  int d = 0;
  for (int k = 0; k < NITEMS; k++) {
    if (k < s) continue;
    int kind = IN.it[k].kind;
    if (kind == I_IF || kind == I_IFDEF || kind == I_IFNDEF) d++;
    else if (kind == I_ENDIF) { if (d == 0) return &toks[3 * k]; d--; }
    else if ((kind == I_ELIF || kind == I_ELSE) && d == 0) return &toks[3 * k];
  }
  return &eof_tok;
}
Token *spec_skip(Token *tok) {
  int idx = tok - toks;
  VASSERT(idx >= 0 && idx <= NTOK, "skip_cond_incl is called on a token of the input");
  if (idx >= NTOK) return &eof_tok;
  // a null-directive `#` in slot 2 is its own line: scanning from it == scanning from the next line
  return spec_skip_from(idx % 3 == 0 ? idx / 3 : idx / 3 + 1);
}

static void check_output(Token *out) {
  Token *t = out;
  for (int k = 0; k < NITEMS + 1; k++) {
    if (t->kind == TK_EOF) { VASSERT(k == ref_n, "all selected text lines are emitted"); return; }
    if (t->loc == sp_J) {
      VASSERT(0, "trailing tokens on a directive line are never emitted");
      return;
    }
    VASSERT(k < ref_n, "no text of a skipped group (and no directive token) is emitted");
    if (k >= ref_n) return;
    int idx = t - toks;
    VASSERT(idx == 3 * ref_emit[k], "emitted text lines are exactly the C11 6.10.1 selection, in order");
    if (idx != 3 * ref_emit[k]) return;
    VASSERT(t->next == t + 1 && t->next->next == t + 2, "a selected text line is emitted whole");
    t = (t + 2)->next;
  }
  VASSERT(0, "output longer than the input");
}

static void run_select(bool allow_junk) {
  HAVOC_IN();
  assume_shape(allow_junk);
  bool wf = reference();
  __CPROVER_assume(wf);
  define_names();
  Token *in = build();
  expect_no_diag = 1;
  Token *out = NULL;
  TRY(out = preprocess2(in));
  if (verif_diag) return;
  VASSERT(cond_incl == NULL, "conditional stack empty after a balanced sequence");
  check_output(out);
  VCOVER();
}
// real preprocess2; skip_cond_incl -> spec_skip and eval_const_expr -> stub (via --replace-calls)
void h_select(void) { run_select(false); }
void h_select_junk(void) { run_select(true); }
// monolithic: only eval_const_expr is cut
void h_mono(void) { run_select(false); }
void h_mono_junk(void) { run_select(true); }

// real skip_cond_incl(+2) from any token position that preprocess2 can hand it (first token of
// a line, or the junk token where the pinned skip_line leaves the cursor), inside a group
void h_skip(void) {
  HAVOC_IN();
  assume_shape(true);
  bool wf = reference();
  __CPROVER_assume(wf);
  build();
  int s = IN.start & 7;
  bool at_junk = IN.start >> 7;
  __CPROVER_assume(s < NITEMS);
  if (at_junk) __CPROVER_assume(IN.it[s].junk);
  int from = at_junk ? s + 1 : s;
  __CPROVER_assume(depth_before[from] >= 1);
  expect_no_diag = 1;
  Token *got = skip_cond_incl(&toks[3 * s + (at_junk ? 2 : 0)]);
  VASSERT(got == spec_skip_from(from), "skip_cond_incl stops at the matching #elif/#else/#endif of the current group");
  VCOVER();
}
