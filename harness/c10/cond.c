// C10 (a): conditional inclusion.  The REAL preprocess2 / skip_cond_incl / skip_cond_incl2 /
// skip_line / push_cond_incl of preprocess.c run over real Token lists (built here, no tokenizer).
//
// Shape: a directive skeleton of D<=7 conditional directives (every well-formed sequence over
//   O = group opener, L = #elif, S = #else, E = #endif, nesting <= 3: enumerated exhaustively in
//   skeletons.inc, one harness function each) with a distinct text line t_i before, between and
//   after all directives.
// Symbolic per directive: opener flavour (#if b | #ifdef N | #ifndef N), the controlling bit b of
//   #if/#elif, the name N in {X,Y}; symbolic: which of X,Y are defined.
// h_junk_*: every #ifdef/#ifndef/#else/#endif line additionally carries a trailing token `J`.
// eval_const_expr is cut (--replace-calls) to return the bit carried by the operand token (its
// arithmetic belongs to C07).  Reference: C11 6.10.1 group selection over the line array.
static int expect_no_diag;
#define VERIF_ON_EXIT(code) VASSERT(!expect_no_diag, "no diagnostic on a well-formed directive sequence")
#include "common.h"
#include "pp_env.h"
#include "preprocess.c"
#include "pp_env_impl.h"

#define MAXD 7
#define MAXNEST 3
enum { F_IF, F_IFDEF, F_IFNDEF };
struct IN_t {
  struct { unsigned char flavour, bit, name; } d[MAXD];
  unsigned char defined[2];
} IN;
struct IN_t nondet_IN(void);

// ---------------------------------------------------------------- token construction
static char sp_text[MAXD + 1][3];
#define NTOK (4 * MAXD + MAXD + 1)
static Token toks[NTOK + 1];
static int ntok;
static Token *text_tok[MAXD + 1];
static char sp_J[] = "J";

static Token *mk(TokenKind k, char *sp, int len, bool bol) {
  Token *t = &toks[ntok++];
  t->kind = k; t->loc = sp; t->len = len; t->at_bol = bol; t->has_space = !bol; t->next = t + 1;
  t->file = &verif_file; t->line_no = 1;
  return t;
}
static void mk_text(int i) {
  sp_text[i][0] = 't'; sp_text[i][1] = '0' + i; sp_text[i][2] = 0;
  text_tok[i] = mk(TK_IDENT, sp_text[i], 2, true);
}

static Token *build(const char *sk, int D, bool junk) {
  ntok = 0;
  for (int i = 0; i < MAXD; i++) {
    if (i >= D) continue;
    mk_text(i);
    mk(TK_PUNCT, "#", 1, true);
    char c = sk[i];
    if (c == 'O' && IN.d[i].flavour == F_IF) {
      mk(TK_IDENT, "if", 2, false);
      mk(TK_PP_NUM, IN.d[i].bit ? "1" : "0", 1, false)->val = IN.d[i].bit;
      if (junk) mk(TK_PUNCT, "#", 1, true);     // null directive: keeps token positions independent of the flavour
    } else if (c == 'O') {
      if (IN.d[i].flavour == F_IFDEF) mk(TK_IDENT, "ifdef", 5, false);
      else mk(TK_IDENT, "ifndef", 6, false);
      mk(TK_IDENT, IN.d[i].name ? "Y" : "X", 1, false);
      if (junk) mk(TK_IDENT, sp_J, 1, false);
    } else if (c == 'L') {
      mk(TK_IDENT, "elif", 4, false);
      mk(TK_PP_NUM, IN.d[i].bit ? "1" : "0", 1, false)->val = IN.d[i].bit;
    } else {
      mk(TK_IDENT, c == 'S' ? "else" : "endif", c == 'S' ? 4 : 5, false);
      if (junk) mk(TK_IDENT, sp_J, 1, false);
    }
  }
  mk_text(D);
  Token *e = mk(TK_EOF, "", 0, true);
  e->next = NULL;
  return &toks[0];
}

// eval_const_expr replacement: `tok` is the if/elif token; value = bit carried by the operand;
// *rest = first token of the next line (what copy_line does)
long stub_eval_const_expr(Token **rest, Token *tok) {
  Token *t = tok->next;
  long v = t->val;
  for (int i = 0; i < 3 && !t->at_bol; i++) t = t->next;
  *rest = t;
  return v;
}
// Branches of preprocess2 that this alphabet cannot reach are cut by stubs that ASSERT
// unreachability (the cut is checked, not assumed); they would otherwise drag the recursive
// macro/#include machinery (C09's subject) into every query.
#ifdef NATIVE
#define UNREACH(msg) do { VASSERT(0, msg); } while (0)
#else
#define UNREACH(msg) do { VASSERT(0, msg); __CPROVER_assume(0); } while (0)
#endif
static Macro dummy_macro = {.name = "X", .is_objlike = true};
bool stub_expand_macro(Token **rest, Token *tok) {
  if (tok->kind == TK_IDENT && tok->len == 1 && (tok->loc[0] == 'X' || tok->loc[0] == 'Y'))
    UNREACH("macro names occur only as #ifdef/#ifndef operands in this alphabet");
  return false;
}
char *stub_read_include_filename(Token **rest, Token *tok, bool *is_dquote) { UNREACH("no #include in this alphabet"); return 0; }
void stub_read_macro_definition(Token **rest, Token *tok) { UNREACH("no #define in this alphabet"); }
void stub_read_line_marker(Token **rest, Token *tok) { UNREACH("no #line in this alphabet"); }

// ---------------------------------------------------------------- reference (C11 6.10.1)
static bool cond_of(const char *sk, int i) {
  if (sk[i] == 'L' || IN.d[i].flavour == F_IF) return IN.d[i].bit;
  bool d = IN.defined[IN.d[i].name];
  return IN.d[i].flavour == F_IFDEF ? d : !d;
}
static bool ref_sel[MAXD + 1];    // is text line i selected?
static void reference(const char *sk, int D) {
  bool par[MAXNEST + 1], taken[MAXNEST + 1], cur[MAXNEST + 1];
  int d = 0;
  for (int i = 0; i <= MAXD; i++) {
    if (i > D) continue;
    ref_sel[i] = d == 0 || (par[d - 1] && cur[d - 1]);
    if (i == D) break;
    char c = sk[i];
    if (c == 'O') {
      bool v = cond_of(sk, i);
      par[d] = ref_sel[i]; taken[d] = v; cur[d] = v;
      d++;
    } else if (c == 'L') {
      cur[d - 1] = !taken[d - 1] && cond_of(sk, i);
      if (cur[d - 1]) taken[d - 1] = true;
    } else if (c == 'S') {
      cur[d - 1] = !taken[d - 1];
      taken[d - 1] = true;
    } else
      d--;
  }
}

static void run(const char *sk, bool junk) {
  int D = 0;
  while (D < MAXD && sk[D]) D++;
  HAVOC_IN();
  for (int i = 0; i < MAXD; i++)
    __CPROVER_assume(IN.d[i].flavour <= F_IFNDEF && IN.d[i].bit <= 1 && IN.d[i].name <= 1);
  __CPROVER_assume(IN.defined[0] <= 1 && IN.defined[1] <= 1);
  reference(sk, D);
  if (IN.defined[0]) hashmap_put(&macros, "X", &dummy_macro);
  if (IN.defined[1]) hashmap_put(&macros, "Y", &dummy_macro);
  Token *in = build(sk, D, junk);
  expect_no_diag = 1;
  Token *out = NULL;
  TRY(out = preprocess2(in));
  if (verif_diag) return;
  VASSERT(cond_incl == NULL, "conditional stack empty after a balanced sequence");
  // emitted tokens == selected text lines, in order
  Token *t = out;
  for (int i = 0; i <= MAXD; i++) {
    if (i > D) continue;
    if (t->kind != TK_EOF && t->loc == sp_J) break;
    if (ref_sel[i]) {
      VASSERT(t == text_tok[i], "every selected text line is emitted, in order, and nothing else");
      if (t != text_tok[i]) return;
      t = t->next;
    }
  }
  if (t->kind != TK_EOF && t->loc == sp_J)
    VASSERT(0, "trailing tokens on a directive line are never emitted");
  else
    VASSERT(t->kind == TK_EOF, "no text of a skipped group and no directive token is emitted");
  VCOVER();
}

#define SK(s) void h_sel_##s(void) { run(#s, false); } void h_junk_##s(void) { run(#s, true); }
#include "skeletons.inc"
