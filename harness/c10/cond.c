// C10 (a): conditional inclusion.  The REAL preprocess2 / skip_cond_incl / skip_cond_incl2 /
// skip_line / push_cond_incl of preprocess.c run over a SYMBOLIC directive sequence of NITEMS
// lines, built as real, individually allocated Token lists (no tokenizer).  Line alphabet:
//   #if b | #ifdef N | #ifndef N | #elif b | #else | #endif | text_i | `#` NEWLINE `else`|`endif` (null directive, then a text
//   line that starts with a directive name)    (b, N in {X,Y} symbolic;
//   which of X,Y are defined is symbolic) — optionally one trailing junk token `J` on
//   #ifdef/#ifndef/#else/#endif lines.  Shorter sequences are covered: text lines are neutral.
// eval_const_expr is cut (--replace-calls) to return the bit carried by the operand token (its
// arithmetic belongs to C07).  Reference: C11 6.10.1 group selection over the line array.
//
// The nested loops/recursion of the skipper make a monolithic query cubic in the token count, so
// the proof is compositional; every piece executes REAL code against contracts written over the
// line array, and the contracts are themselves proved for the real functions:
//   h_select*  real preprocess2, calls to skip_cond_incl  replaced by contract spec1
//   h_skip1    real skip_cond_incl,  calls to skip_cond_incl2 replaced by contract spec2 == spec1
//   h_skip2    real skip_cond_incl2 including its real recursion (bounded by the nesting)  == spec2
#ifndef NITEMS
#define NITEMS 6
#endif
#define MAXNEST 3
static int expect_no_diag;
#define VERIF_ON_EXIT(code) VASSERT(!expect_no_diag, "no diagnostic on a well-formed directive sequence")
#define VERIF_PACKED_SPELLING 1
// native replays run the real eval_const_expr: its const_expr() import yields the bit of the operand token
// (and records, like the cbmc-mode cut below, that the expression of that line was evaluated)
static _Bool evaluated[NITEMS];     // the controlling expression of line i was evaluated
#define VERIF_CONST_EXPR(tok) (((tok)->line_no >= 0 && (tok)->line_no < NITEMS ? (evaluated[(tok)->line_no] = 1) : 0), (tok)->val == verif_spell("1"))
#include "common.h"
#include "pp_env.h"
// strndup is only used by #undef / #define / #include "..." handling: unreachable with this alphabet
// (asserted), and its character copy through a symbolic Token pointer is very slow in cbmc 6.11
static char *verif_unreach_strndup(const char *s, size_t n);
#undef strndup
#define strndup(s, n) verif_unreach_strndup(s, n)
#include "preprocess.c"
#undef strndup
#include "pp_env_impl.h"

enum { I_IF, I_IFDEF, I_IFNDEF, I_ELIF, I_ELSE, I_ENDIF, I_TEXT, I_DEFINE, I_NKINDS };   // I_DEFINE: guard harness only
struct IN_t {
  struct { unsigned char kind, bit, name, junk; } it[NITEMS];
  unsigned char defined[2];
  unsigned char start, at_junk;
  unsigned char n;      // number of lines (guard harness; the others use NITEMS)
} IN;
struct IN_t nondet_IN(void);
#define IS_OPENER(k) ((k) == I_IF || (k) == I_IFDEF || (k) == I_IFNDEF)

// ---------------------------------------------------------------- token construction
static char sp_text[NITEMS][3];
static char sp_J[] = "J";
static Token *first_tok, *last_tok;
static Token *line_tok[NITEMS + 1];   // first token of line i; [NITEMS] = EOF
static Token *text_tok[NITEMS];       // the token a selected text line emits (differs from line_tok[i] for the `#`-prefixed variant)
static Token *junk_tok[NITEMS];       // trailing junk token of line i (or NULL)
static Token *third_tok[NITEMS];      // third token of an opener line (what skip_cond_incl2 is handed)

static Token *mk(int line, TokenKind k, char *sp, int len, bool bol) {
  Token *t = calloc(1, sizeof(Token));
  t->kind = k; t->loc = sp; t->len = len; t->at_bol = bol; t->has_space = !bol;
  t->file = &verif_file; t->line_no = line;    // line_no carries the line index (preprocess2 never writes it)
  t->val = verif_spell(sp);                    // packed spelling (see pp_env_impl.h)
  if (last_tok) last_tok->next = t; else first_tok = t;
  last_tok = t;
  return t;
}

static int nlines = NITEMS;
static Token *build(void) {
  first_tok = last_tok = NULL;
  for (int i = 0; i < NITEMS; i++) {
    int kind = IN.it[i].kind;
    junk_tok[i] = NULL; third_tok[i] = NULL; line_tok[i] = NULL; text_tok[i] = NULL;
    if (i >= nlines) continue;
#ifndef NO_NULLD
    if (kind == I_TEXT && IN.it[i].name) {
      // a null directive (`#` alone on its line) followed by a TEXT line that happens to start with a directive name:
      //   #
      //   else            (or: endif)
      // the second line is ordinary text (6.10p2: a directive name follows its `#` on the same line)
      line_tok[i] = mk(i, TK_PUNCT, "#", 1, true);
      text_tok[i] = IN.it[i].bit ? mk(i, TK_IDENT, "endif", 5, true) : mk(i, TK_IDENT, "else", 4, true);
      continue;
    }
#endif
    if (kind == I_TEXT) {
      sp_text[i][0] = 't'; sp_text[i][1] = '0' + i; sp_text[i][2] = 0;
      line_tok[i] = text_tok[i] = mk(i, TK_IDENT, sp_text[i], 2, true);
      continue;
    }
    line_tok[i] = mk(i, TK_PUNCT, "#", 1, true);
    if (kind == I_IF || kind == I_ELIF) {
      mk(i, TK_IDENT, kind == I_IF ? "if" : "elif", kind == I_IF ? 2 : 4, false);
      third_tok[i] = mk(i, TK_PP_NUM, IN.it[i].bit ? "1" : "0", 1, false);
    } else if (kind == I_DEFINE) {
      mk(i, TK_IDENT, "define", 6, false);
      third_tok[i] = mk(i, TK_IDENT, IN.it[i].name ? "Y" : "X", 1, false);
    } else if (kind == I_IFDEF || kind == I_IFNDEF) {
      mk(i, TK_IDENT, kind == I_IFDEF ? "ifdef" : "ifndef", kind == I_IFDEF ? 5 : 6, false);
      third_tok[i] = mk(i, TK_IDENT, IN.it[i].name ? "Y" : "X", 1, false);
      if (IN.it[i].junk) junk_tok[i] = mk(i, TK_IDENT, sp_J, 1, false);
    } else {
      mk(i, TK_IDENT, kind == I_ELSE ? "else" : "endif", kind == I_ELSE ? 4 : 5, false);
      if (IN.it[i].junk) junk_tok[i] = mk(i, TK_IDENT, sp_J, 1, false);
    }
  }
  line_tok[NITEMS] = mk(NITEMS, TK_EOF, "", 0, true);
  for (int i = NITEMS - 1; i >= 0; i--) if (i >= nlines) line_tok[i] = line_tok[NITEMS];
  return first_tok;
}

// eval_const_expr replacement: `tok` is the if/elif token; value = bit carried by the operand;
// *rest = first token of the next line (what copy_line does)
long stub_eval_const_expr(Token **rest, Token *tok) {
  Token *t = tok->next;
  *rest = t->next;
  if (tok->line_no >= 0 && tok->line_no < NITEMS) evaluated[tok->line_no] = true;
  return t->val == verif_spell("1");
}
// find_macro replacement (same contract, reads the packed spelling instead of the characters)
Macro *stub_find_macro(Token *tok) {
  if (tok->kind != TK_IDENT) return NULL;
  if (tok->val == verif_spell("X")) return hashmap_get(&macros, "X");
  if (tok->val == verif_spell("Y")) return hashmap_get(&macros, "Y");
  return NULL;
}
// Branches of preprocess2 that this alphabet cannot reach are cut by stubs that ASSERT
// unreachability (the cut is checked, not assumed); they would otherwise drag the recursive
// macro/#include machinery (C09's subject) into every query.
#ifdef NATIVE
#define UNREACH(msg) do { VASSERT(0, msg); } while (0)
#else
#define UNREACH(msg) do { VASSERT(0, msg); __CPROVER_assume(0); } while (0)
#endif
static Macro dummy_macro = {.name = "X", .is_objlike = true};
static bool strndup_allowed;
static char *verif_unreach_strndup(const char *s, size_t n) {
  if (!strndup_allowed) UNREACH("no #undef/#define/#include in this alphabet");
  char *r = calloc(1, 4);
  for (int i = 0; i < 3 && i < n; i++) r[i] = s[i];
  return r;
}
bool stub_expand_macro(Token **rest, Token *tok) {
  if (tok->kind == TK_IDENT && (tok->val == verif_spell("X") || tok->val == verif_spell("Y")))
    UNREACH("macro names occur only as #ifdef/#ifndef operands in this alphabet");
  return false;
}
char *stub_read_include_filename(Token **rest, Token *tok, bool *is_dquote) { UNREACH("no #include in this alphabet"); return 0; }
void stub_read_macro_definition(Token **rest, Token *tok) { UNREACH("no #define in this alphabet"); }
void stub_read_line_marker(Token **rest, Token *tok) { UNREACH("no #line in this alphabet"); }

// ---------------------------------------------------------------- reference (C11 6.10.1)
static bool cond_of(int i) {
  int k = IN.it[i].kind;
  if (k == I_IF || k == I_ELIF) return IN.it[i].bit;
  bool d = IN.defined[IN.it[i].name];
  return k == I_IFDEF ? d : !d;
}
static bool ref_sel[NITEMS];          // text line i is selected
static bool ref_eval[NITEMS];         // the controlling expression of #if/#elif line i is evaluated (6.10.1p6: not in a skipped
                                      // group, and an #elif only while no earlier group of its chain was taken)
static int depth_before[NITEMS + 1];  // nesting depth before line i
static bool reference(void) {         // returns well-formedness (C11 6.10 grammar, nesting <= MAXNEST)
  bool par[MAXNEST], taken[MAXNEST], cur[MAXNEST], els[MAXNEST];
  int d = 0;
  for (int i = 0; i < NITEMS; i++) {
    depth_before[i] = d;
    int k = IN.it[i].kind;
    bool act = d == 0 || (par[d - 1] && cur[d - 1]);
    ref_sel[i] = false;
    ref_eval[i] = false;
    if (i >= nlines) continue;
    if (k == I_DEFINE) { ref_sel[i] = act; continue; }     // (guard harness) an active #define is an effect
    if (IS_OPENER(k)) {
      if (d == MAXNEST) return false;
      bool c = cond_of(i);
      if (k == I_IF) ref_eval[i] = act;
      par[d] = act; taken[d] = c; cur[d] = c; els[d] = false;
      d++;
    } else if (k == I_ELIF) {
      if (d == 0 || els[d - 1]) return false;
      ref_eval[i] = par[d - 1] && !taken[d - 1];
      cur[d - 1] = !taken[d - 1] && cond_of(i);
      if (cur[d - 1]) taken[d - 1] = true;
    } else if (k == I_ELSE) {
      if (d == 0 || els[d - 1]) return false;
      els[d - 1] = true;
      cur[d - 1] = !taken[d - 1];
      taken[d - 1] = true;
    } else if (k == I_ENDIF) {
      if (d == 0) return false;
      d--;
    } else
      ref_sel[i] = act;
  }
  depth_before[NITEMS] = d;
  return d == 0;
}

static void assume_shape(bool allow_junk) {
  for (int i = 0; i < NITEMS; i++) {
    __CPROVER_assume(IN.it[i].kind < (nlines == NITEMS ? I_DEFINE : I_NKINDS) && IN.it[i].bit <= 1 && IN.it[i].name <= 1 && IN.it[i].junk <= 1);
    int k = IN.it[i].kind;
    if (!allow_junk || k == I_IF || k == I_ELIF || k == I_TEXT || k == I_DEFINE) __CPROVER_assume(IN.it[i].junk == 0);
#ifdef NO_NULLD
    if (k == I_TEXT) __CPROVER_assume(IN.it[i].name == 0);      // alphabet without the null-directive variant
#endif
  }
  __CPROVER_assume(IN.defined[0] <= 1 && IN.defined[1] <= 1);
}

// ---------------------------------------------------------------- contracts of the skipper
// spec1: from line `from` at relative depth 0: first line that is #elif/#else/#endif at depth 0 -> its
// first token; else EOF.
static Token *spec1_from(int from) {
  int d = 0;
  for (int k = 0; k < NITEMS; k++) {
    if (k < from || k >= nlines) continue;
    int kind = IN.it[k].kind;
    if (IS_OPENER(kind)) d++;
    else if (kind == I_ENDIF) { if (d == 0) return line_tok[k]; d--; }
    else if ((kind == I_ELIF || kind == I_ELSE) && d == 0) return line_tok[k];
  }
  return line_tok[NITEMS];
}
// spec2: from line `from` at relative depth 0: the token after the `endif` keyword of the first
// #endif at depth 0; else EOF.
static Token *spec2_from(int from) {
  int d = 0;
  for (int k = 0; k < NITEMS; k++) {
    if (k < from || k >= nlines) continue;
    int kind = IN.it[k].kind;
    if (IS_OPENER(kind)) d++;
    else if (kind == I_ENDIF) { if (d == 0) return junk_tok[k] ? junk_tok[k] : line_tok[k + 1]; d--; }
  }
  return line_tok[NITEMS];
}
// a token that is not the first of its line: the rest of its line contains no directive
static int scan_start(Token *tok) {
  int i = tok->line_no;
  VASSERT(i >= 0 && i <= NITEMS, "skipper is called on a token of the input");
  if (i >= NITEMS) return NITEMS;
  return tok == line_tok[i] ? i : i + 1;
}
// the contracts are tabulated once per input (spec_tabulate) so that each call costs one lookup
static Token *spec1_tab[NITEMS + 1], *spec2_tab[NITEMS + 1];
static void spec_tabulate(void) {
  for (int i = 0; i <= NITEMS; i++) { spec1_tab[i] = spec1_from(i); spec2_tab[i] = spec2_from(i); }
}
Token *spec1(Token *tok) { return spec1_tab[scan_start(tok)]; }
Token *spec2(Token *tok) { return spec2_tab[scan_start(tok)]; }

static void run_select(bool allow_junk) {
  HAVOC_IN();
  assume_shape(allow_junk);
  bool wf = reference();
  __CPROVER_assume(wf);
  if (IN.defined[0]) hashmap_put(&macros, "X", &dummy_macro);
  if (IN.defined[1]) hashmap_put(&macros, "Y", &dummy_macro);
  Token *in = build();
  spec_tabulate();
  expect_no_diag = 1;
  Token *out = NULL;
  TRY(out = preprocess2(in));
  if (verif_diag) return;
  VASSERT(cond_incl == NULL, "conditional stack empty after a balanced sequence");
  for (int i = 0; i < NITEMS; i++)
    if (IN.it[i].kind == I_IF || IN.it[i].kind == I_ELIF)
      VASSERT(evaluated[i] == ref_eval[i], "a controlling expression is evaluated exactly when C11 6.10.1p6 says so: not inside a skipped group, and an #elif only while no earlier group of its chain was taken (`#elif 1/N` after a taken `#ifndef N` must not be evaluated)");
  Token *t = out;
  bool junk_seen = false;
  for (int i = 0; i < NITEMS; i++) {
    if (junk_seen) continue;
    if (t->kind != TK_EOF && t->val == verif_spell("J")) { junk_seen = true; continue; }
    if (ref_sel[i]) {
      VASSERT(t == text_tok[i], "every selected text line is emitted, in order, and nothing else (a line after a null directive `#` is text even if it starts with a directive name)");
      if (t != text_tok[i]) return;
      t = t->next;
    }
  }
  if (junk_seen || (t->kind != TK_EOF && t->val == verif_spell("J")))
    VASSERT(0, "trailing tokens on a directive line are never emitted");
  else
    VASSERT(t->kind == TK_EOF, "no text of a skipped group and no directive token is emitted");
  VCOVER();
}
void h_select(void) { run_select(false); }
void h_select_junk(void) { run_select(true); }

// real skip_cond_incl from any token preprocess2 can hand it (first token of a line, or the
// junk token where the pinned skip_line leaves the cursor, or the operand of #if/#elif... all
// "a token of line s"), inside a group
void h_skip1(void) {
  HAVOC_IN();
  assume_shape(true);
  bool wf = reference();
  __CPROVER_assume(wf);
  build();
  spec_tabulate();
  int s = IN.start;
  __CPROVER_assume(s < NITEMS);
  Token *start = line_tok[s];
  if (IN.at_junk) { __CPROVER_assume(junk_tok[s] != NULL); start = junk_tok[s]; }
  int from = IN.at_junk ? s + 1 : s;
  __CPROVER_assume(depth_before[from] >= 1);
  expect_no_diag = 1;
  Token *got = skip_cond_incl(start);
  VASSERT(got == spec1_from(from), "skip_cond_incl stops at the matching #elif/#else/#endif of the current group");
  VCOVER();
}
// real skip_cond_incl2 as its callers use it: on the third token of an opener line
void h_skip2(void) {
  HAVOC_IN();
  assume_shape(true);
  bool wf = reference();
  __CPROVER_assume(wf);
  build();
  spec_tabulate();
  int s = IN.start;
  __CPROVER_assume(s < NITEMS && IS_OPENER(IN.it[s].kind));
  expect_no_diag = 1;
  Token *got = skip_cond_incl2(third_tok[s]);   // real function, real recursion (no cut in this harness)
  VASSERT(got == spec2_from(s + 1), "skip_cond_incl2 returns the token after the matching #endif");
  VCOVER();
}

// ---------------------------------------------------------------- (b) include-guard detection
// Real detect_include_guard on a symbolic file of IN.n <= NITEMS lines (alphabet above plus
// `#define N`).  Soundness of the re-inclusion shortcut in include_file(): if the answer is G, then
// textual re-inclusion of the file while G is defined (the shortcut's own condition) selects no
// text line and no #define, for every truth value of the other conditions (C11 6.10.1 reference).
// The skipper calls inside are replaced by their (separately proved) contracts.
void h_guard(void) {
  HAVOC_IN();
  __CPROVER_assume(IN.n >= 1 && IN.n <= NITEMS);
  nlines = IN.n;
  assume_shape(true);
  bool wf = reference();
  __CPROVER_assume(wf);
  Token *in = build();
  spec_tabulate();
  strndup_allowed = true;
  expect_no_diag = 1;
  char *got = detect_include_guard(in);
  if (got) {
    bool isX = got[0] == 'X' && got[1] == 0, isY = got[0] == 'Y' && got[1] == 0;
    VASSERT(isX || isY, "reported guard is a macro name of the file");
    if (!isX && !isY) return;
    IN.defined[isY] = 1;                 // include_file() skips only while the guard macro is defined
    reference();
    bool effect = false;
    for (int i = 0; i < NITEMS; i++) if (i < nlines && ref_sel[i]) effect = true;
    VASSERT(!effect, "skipping the re-inclusion of a file reported as guarded cannot change the output");
  }
  // the plain pattern is recognised (otherwise every header would be re-read: not a C10 violation, a sanity check)
  bool plain = nlines >= 3 && IN.it[0].kind == I_IFNDEF && !IN.it[0].junk && IN.it[1].kind == I_DEFINE &&
               IN.it[1].name == IN.it[0].name;
  for (int i = 2; i < NITEMS; i++) {
    if (i < nlines - 1 && IN.it[i].kind != I_TEXT) plain = false;
    if (i == nlines - 1 && (IN.it[i].kind != I_ENDIF || IN.it[i].junk)) plain = false;
  }
  if (plain) VASSERT(got != NULL, "the plain #ifndef/#define/text.../#endif pattern is recognised");
  VCOVER();
}

// ---------------------------------------------------------------- (c) the `defined` operator in #if lines (C13 kernel)
// The REAL read_const_expr() + copy_line() on one directive line of 0..4 tokens of symbolic kind over
//   { defined  (  )  X  1 }   followed by the first token of the next line (at_bol) and EOF,
// with cbmc's pointer checks ON: whatever the operand of `defined` looks like (missing at the end of the line, a
// number, a parenthesis, unbalanced), the function either reports a located diagnostic or returns a list that ends in
// EOF - it never walks past the end of the line (C13: no crash on `#if defined`).
#ifndef DEF_N
#define DEF_N 4
#endif
Token *stub_new_num_token(int val, Token *tmpl) {
  Token *t = calloc(1, sizeof(Token)), *e = calloc(1, sizeof(Token));
  t->kind = TK_PP_NUM; t->loc = val ? "1" : "0"; t->len = 1; t->file = &verif_file; t->val = verif_spell(t->loc);
  e->kind = TK_EOF; e->loc = ""; e->file = &verif_file; e->at_bol = true;
  t->next = e;
  return t;
}
void h_defined(void) {
  HAVOC_IN();
  __CPROVER_assume(IN.n <= DEF_N && IN.defined[0] <= 1 && IN.defined[1] <= 1);
  if (IN.defined[0]) hashmap_put(&macros, "X", &dummy_macro);
  first_tok = last_tok = NULL;
  for (int i = 0; i < DEF_N; i++) {
    if (i >= IN.n) continue;
    int k = IN.it[i].kind;
    __CPROVER_assume(k < 5);
    if (k == 0) mk(0, TK_IDENT, "defined", 7, false);
    else if (k == 1) mk(0, TK_PUNCT, "(", 1, false);
    else if (k == 2) mk(0, TK_PUNCT, ")", 1, false);
    else if (k == 3) mk(0, TK_IDENT, "X", 1, false);
    else mk(0, TK_PP_NUM, "1", 1, false);
  }
  Token *nextline = mk(1, TK_IDENT, "t1", 2, true);
  mk(2, TK_EOF, "", 0, true);
  Token *rest = NULL, *out = NULL;
  expect_no_diag = 0;                          // diagnostics are a legal outcome here
  TRY(out = read_const_expr(&rest, first_tok));
  if (verif_diag) { VCOVER(); return; }
  VASSERT(rest == nextline, "the cursor is left on the first token of the next line");
  int steps = 0;
  Token *t = out;
  for (int i = 0; i < DEF_N + 1; i++) if (t && t->kind != TK_EOF) { t = t->next; steps++; }
  VASSERT(t != NULL && t->kind == TK_EOF, "the rewritten line is a list of at most as many tokens as the line had, ending in EOF");
  // `defined X` / `defined ( X )` became the number 1 or 0 according to the macro table
  if (IN.n == 2 && IN.it[0].kind == 0 && IN.it[1].kind == 3)
    VASSERT(out->kind == TK_PP_NUM && out->val == verif_spell(IN.defined[0] ? "1" : "0") && out->next->kind == TK_EOF, "`defined X` is 1 iff X is defined");
  VCOVER();
}
