// Environment of preprocess.c for E1 harnesses (C10, C09, C13): everything preprocess.c
// imports from other translation units, as small specification-level implementations.
//   #include "common.h"
//   #include "pp_env.h"      (declares nothing chibicc-specific before chibicc.h is seen)
//   #include "preprocess.c"
//   #include "pp_env_impl.h" (definitions that need chibicc.h types)
#ifndef VERIF_PP_ENV_H
#define VERIF_PP_ENV_H
#ifndef NATIVE
#define TRY(stmt) do { stmt; } while (0)
#endif
static char *verif_dirname(char *p);
// cbmc 6.11 ships no strndup model
static char *verif_strndup(const char *s, size_t n) {
  char *r = calloc(1, n + 1);
  for (size_t i = 0; i < n && i < 16 && s[i]; i++) r[i] = s[i];
  return r;
}
#define strndup verif_strndup
#undef dirname
#define dirname verif_dirname
#endif
