// Shared prelude for E1 (cbmc-src) harnesses.  A harness is one C file that
//   #include "common.h"          (this file)
//   #include "<unit>.c"          (the REAL translation unit from /repo, via -I /repo)
// declares its symbolic inputs as one global struct `IN` and defines harness functions
// `void h_<name>(void)`.  The same file compiles two ways:
//   * goto-cc/cbmc: IN is nondeterministic, VASSERT is a cbmc assertion;
//   * gcc -DNATIVE -DLOAD_INPUTS='IN.x=..;' : IN is loaded from a counterexample and the
//     harness is replayed against the real code natively (replay before reporting).
#ifndef VERIF_COMMON_H
#define VERIF_COMMON_H

#define _POSIX_C_SOURCE 200809L
#include <assert.h>
#include <ctype.h>
#include <errno.h>
#include <glob.h>
#include <libgen.h>
#include <stdarg.h>
#include <stdbool.h>
#include <stdint.h>
#include <stdio.h>
#include <stdlib.h>
#include <stdnoreturn.h>
#include <string.h>
#include <strings.h>
#include <sys/stat.h>
#include <sys/types.h>
#include <sys/wait.h>
#include <time.h>
#include <unistd.h>

// diagnostics taken by the code under test (error/error_at/error_tok all end in exit)
static int verif_diag;      // set when a diagnostic path is taken
static int verif_exit_code;

#ifdef NATIVE
#include <setjmp.h>
static jmp_buf verif_jmp;
static int verif_jmp_armed;
#define __CPROVER_assume(c) do { if (!(c)) { fprintf(stderr, "ASSUME-FAILED %s:%d %s\n", __FILE__, __LINE__, #c); _Exit(77); } } while (0)
#define VASSERT(c, msg) do { if (!(c)) { printf("ASSERT-FAILED %s:%d %s\n", __FILE__, __LINE__, msg); fflush(stdout); _Exit(1); } } while (0)
#define VCOVER() do { printf("REACHED-END\n"); } while (0)
#ifndef LOAD_INPUTS
#define LOAD_INPUTS
#endif
#define HAVOC_IN() do { memset(&IN, 0, sizeof IN); LOAD_INPUTS } while (0)
#ifndef VERIF_ON_EXIT
#define VERIF_ON_EXIT(code)
#endif
static noreturn void verif_exit(int code) {
  verif_diag = 1; verif_exit_code = code;
  VERIF_ON_EXIT(code);
  if (verif_jmp_armed) longjmp(verif_jmp, 1);
  printf("EXIT-CALLED %d\n", code); fflush(stdout); _Exit(3);
}
// TRY(stmt): run stmt; if the code under test exits with a diagnostic, continue after it
#define TRY(stmt) do { verif_jmp_armed = 1; if (!setjmp(verif_jmp)) { stmt; } verif_jmp_armed = 0; } while (0)
#else
#define VASSERT(c, msg) __CPROVER_assert((c), msg)
#ifdef WITNESS
#define VCOVER() __CPROVER_assert(0, "WITNESS: end of harness reachable")
#else
#define VCOVER() do {} while (0)
#endif
#define HAVOC_IN() do { IN = nondet_IN(); } while (0)
#ifndef TRY
#define TRY(stmt) do { stmt; } while (0)     /* under cbmc a diagnostic ends the path (see VERIF_ON_EXIT) */
#endif
#ifndef VERIF_ON_EXIT
#define VERIF_ON_EXIT(code)
#endif
static noreturn void verif_exit(int code) {
  verif_diag = 1; verif_exit_code = code;
  VERIF_ON_EXIT(code);
  __CPROVER_assume(0);
  while (1);
}
#endif

#define exit(c) verif_exit(c)
// output formatting is not the subject of any E1 harness: empty bodies
#define vfprintf(...) (0)
#define fprintf(...) (0)
#define fputs(...) (0)
#define fputc(...) (0)

#endif
