// C08 (b): type-specifier multisets.  The REAL declspec() of parse.c runs over a symbolic sequence
// of 1..NT type-specifier keyword tokens (real Token objects pointing at pooled spellings) followed
// by ";".  Decided: the sequence is accepted  <=>  C11 6.7.2p2 lists its multiset, and the resulting
// type (kind, size, alignment, signedness) is the one the psABI assigns to that multiset.  Both
// sides of the oracle depend on the multiset only, so order independence is implied.
//
// cbmc: is_typename() is replaced (goto-instrument --replace-calls) by stub_is_typename(), a
// membership test over the ten keywords (the real one needs the 30-entry keyword HashMap);
// equal() is the specification of tokenize.c's equal() specialised to pooled tokens (see below);
// the native replay runs the real is_typename() with the real hashmap.c.
#define VERIF_ON_EXIT(code) on_diag()
static void on_diag(void);
#include "common.h"
#include "parse.c"
#define PENV_CUSTOM_EQUAL
#include "penv.h"

#ifndef NT
#define NT 5
#endif
#ifndef MODE
#define MODE 0      // 0: any sequence; 1: at most one `signed` and one `unsigned`; 2: a duplicated sign keyword
#endif

enum { K_VOID, K_BOOL, K_CHAR, K_SHORT, K_INT, K_LONG, K_FLOAT, K_DOUBLE, K_SIGNED, K_UNSIGNED, NKW, K_SEMI = NKW,
       NPOOL };
#define SPMAX 9
static const char spell[NPOOL][SPMAX] = {"void", "_Bool", "char", "short", "int", "long", "float", "double", "signed",
                                         "unsigned", ";"};
static const int spell_len[NPOOL] = {4, 5, 4, 5, 3, 4, 5, 6, 6, 8, 1};

struct IN_t { uint8_t n; uint8_t kw[NT]; } IN;
struct IN_t nondet_IN(void);

// Token invariant of this harness: loc points at pool entry `line_no`, len is its length.  (line_no
// is otherwise unused by the parser.)  equal() below is the specification of tokenize.c's equal()
// -- "the token's spelling is the C string op" -- evaluated through that invariant: the comparison of
// the pooled spelling with the string literal `op` folds to a constant during symbolic execution, so
// e.g. consume(&tok, tok, "const") is decided without creating a symbolic token pointer.  The
// invariant is asserted for every token after declspec() returns.
static bool lit_eq(const char *a, const char *b) {
  int i = 0;
  for (; a[i] != '\0'; i++)
    if (a[i] != b[i]) return false;
  return b[i] == '\0';
}
bool equal(Token *tok, char *op) {
  bool r = false;
  for (int j = 0; j < NPOOL; j++)
    if (lit_eq(spell[j], op) && tok->line_no == j)
      r = true;
  return r;
}

bool stub_is_typename(Token *tok) {
  return tok->line_no < NKW;     // the ten keywords are type names, ";" is not
}

// find_typedef() looks identifiers up in the scope HashMap; on keyword tokens it returns NULL before
// any lookup.  Replaced (cbmc only) by a stub that asserts exactly that precondition.
Type *stub_find_typedef(Token *tok) {
  VASSERT(tok->kind != TK_IDENT, "find_typedef stub: keyword tokens only");
  return NULL;
}

// The branches of declspec() for _Atomic(type), _Alignas, struct, union, enum, typeof and typedef
// names cannot be taken by keyword-only input.  Their callees are cut (cbmc only) by stubs that
// ASSERT unreachability, so the cut is checked rather than assumed.
Type *cut_parse_type(Token **rest, Token *tok) {
  VASSERT(0, "declspec leaves the arithmetic-specifier path on keyword-only input");
  __CPROVER_assume(0);
  return ty_int;
}
int64_t cut_const_expr(Token **rest, Token *tok) {
  VASSERT(0, "declspec evaluates a constant expression on keyword-only input");
  __CPROVER_assume(0);
  return 0;
}

// ---- reference: C11 6.7.2p2 (without _Complex, _Atomic, struct/union/enum/typedef names) + psABI
typedef struct { bool valid; int kind; int size; bool uns; } RefTy;
static RefTy ref_declspec(const int c[NKW]) {
  RefTy r = {false, 0, 0, false};
  int others = c[K_VOID] + c[K_BOOL] + c[K_FLOAT] + c[K_DOUBLE];
  int ints = c[K_CHAR] + c[K_SHORT] + c[K_INT] + c[K_LONG] + c[K_SIGNED] + c[K_UNSIGNED];
  // void | _Bool | float | double | long double : exactly that, nothing else
  if (c[K_VOID] == 1 && others == 1 && ints == 0) { r.valid = true; r.kind = TY_VOID; r.size = 1; return r; }
  if (c[K_BOOL] == 1 && others == 1 && ints == 0) { r.valid = true; r.kind = TY_BOOL; r.size = 1; return r; }
  if (c[K_FLOAT] == 1 && others == 1 && ints == 0) { r.valid = true; r.kind = TY_FLOAT; r.size = 4; return r; }
  if (c[K_DOUBLE] == 1 && others == 1 && ints == 0) { r.valid = true; r.kind = TY_DOUBLE; r.size = 8; return r; }
  if (c[K_DOUBLE] == 1 && others == 1 && c[K_LONG] == 1 && ints == 1) {
    r.valid = true; r.kind = TY_LDOUBLE; r.size = 16; return r;
  }
  if (others != 0 || ints == 0) return r;
  // integer types: at most one of signed/unsigned, each at most once
  if (c[K_SIGNED] > 1 || c[K_UNSIGNED] > 1 || c[K_SIGNED] + c[K_UNSIGNED] > 1) return r;
  r.uns = c[K_UNSIGNED] == 1;
  if (c[K_CHAR] == 1 && c[K_SHORT] == 0 && c[K_INT] == 0 && c[K_LONG] == 0) {
    r.valid = true; r.kind = TY_CHAR; r.size = 1; return r;     // char, signed char, unsigned char
  }
  if (c[K_CHAR] != 0 || c[K_INT] > 1) return r;
  if (c[K_SHORT] == 1 && c[K_LONG] == 0) { r.valid = true; r.kind = TY_SHORT; r.size = 2; return r; }
  if (c[K_SHORT] != 0) return r;
  if (c[K_LONG] == 0) { r.valid = true; r.kind = TY_INT; r.size = 4; return r; }  // int, signed, unsigned, ...
  if (c[K_LONG] <= 2) { r.valid = true; r.kind = TY_LONG; r.size = 8; return r; } // long / long long
  return r;
}

static RefTy expect;
static void on_diag(void) {
  VASSERT(!expect.valid, "declspec rejects a specifier multiset that C11 6.7.2p2 lists");
}

void h_declspec(void) {
  HAVOC_IN();
  __CPROVER_assume(IN.n >= 1 && IN.n <= NT);
  int c[NKW] = {0};
  static Token toks[NT + 1];
  for (int i = 0; i <= NT; i++) {
    int k = K_SEMI;                       // tokens 0..n-1 are keywords, every later token is ";"
    if (i < NT && i < IN.n) {
      __CPROVER_assume(IN.kw[i] < NKW);
      k = IN.kw[i];
      c[k]++;
    }
    toks[i].kind = TK_KEYWORD;            // the kind of ";" is irrelevant to declspec/is_typename
    toks[i].line_no = k;
    toks[i].loc = (char *)spell[k];
    toks[i].len = spell_len[k];
    toks[i].next = &toks[i < NT ? i + 1 : NT];   // the last ";" links to itself (never followed)
  }
#if MODE == 1
  __CPROVER_assume(c[K_SIGNED] <= 1 && c[K_UNSIGNED] <= 1);
#elif MODE == 2
  __CPROVER_assume(c[K_SIGNED] > 1 || c[K_UNSIGNED] > 1);
#endif
  expect = ref_declspec(c);

  Token *rest = 0;
  Type *ty = declspec(&rest, &toks[0], NULL);

  for (int i = 0; i <= NT; i++)
    VASSERT(toks[i].line_no >= 0 && toks[i].line_no < NPOOL && toks[i].loc == spell[toks[i].line_no] &&
            toks[i].len == spell_len[toks[i].line_no], "token invariant (loc/len = pool entry line_no)");
  VASSERT(expect.valid, "declspec accepts a specifier multiset that C11 6.7.2p2 does not list");
  VASSERT(rest == &toks[IN.n], "declspec consumes exactly the specifiers");
  if (!expect.valid) return;
  VASSERT(ty->kind == expect.kind, "type kind equals C11/psABI table");
  VASSERT(ty->size == expect.size && ty->align == expect.size, "size and alignment equal psABI table");
  if (expect.kind == TY_CHAR || expect.kind == TY_SHORT || expect.kind == TY_INT || expect.kind == TY_LONG)
    VASSERT(ty->is_unsigned == expect.uns, "signedness equals C11 table");
  VCOVER();
}
