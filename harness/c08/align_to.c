// C08 support: the REAL align_to() of codegen.c equals the specification that harness/penv.h
// substitutes for it in the parse.c harnesses (least multiple of `align` that is >= n), for every
// power-of-two alignment up to 2^12 and every n in (-align, 2^24].  (struct_decl/union_decl call it
// with bit counts; align_down() calls it with n - align + 1.)  No native replay: codegen.c does not
// link without the rest of the compiler.
#include "common.h"
#include "codegen.c"

struct IN_t { int n; uint8_t k; } IN;
struct IN_t nondet_IN(void);

void h_align_to(void) {
  HAVOC_IN();
  __CPROVER_assume(IN.k <= 12);
  int a = 1 << IN.k;
  __CPROVER_assume(IN.n > -a && IN.n <= (1 << 24));
  int r = align_to(IN.n, a);
  int spec = IN.n <= 0 ? 0 : (IN.n + a - 1) & ~(a - 1);
  VASSERT(r == spec, "codegen.c align_to equals the penv.h specification");
  VASSERT((r & (a - 1)) == 0 && r >= IN.n && r - IN.n < a, "result is the least multiple of align >= n");
  VCOVER();
}
