// C08 (a): struct/union layout.  The REAL struct_decl()/union_decl() of parse.c run on a symbolic
// member list; only the token-parsing callee struct_union_decl() is cut and replaced by a stub
// that builds the Type/Member list exactly the way struct_members() leaves it (member type,
// name, idx, align = _Alignas ? _Alignas : type align, is_bitfield, bit_width; is_packed and
// attribute aligned on the aggregate).  Every offset / bit position / sizeof / _Alignof is
// compared with the independent psABI reference in ref_layout.h (validated against gcc).
//
// Feature mask -DFEAT=<bits>: features not enabled are assumed absent, so that a defect in one
// feature is reported under that feature's obligation key only.
#include "common.h"

// ---- cut: the first occurrence of `struct_union_decl(` in parse.c is its definition (kept, under
// the name real_struct_union_decl), every later occurrence is a call (redirected to the stub).
// A change in parse.c that breaks this ordering is a loud compile error, never a silent pass.
#define SUD_CAT_(n) SUD_##n
#define SUD_CAT(n) SUD_CAT_(n)
#define SUD_0 real_struct_union_decl
#define SUD_1 stub_struct_union_decl
#define SUD_2 stub_struct_union_decl
#define struct_union_decl(a, b) SUD_CAT(__COUNTER__)(a, b)
typedef struct Type Type_fwd;
typedef struct Token Token_fwd;
static Type_fwd *stub_struct_union_decl(Token_fwd **rest, Token_fwd *tok);
#include "parse.c"
#undef struct_union_decl
#include "penv.h"
#include "c08/ref_layout.h"

#ifndef NM
#define NM 4
#endif
#ifndef FEAT
#define FEAT 0
#endif
#define F_UNION      1   // union_decl instead of struct_decl
#define F_PACKED     2   // __attribute__((packed)) may be present
#define F_BF_NAMED   4   // named bit-fields of width >= 1
#define F_BF_UNNAMED 8   // unnamed bit-fields of width >= 1
#define F_BF_ZERO    16  // zero-width bit-fields
#define F_ALIGNAS    32  // per-member _Alignas
#define F_ATTR       64  // __attribute__((aligned(N))) on the aggregate
#define F_PACKED_ON  128 // packed is always present (with F_PACKED)

struct IN_t {
  uint8_t n;            // number of members 1..NM
  uint8_t packed;
  uint8_t attr_sel;     // 0 none, k: aligned(1 << (k-1)), k <= 6
  struct {
    uint8_t kind;       // 0 scalar, 1 array, 2 nested aggregate, 3 bit-field
    uint8_t tsel;       // base scalar type
    uint8_t alen;       // array length 0..3 (0 = flexible / zero-length)
    uint8_t nk, nal;    // nested aggregate: align = 1 << nal (<= 16), size = nk * align (nk <= 4)
    uint8_t width;      // bit-field width
    uint8_t named;      // bit-field has a name
    uint8_t req_sel;    // 0 none, k: _Alignas(1 << (k-1)), k <= 6
  } m[NM];
} IN;
struct IN_t nondet_IN(void);

// psABI table for the scalar types, written here from the psABI (Figure 3.1), NOT read from type.c
#define NSCALAR 14
static const int ps_size[NSCALAR]  = {1, 1, 2, 4, 8, 1, 2, 4, 8, 4, 8, 16, 8, 4};
static const int ps_align[NSCALAR] = {1, 1, 2, 4, 8, 1, 2, 4, 8, 4, 8, 16, 8, 4};
static const bool ps_int[NSCALAR]  = {1, 1, 1, 1, 1, 1, 1, 1, 1, 0, 0, 0, 0, 1};
static Type *real_scalar(int k) {
  switch (k) {
  case 0: return ty_bool;   case 1: return ty_char;   case 2: return ty_short;  case 3: return ty_int;
  case 4: return ty_long;   case 5: return ty_uchar;  case 6: return ty_ushort; case 7: return ty_uint;
  case 8: return ty_ulong;  case 9: return ty_float;  case 10: return ty_double;
  case 11: return ty_ldouble; case 12: return pointer_to(ty_char);
  default: return enum_type();
  }
}

static Member *built[NM];
static Token name_tok;
static Type *sc[NSCALAR];   // the real scalar type objects, built once per run

// what struct_union_decl() + struct_members() + attribute_list() leave behind for
//   struct/union [packed] [aligned(N)] { members }
static Type *stub_struct_union_decl(Token **rest, Token *tok) {
  Type *ty = struct_type();
  if (IN.packed) ty->is_packed = true;
  if (IN.attr_sel) ty->align = 1 << (IN.attr_sel - 1);
  Member head = {0};
  Member *cur = &head;
  for (int i = 0; i < NM; i++) {
    if (i >= IN.n) break;
    Member *mem = calloc(1, sizeof(Member));
    Type *mt;
    Type *base = sc[IN.m[i].tsel];
    switch (IN.m[i].kind) {
    case 0: mt = base; break;
    case 1: mt = array_of(base, IN.m[i].alen); break;
    case 2:
      mt = struct_type();
      mt->kind = TY_STRUCT;
      mt->align = 1 << IN.m[i].nal;
      mt->size = IN.m[i].nk << IN.m[i].nal;
      break;
    default:
      mt = base;
      mem->is_bitfield = true;
      mem->bit_width = IN.m[i].width;
      break;
    }
    mem->ty = mt;
    if (IN.m[i].kind != 3 || IN.m[i].named) mem->name = &name_tok;
    mem->idx = i;
    int attr_align = IN.m[i].req_sel ? 1 << (IN.m[i].req_sel - 1) : 0;
    mem->align = attr_align ? attr_align : mem->ty->align;   // as in struct_members()
    built[i] = mem;
    cur = cur->next = mem;
  }
  ty->members = head.next;
  *rest = tok;
  return ty;
}

static void constrain(RMem *rm) {
  __CPROVER_assume(IN.n >= 1 && IN.n <= NM);
  if (!(FEAT & F_PACKED)) __CPROVER_assume(!IN.packed);
  if (FEAT & F_PACKED_ON) __CPROVER_assume(IN.packed);
  __CPROVER_assume(IN.packed <= 1);
  if (!(FEAT & F_ATTR)) __CPROVER_assume(IN.attr_sel == 0);
  __CPROVER_assume(IN.attr_sel <= 6);
  for (int i = 0; i < NM; i++) {
    if (i >= IN.n) break;
    __CPROVER_assume(IN.m[i].kind <= 3 && IN.m[i].tsel < NSCALAR);
    int s = ps_size[IN.m[i].tsel], a = ps_align[IN.m[i].tsel];
    rm[i].is_bf = 0; rm[i].width = 0; rm[i].named = 1;
    if (IN.m[i].kind == 1) {
      __CPROVER_assume(IN.m[i].alen <= 3);
      s = ((IN.m[i].alen & 1) ? s : 0) + ((IN.m[i].alen & 2) ? 2 * s : 0);   // s * alen
    } else if (IN.m[i].kind == 2) {
      __CPROVER_assume(IN.m[i].nal <= 4 && IN.m[i].nk <= 4);
      a = 1 << IN.m[i].nal;
      s = IN.m[i].nk << IN.m[i].nal;
    } else if (IN.m[i].kind == 3) {
      // C11 6.7.2.1p4/p5: integer base type, width <= width of the type (_Bool: 1), zero width
      // only without a declarator; _Alignas is not allowed on a bit-field (6.7.5p2)
      __CPROVER_assume(ps_int[IN.m[i].tsel]);
      __CPROVER_assume(IN.m[i].width <= (IN.m[i].tsel == 0 ? 1 : s * 8));
      __CPROVER_assume(IN.m[i].named <= 1);
      if (IN.m[i].width == 0) {
        __CPROVER_assume(FEAT & F_BF_ZERO);
        __CPROVER_assume(!IN.m[i].named);
      } else if (IN.m[i].named) {
        __CPROVER_assume(FEAT & F_BF_NAMED);
      } else {
        __CPROVER_assume(FEAT & F_BF_UNNAMED);
      }
      __CPROVER_assume(IN.m[i].req_sel == 0);
      rm[i].is_bf = 1; rm[i].width = IN.m[i].width; rm[i].named = IN.m[i].named;
    }
    if (!(FEAT & F_ALIGNAS)) __CPROVER_assume(IN.m[i].req_sel == 0);
    __CPROVER_assume(IN.m[i].req_sel <= 6);
    // 6.7.5p4: _Alignas may not specify less than the natural alignment
    if (IN.m[i].req_sel) __CPROVER_assume((1 << (IN.m[i].req_sel - 1)) >= a);
    rm[i].size = s; rm[i].align = a;
    rm[i].req_align = IN.m[i].req_sel ? 1 << (IN.m[i].req_sel - 1) : 0;
  }
}

void h_layout(void) {
  HAVOC_IN();
  RMem rm[NM];
  RPos rp[NM];
  long rsize, ralign;
  constrain(rm);
  for (int k = 0; k < NSCALAR; k++) sc[k] = real_scalar(k);
  ref_layout((FEAT & F_UNION) != 0, IN.packed, IN.attr_sel ? 1 << (IN.attr_sel - 1) : 0, IN.n, rm, rp,
             &rsize, &ralign);

  Token t0 = {0};
  Token *rest = 0;
#if FEAT & F_UNION
  Type *ty = union_decl(&rest, &t0);
  VASSERT(ty->kind == TY_UNION, "kind is union");
#else
  Type *ty = struct_decl(&rest, &t0);
  VASSERT(ty->kind == TY_STRUCT, "kind is struct");
#endif
  VASSERT(ty->align == ralign, "_Alignof equals psABI reference");
  VASSERT(ty->size == rsize, "sizeof equals psABI reference");
  VASSERT(ty->size % ty->align == 0, "size is a multiple of the alignment (nested-aggregate invariant)");
  for (int i = 0; i < NM; i++) {
    if (i >= IN.n) break;
    Member *mem = built[i];
    if (!rm[i].is_bf) {
      VASSERT(mem->offset == rp[i].off, "member offset equals psABI reference");
    } else if (rm[i].width > 0) {
      int unit = rm[i].size;
      VASSERT((long)mem->offset * 8 + mem->bit_offset == rp[i].bitpos,
              "bit-field absolute bit position equals psABI reference");
      VASSERT(mem->bit_offset >= 0 && mem->bit_offset + rm[i].width <= unit * 8,
              "bit-field lies inside the storage unit the code generator accesses");
      if (rm[i].named)
        VASSERT(mem->offset >= 0 && mem->offset + unit <= ty->size,
                "accessed storage unit lies inside the object");
    }
  }
  VCOVER();
}
