// C14 (cc1 part): a failing translation unit never creates/truncates its output.
// The REAL main()/cc1()/open_file()/print_tokens() of main.c run in -cc1 mode with the other
// phases (tokenize_file, preprocess, parse, codegen) replaced by may-fail stubs: a symbolic
// stage number says which phase diagnoses an error (calls exit(1)) or returns NULL; fopen may
// fail.  Asserted at every exit: the output path was opened for writing only after the last
// phase that can fail had returned; a failure means exit code != 0 and the output path untouched.
static void verif_at_exit(int code);
#define VERIF_ON_EXIT(code) verif_at_exit(code)
#include "common.h"
#ifndef NATIVE
#define TRY(stmt) do { stmt; } while (0)
#endif

struct IN_t { unsigned char fail_stage; unsigned char fopen_fails; unsigned char write_fails; } IN;
struct IN_t nondet_IN(void);

enum { ST_NONE, ST_TOKENIZE_NULL, ST_TOKENIZE_EXIT, ST_PREPROCESS, ST_PARSE, ST_CODEGEN, ST_LAST = ST_CODEGEN };

static bool streq(const char *a, const char *b) {
  if (!a || !b) return a == b;
  for (int i = 0; i < 32; i++) {
    if (a[i] != b[i]) return false;
    if (!a[i]) return true;
  }
  return false;
}

static const char *g_output;      // path the unit's output must go to (NULL: stdout)
static bool g_is_E;
static bool tokenized, preprocessed, parsed, codegen_returned, phase_failed;
static int out_opened;            // fopen(output, "w") calls
static int other_opened;          // fopen of any other path for writing
static bool out_opened_early;     // ... before the last may-fail phase returned
static int out_written, out_closed;
static FILE out_file, mem_file;   // dummies standing for the FILE objects
static char membuf[4];
static bool at_exit_running;
static void (*atexit_fn[2])(void);
static int natexit;
static int verif_atexit(void (*f)(void)) { if (natexit < 2) atexit_fn[natexit++] = f; return 0; }

static FILE *verif_fopen(const char *p, const char *mode) {
  if (mode[0] == 'r') return NULL;
  if (streq(p, g_output)) {
    out_opened++;
    bool ready = g_is_E ? preprocessed : codegen_returned;
    if (!ready) out_opened_early = true;
    if (IN.fopen_fails) { errno = EACCES; return NULL; }
    return &out_file;
  }
  other_opened++;
  return NULL;
}
static FILE *verif_open_memstream(char **buf, size_t *len) { *buf = membuf; *len = 4; return &mem_file; }
static size_t verif_fwrite(const void *p, size_t sz, size_t n, FILE *f) { if (f == &out_file) out_written++; return n; }
// a write error (disk full, EIO) on the output stream: reported by ferror()/fflush()/fclose() (symbolic)
static bool write_error_reported;
static int verif_fclose(FILE *f) { if (f == &out_file) { out_closed++; if (IN.write_fails) { write_error_reported = true; errno = ENOSPC; return EOF; } } return 0; }
static int verif_ferror(FILE *f) { if (IN.write_fails && (f == &out_file || f == stdout)) { write_error_reported = true; return 1; } return 0; }
static int verif_fflush(FILE *f) {
#ifdef NATIVE
  if (f == stdout) fflush(f);      // the real one (the macro below is not defined yet): keeps ASSERT-FAILED lines of native replays
#endif
  if (IN.write_fails && (f == &out_file || f == stdout)) { write_error_reported = true; errno = ENOSPC; return EOF; } return 0; }
static int verif_unlink(const char *p) { return 0; }
static int verif_stat(const char *p, struct stat *st) { return -1; }
static char *verif_dirname(char *p) { return "."; }
static char *verif_basename(char *p) { return p; }
static char *verif_format(char *fmt, ...) { return "formatted"; }

#define atexit(f) verif_atexit(f)
#define fopen verif_fopen
#define open_memstream verif_open_memstream
#define fwrite verif_fwrite
#define fclose verif_fclose
#undef ferror
#define ferror verif_ferror
#define fflush verif_fflush
#define unlink verif_unlink
#define stat(p, s) verif_stat(p, s)
#undef dirname
#undef basename
#define dirname verif_dirname
#define basename verif_basename
#define format verif_format
#ifndef NATIVE
// cbmc 6.11 has no strndup model (POSIX contract: fresh NUL-terminated copy of at most n bytes)
static char *verif_strndup(const char *s, size_t n) {
  char *r = malloc(n + 1);
  __CPROVER_assume(r != 0);
  size_t i = 0;
  for (; i < n && i < 16 && s[i]; i++) r[i] = s[i];
  r[i] = 0;
  return r;
}
#define strndup verif_strndup
#endif
#define main chibicc_main
#include "main.c"
#undef main

noreturn void error(char *fmt, ...) { verif_exit(1); }
// C17 (history/cc1-cmdline): the operations the compiler proper has applied to the macro table, in order, by the time it
// starts reading the source - wherever in main()/parse_args()/cc1() they are issued.
enum { MO_INIT = 1, MO_DEF, MO_UNDEF };
static struct { int op; char *name, *body; } mo_rec[8];
static int mo_nrec;
static const struct { int op; char *name, *body; } *mo_want;
static int mo_nwant = -1;
static bool mo_checked;
static void mo_add(int op, char *name, char *body) { if (mo_nrec < 8) { mo_rec[mo_nrec].op = op; mo_rec[mo_nrec].name = name; mo_rec[mo_nrec].body = body; } mo_nrec++; }
void init_macros(void) { mo_add(MO_INIT, 0, 0); }
void define_macro(char *name, char *buf) { mo_add(MO_DEF, name, buf); }
void undef_macro(char *name) { mo_add(MO_UNDEF, name, 0); }
static void mo_check(void) {
  if (mo_nwant < 0 || mo_checked) return;
  mo_checked = true;
  VASSERT(mo_nrec == mo_nwant + 1 && mo_rec[0].op == MO_INIT, "before the source is read: the predefined set, then one operation per -D/-U option");
  for (int i = 0; i < 3; i++) {
    if (i >= mo_nwant || i + 1 >= mo_nrec) continue;
    VASSERT(mo_rec[i + 1].op == mo_want[i].op && streq(mo_rec[i + 1].name, mo_want[i].name), "the i-th -D/-U of the command line is the i-th operation on the macro table (so the last one wins)");
    if (mo_want[i].op == MO_DEF) VASSERT(streq(mo_rec[i + 1].body, mo_want[i].body), "-DNAME=body defines NAME as body");
  }
}
char *search_include_paths(char *f) { return NULL; }
File **get_input_files(void) { static File *none[1]; return none; }
void hashmap_test(void) {}
void join_adjacent_string_literals(Token *tok) {}
static Token eof_tok = {.kind = TK_EOF};
static Obj dummy_prog;

Token *tokenize_file(char *p) {
  mo_check();
  if (IN.fail_stage == ST_TOKENIZE_NULL) { phase_failed = true; errno = ENOENT; return NULL; }   // unreadable input
  if (IN.fail_stage == ST_TOKENIZE_EXIT) { phase_failed = true; verif_exit(1); }                 // lexical error
  tokenized = true;
  return &eof_tok;
}
Token *preprocess(Token *t) {
  if (IN.fail_stage == ST_PREPROCESS) { phase_failed = true; verif_exit(1); }
  preprocessed = true;
  return t;
}
Obj *parse(Token *t) {
  if (IN.fail_stage == ST_PARSE) { phase_failed = true; verif_exit(1); }
  parsed = true;
  return &dummy_prog;
}
void codegen(Obj *p, FILE *o) {
  VASSERT(o != &out_file, "codegen does not write to the real output file directly");
  if (IN.fail_stage == ST_CODEGEN) { phase_failed = true; verif_exit(1); }   // e.g. "not an lvalue", after partial output
  codegen_returned = true;
}

static void verif_at_exit(int code) {
  if (at_exit_running) return;
  at_exit_running = true;
  for (int i = 1; i >= 0; i--) if (i < natexit) atexit_fn[i]();
  VASSERT(!out_opened_early, "output opened only after the last phase that can fail has returned");
  VASSERT(other_opened == 0, "no other file is created");
  if (phase_failed) {
    VASSERT(code != 0, "a failing phase makes cc1 exit non-zero");
    VASSERT(out_opened == 0, "a failing translation unit never creates/truncates its output");
  } else if (IN.fopen_fails && g_output) {
    VASSERT(code != 0, "unwritable output makes cc1 exit non-zero");
  } else if (IN.write_fails) {
    VASSERT(code != 0, "a write error on the output (disk full) makes cc1 exit non-zero");
  } else {
    VASSERT(code == 0, "successful unit: exit 0");
    if (g_output) VASSERT(out_opened == 1, "successful unit: output opened exactly once");
    if (g_output && !g_is_E) VASSERT(out_written >= 1 && out_closed == 1, "assembly written and closed");
  }
#ifdef WIT_FAIL
  if (phase_failed) VCOVER();
#endif
}

static void run(char **argv, int argc, const char *output, bool is_E) {
  HAVOC_IN();
  __CPROVER_assume(IN.fail_stage <= ST_LAST);
  __CPROVER_assume(IN.fopen_fails <= 1 && IN.write_fails <= 1);
#ifdef WIT_FAIL
  __CPROVER_assume(IN.fail_stage != ST_NONE);
#endif
  g_output = output; g_is_E = is_E;
  int rc = 0;
  TRY(rc = chibicc_main(argc, argv); verif_at_exit(rc));
#ifndef WIT_FAIL
  if (!verif_diag) VCOVER();
#endif
}

// what the driver passes for `cc -c a.c`
void h_cc1_compile(void) {
  static char *argv[] = {"/x/cc", "-c", "a.c", "-cc1", "-cc1-input", "a.c", "-cc1-output", "/tmp/chibicc-vvvvv0", NULL};
  run(argv, 8, "/tmp/chibicc-vvvvv0", false);
}
// `cc -S -o out.s a.c`: the final output itself is written by cc1
void h_cc1_S_o(void) {
  static char *argv[] = {"/x/cc", "-S", "-o", "out.s", "a.c", "-cc1", "-cc1-input", "a.c", "-cc1-output", "out.s", NULL};
  run(argv, 10, "out.s", false);
}
// `cc -E -o out.i a.c`
void h_cc1_E_o(void) {
  static char *argv[] = {"/x/cc", "-E", "-o", "out.i", "a.c", "-cc1", "-cc1-input", "a.c", NULL};
  run(argv, 8, "out.i", true);
}
// C17: -D/-U of the same name in both orders, as the cc1 child sees them (`cc -c <opts> a.c`)
#ifndef MO_SEQ
#define MO_SEQ 0
#endif
void h_cc1_macro_order(void) {
#if MO_SEQ == 0
  static char *argv[] = {"/x/cc", "-c", "-UA", "-DA=3", "a.c", "-cc1", "-cc1-input", "a.c", "-cc1-output", "/tmp/chibicc-vvvvv0", NULL};
  static const struct { int op; char *name, *body; } want[] = {{MO_UNDEF, "A", 0}, {MO_DEF, "A", "3"}};
  int argc = 10, nw = 2;
#elif MO_SEQ == 1
  static char *argv[] = {"/x/cc", "-c", "-DA=3", "-UA", "a.c", "-cc1", "-cc1-input", "a.c", "-cc1-output", "/tmp/chibicc-vvvvv0", NULL};
  static const struct { int op; char *name, *body; } want[] = {{MO_DEF, "A", "3"}, {MO_UNDEF, "A", 0}};
  int argc = 10, nw = 2;
#else
  static char *argv[] = {"/x/cc", "-c", "-U", "B", "-DB=2", "-U", "A", "a.c", "-cc1", "-cc1-input", "a.c", "-cc1-output", "/tmp/chibicc-vvvvv0", NULL};
  static const struct { int op; char *name, *body; } want[] = {{MO_UNDEF, "B", 0}, {MO_DEF, "B", "2"}, {MO_UNDEF, "A", 0}};
  int argc = 13, nw = 3;
#endif
  mo_want = want; mo_nwant = nw; mo_nrec = 0; mo_checked = false;
  run(argv, argc, "/tmp/chibicc-vvvvv0", false);
  VASSERT(mo_checked, "the source was read (after the macro operations)");
}
// `cc -E a.c` (stdout)
void h_cc1_E_stdout(void) {
  static char *argv[] = {"/x/cc", "-E", "a.c", "-cc1", "-cc1-input", "a.c", NULL};
  run(argv, 6, NULL, true);
}
