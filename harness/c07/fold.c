// C07: translation-time constant folding = C11 evaluation.
// A symbolic AST is built with the parser's own constructors (new_num/new_cast/new_binary/
// new_unary/new_add/new_sub), typed by the REAL add_type() (type.c) and folded by the REAL
// eval()/eval2() (parse.c).  The result is compared with the independent reference evaluator
// ref_eval.h (validated against gcc), restricted to expressions whose evaluation C11 defines.
//
// Shapes.  Node kinds are CONCRETE in every harness function (cbmc explores every case of a switch
// on a symbolic kind, including the statement/lvalue cases of add_type, which does not terminate in
// useful time); literal values, literal types and cast types are SYMBOLIC.
//   h_d1_<root>: root operator over leaves.  Leaf = cast to any of the 9 integer types (or no cast)
//                of an integer literal of type int / unsigned / long / unsigned long with ANY value.
//                Since eval2() of a node depends only on the node's kind and type and on the folded
//                values and types of its operands, this is the inductive step for trees of any depth.
//   h_d2_<root>: for every operand-operator kind k in KSET (one independent sub-problem per k inside
//                the same cbmc run): root over operator nodes of kind k over leaves (MASK selects
//                which operands are operator nodes, the others are leaves).
//   h_divzero_*: x / 0 and x % 0 must reach a diagnostic.
#define VERIF_ON_EXIT(code) on_diag()
static void on_diag(void);
#include "common.h"
#include "parse.c"
#include "penv.h"
#include "c07/ref_eval.h"

#ifndef KSET
#define KSET 0x1fffff      // bit k set: operand-operator kind k (R_* code) is included in h_d2_*
#endif
#ifndef DZSET
#define DZSET ((1 << R_ADD) | (1 << R_NEG) | (1 << R_COND) | (1 << R_SHL) | (1 << R_DIV))  // dividend kinds in h_divzero_*
#endif
#ifndef MASK
#define MASK 7             // bit i set: operand i of the root is an operator node (else a leaf)
#endif
#ifndef CASTSET
#define CASTSET 0   // 0: casts to the eight non-_Bool integer types; 1: casts to _Bool allowed too
#endif
#define R_CASTROOT 100  // root code for "cast of one operand" (cast type symbolic)

typedef struct { uint8_t lit; uint8_t cast; int64_t val; uint8_t anchor; int8_t delta; } LeafIn;
typedef struct { LeafIn l[3]; } OperandIn;
typedef struct { OperandIn c[3]; uint8_t root_cast; } CaseIn;
struct IN_t { CaseIn t[R_NOPS + 1]; uint8_t sel; } IN;   // slot R_NOPS: the depth-1 case
struct IN_t nondet_IN(void);

static Type *real_ty(int s) {   // same selector as rt_sel()
  switch (s) {
  case 1: return ty_bool;  case 2: return ty_char;   case 3: return ty_short;  case 4: return ty_int;
  case 5: return ty_long;  case 6: return ty_uchar;  case 7: return ty_ushort; case 8: return ty_uint;
  default: return ty_ulong;
  }
}
static NodeKind kind_of(int op) {
  switch (op) {
  case R_ADD: return ND_ADD;       case R_SUB: return ND_SUB;       case R_MUL: return ND_MUL;
  case R_DIV: return ND_DIV;       case R_MOD: return ND_MOD;       case R_BITAND: return ND_BITAND;
  case R_BITOR: return ND_BITOR;   case R_BITXOR: return ND_BITXOR; case R_SHL: return ND_SHL;
  case R_SHR: return ND_SHR;       case R_EQ: return ND_EQ;         case R_NE: return ND_NE;
  case R_LT: return ND_LT;         case R_LE: return ND_LE;         case R_LOGAND: return ND_LOGAND;
  case R_LOGOR: return ND_LOGOR;   case R_COMMA: return ND_COMMA;   case R_NEG: return ND_NEG;
  case R_BITNOT: return ND_BITNOT; case R_NOT: return ND_NOT;       default: return ND_COND;
  }
}
static int arity(int op) { return op == R_COND ? 3 : (op == R_NEG || op == R_BITNOT || op == R_NOT || op == R_CASTROOT) ? 1 : 2; }

// restrict one operand of * / % to 8 bits (stated bound; SAT cannot do 64x64 multiplier equivalence)
static bool NARROW;
#ifndef MULB
#define MULB 4      // right operand of * / % is restricted to [-MULB, MULB-1]
#endif
static void mul_bound(int op, RV a, RV b) {
  if (op == R_MUL || op == R_DIV || op == R_MOD) __CPROVER_assume(b.v >= -MULB && b.v < MULB);
}

// ---- leaf: reference value and real node
// Depth-1 harnesses use ANY value of the literal's type (l->val).  Depth-2 harnesses (NARROW) use the
// neighbourhoods [-4,3] of the anchors 0, +-2^7, +-2^8, +-2^15, +-2^16, +-2^31, +-2^32, +-2^63,
// wrapped into the literal's type: every promotion/truncation/sign boundary, few free bits for SAT.
// Roots * / % use the narrow domain at depth 1 too (64-bit multiplier/divider equivalence is out of
// reach of SAT); with the wide domain they would need mul_bound().
static int64_t leaf_val(const LeafIn *l, RT t) {
  if (!NARROW) {
    // representation invariant of ND_NUM: val = mathematical value (unsigned long: bit pattern)
    __CPROVER_assume(l->val == r_canon(t, (uint64_t)l->val));
    return l->val;
  }
  static const uint64_t anchor[16] = {0, 1ULL << 7, 1ULL << 8, 1ULL << 15, 1ULL << 16, 1ULL << 31, 1ULL << 32,
                                      1ULL << 63, 0, -(1ULL << 7), -(1ULL << 8), -(1ULL << 15), -(1ULL << 16),
                                      -(1ULL << 31), -(1ULL << 32), (1ULL << 63) - 1};
  __CPROVER_assume(l->anchor < 16 && l->delta >= -4 && l->delta <= 3);
  return r_canon(t, anchor[l->anchor] + (uint64_t)(int64_t)l->delta);
}
static RV ref_leaf(const LeafIn *l) {
  // literal types the tokenizer produces: int, unsigned, long, unsigned long (6.4.4.1p5)
  __CPROVER_assume(l->lit <= 3);
  RT t = rt_sel(l->lit == 0 ? 4 : l->lit == 1 ? 8 : l->lit == 2 ? 5 : 9);
  RV v = {t, leaf_val(l, t), true};
  __CPROVER_assume(l->cast <= 9);
  if (!CASTSET) __CPROVER_assume(l->cast != 1);
  if (l->cast) v = r_conv(v, rt_sel(l->cast));      // cast 0 = no cast = identity cast to the literal's type
  return v;
}
static Node *node_leaf(const LeafIn *l) {
  RT t = rt_sel(l->lit == 0 ? 4 : l->lit == 1 ? 8 : l->lit == 2 ? 5 : 9);
  Node *n = new_num(leaf_val(l, t), NULL);               // as primary() does for TK_NUM
  n->ty = l->lit == 0 ? ty_int : l->lit == 1 ? ty_uint : l->lit == 2 ? ty_long : ty_ulong;
  // as cast() does.  "No cast" is built as the identity cast to the literal's own type so that the
  // node shape stays concrete for the symbolic executor (eval2 of a bare ND_NUM is the inner step).
  return new_cast(n, l->cast ? real_ty(l->cast) : n->ty);
}

// ---- operand: leaf (k < 0) or operator of kind k over leaves
static RV ref_operand(const OperandIn *c, int k) {
  RV a = ref_leaf(&c->l[0]);
  if (k < 0) return a;
  if (arity(k) == 1) return r_unop(k, a);
  RV b = ref_leaf(&c->l[1]);
  if (k == R_COND) return r_cond(a, b, ref_leaf(&c->l[2]));
  mul_bound(k, a, b);
  return r_binop(k, a, b);
}
static Node *mk_op(int op, Node *a, Node *b, Node *d, int root_cast, bool is_root) {
  // the constructors the parser uses: add() -> new_add/new_sub, cast() -> new_cast, conditional(),
  // unary() -> new_unary, everything else -> new_binary.  new_add/new_sub (which reduce to
  // new_binary(ND_ADD/ND_SUB) on integer operands) are run at the root of the depth-1 harnesses only:
  // their pointer-arithmetic paths make the returned node's kind symbolic for cbmc.
  if (op == R_CASTROOT) return new_cast(a, real_ty(root_cast));
  if (op == R_ADD && is_root) return new_add(a, b, NULL);
  if (op == R_SUB && is_root) return new_sub(a, b, NULL);
  if (op == R_COND) { Node *n = new_node(ND_COND, NULL); n->cond = a; n->then = b; n->els = d; return n; }
  if (arity(op) == 1) return new_unary(kind_of(op), a, NULL);
  return new_binary(kind_of(op), a, b, NULL);
}
static Node *node_operand(const OperandIn *c, int k) {
  Node *a = node_leaf(&c->l[0]);
  if (k < 0) return a;
  Node *b = arity(k) >= 2 ? node_leaf(&c->l[1]) : NULL;
  Node *d = arity(k) == 3 ? node_leaf(&c->l[2]) : NULL;
  return mk_op(k, a, b, d, 0, false);
}

// eval2() hands floating-typed nodes to eval_double(); integer-only trees never get there.  The
// callee is cut (cbmc: --replace-calls eval_double:cut_eval_double) by a stub that ASSERTS this.
long double cut_eval_double(Node *node) {
  VASSERT(0, "eval_double reached on an integer-only expression");
  __CPROVER_assume(0);
  return 0;
}

static bool expect_diag;
static void on_diag(void) {
  if (expect_diag) { VCOVER(); }
  else VASSERT(0, "constant folder diagnoses an expression that C11 defines");
}

// one case: root operator `root` over operands that are operator nodes of kind k (where MASK has the
// operand's bit) or leaves.  root, k, mask are compile-time constants at every call site.
static void fold_case(int root, int k, int mask, const CaseIn *in, bool real_add) {
  RV o[3], want;
  int ar = arity(root);
  for (int i = 0; i < 3; i++)
    if (i < ar) o[i] = ref_operand(&in->c[i], (mask >> i & 1) ? k : -1);
  if (root == R_CASTROOT) {
    __CPROVER_assume(in->root_cast >= 1 && in->root_cast <= 9);
    if (!CASTSET) __CPROVER_assume(in->root_cast != 1);
    want = r_conv(o[0], rt_sel(in->root_cast));
  } else if (root == R_COND) want = r_cond(o[0], o[1], o[2]);
  else if (ar == 1) want = r_unop(root, o[0]);
  else { mul_bound(root, o[0], o[1]); want = r_binop(root, o[0], o[1]); }
  __CPROVER_assume(want.ok);      // only expressions whose evaluation C11 defines

  Node *n[3] = {0};
  for (int i = 0; i < 3; i++)
    if (i < ar) n[i] = node_operand(&in->c[i], (mask >> i & 1) ? k : -1);
  Node *rootn = mk_op(root, n[0], n[1], n[2], in->root_cast, real_add);
  int64_t got = eval(rootn);
  VASSERT(got == want.v, "eval() equals the C11 value of the expression (canonical at its C11 type)");
}

static void d2_cases(int root) {
  for (int k = 0; k < R_NOPS; k++)
    if (KSET >> k & 1)
      fold_case(root, k, MASK, &IN.t[k], false);
}

#define DEF_ROOT(name, R) \
  void h_d1_##name(void) { HAVOC_IN(); NARROW = false; \
                           fold_case(R, -1, 0, &IN.t[R_NOPS], true); VCOVER(); } \
  void h_d2_##name(void) { HAVOC_IN(); NARROW = true; d2_cases(R); VCOVER(); }
DEF_ROOT(add, R_ADD)       DEF_ROOT(sub, R_SUB)       DEF_ROOT(mul, R_MUL)     DEF_ROOT(div, R_DIV)
DEF_ROOT(mod, R_MOD)       DEF_ROOT(bitand, R_BITAND) DEF_ROOT(bitor, R_BITOR) DEF_ROOT(bitxor, R_BITXOR)
DEF_ROOT(shl, R_SHL)       DEF_ROOT(shr, R_SHR)       DEF_ROOT(eq, R_EQ)       DEF_ROOT(ne, R_NE)
DEF_ROOT(lt, R_LT)         DEF_ROOT(le, R_LE)         DEF_ROOT(logand, R_LOGAND) DEF_ROOT(logor, R_LOGOR)
DEF_ROOT(comma, R_COMMA)   DEF_ROOT(neg, R_NEG)       DEF_ROOT(bitnot, R_BITNOT) DEF_ROOT(not, R_NOT)
DEF_ROOT(cond, R_COND)     DEF_ROOT(cast, R_CASTROOT)

// Division by zero in a constant expression must be diagnosed, not executed (C07 / C13).
// The dividend is a leaf (sel == R_NOPS) or an operator node of kind sel over leaves; one case per path.
static void divzero(int op) {
  HAVOC_IN();
  NARROW = true;
  __CPROVER_assume(IN.sel <= R_NOPS);
  for (int k = 0; k <= R_NOPS; k++) {
    if (IN.sel != k) continue;
    if (k < R_NOPS && !(DZSET >> k & 1)) continue;
    int kk = k == R_NOPS ? -1 : k;
    RV a = ref_operand(&IN.t[k].c[0], kk);
    RV b = ref_leaf(&IN.t[k].c[1].l[0]);
    __CPROVER_assume(a.ok && b.v == 0);
    Node *x = node_operand(&IN.t[k].c[0], kk);
    Node *z = node_leaf(&IN.t[k].c[1].l[0]);
    Node *rootn = new_binary(op == R_MOD ? ND_MOD : ND_DIV, x, z, NULL);
    expect_diag = true;
    int64_t got = eval(rootn);
    VASSERT(0, "x / 0 (or x % 0) was folded instead of diagnosed");
  }
}
// The one quotient the host cannot compute: INT64_MIN / -1 and INT64_MIN % -1 raise SIGFPE on x86-64 (idiv), so
// the folder must not execute them (C13: the compiler never dies from a signal; C07: the value is the wrapped one).
// Both operands are leaves over the NARROW domain (which contains INT64_MIN and -1) with any cast; this harness alone
// is run WITH cbmc's signed-overflow check, whose "result of signed div/mod is not representable" property is exactly
// the trap condition (the other harnesses switch that check off: wrapping host arithmetic inside eval2 is not C07's
// subject).
static void divtrap(int op) {
  HAVOC_IN();
  NARROW = true;
  RV a = ref_leaf(&IN.t[R_NOPS].c[0].l[0]);
  RV b = ref_leaf(&IN.t[R_NOPS].c[1].l[0]);
  __CPROVER_assume(a.ok && b.ok && b.v != 0);
  mul_bound(op, a, b);                       // divisor in [-MULB, MULB-1] (contains -1): the stated bound of * / % everywhere in this file
  Node *x = node_leaf(&IN.t[R_NOPS].c[0].l[0]);
  Node *z = node_leaf(&IN.t[R_NOPS].c[1].l[0]);
  Node *rootn = new_binary(op == R_MOD ? ND_MOD : ND_DIV, x, z, NULL);
  add_type(rootn);
  int64_t got = eval(rootn);
  RV want = r_binop(op, a, b);
  if (want.ok) VASSERT(got == want.v, "folded quotient/remainder == C11 value (wrapped for INT64_MIN / -1), computed without trapping");
  VCOVER();
}
void h_divtrap_div(void) { divtrap(R_DIV); }
void h_divtrap_mod(void) { divtrap(R_MOD); }
void h_divzero_div(void) { divzero(R_DIV); }
void h_divzero_mod(void) { divzero(R_MOD); }
