// C07: translation-time constant folding = C11 evaluation.
// A symbolic AST is built with the parser's own constructors (new_num/new_cast/new_binary/
// new_unary/new_add/new_sub), typed by the REAL add_type() (type.c) and folded by the REAL
// eval()/eval2() (parse.c).  The result is compared with the independent reference evaluator
// ref_eval.h (validated against gcc), restricted to expressions whose evaluation C11 defines.
//
// Shape (-DDEPTH=2): root operator ROOT (concrete, -DROOT=<R_* code>) over 1..3 operands; each
// operand is either a leaf or an operator node of SYMBOLIC kind (any of the 20 foldable binary/
// unary/conditional kinds) over leaves.  Leaf = optional cast (any of the 9 integer types) of an
// integer literal (int / unsigned / long / unsigned long, any value of that type).
// -DDEPTH=1: root over leaves.
#define VERIF_ON_EXIT(code) on_diag()
static void on_diag(void);
#include "common.h"
#include "parse.c"
#include "penv.h"
#include "c07/ref_eval.h"

#ifndef ROOT
#define ROOT R_ADD
#endif
#ifndef DEPTH
#define DEPTH 2
#endif
#ifndef CASTSET
#define CASTSET 0   // 0: casts to the eight non-_Bool integer types; 1: casts to _Bool allowed too
#endif
#define R_CASTROOT 100  // ROOT value for "cast of one operand" (cast type symbolic)

typedef struct { uint8_t lit; uint8_t cast; int64_t val; } LeafIn;
typedef struct { uint8_t is_op; uint8_t op; LeafIn l[3]; } OperandIn;
struct IN_t { OperandIn c[3]; uint8_t root_cast; } IN;
struct IN_t nondet_IN(void);

static Type *real_ty(int s) {   // same selector as rt_sel()
  switch (s) {
  case 1: return ty_bool;  case 2: return ty_char;   case 3: return ty_short;  case 4: return ty_int;
  case 5: return ty_long;  case 6: return ty_uchar;  case 7: return ty_ushort; case 8: return ty_uint;
  default: return ty_ulong;
  }
}
static NodeKind kind_of(int op) {
  switch (op) {
  case R_ADD: return ND_ADD;       case R_SUB: return ND_SUB;       case R_MUL: return ND_MUL;
  case R_DIV: return ND_DIV;       case R_MOD: return ND_MOD;       case R_BITAND: return ND_BITAND;
  case R_BITOR: return ND_BITOR;   case R_BITXOR: return ND_BITXOR; case R_SHL: return ND_SHL;
  case R_SHR: return ND_SHR;       case R_EQ: return ND_EQ;         case R_NE: return ND_NE;
  case R_LT: return ND_LT;         case R_LE: return ND_LE;         case R_LOGAND: return ND_LOGAND;
  case R_LOGOR: return ND_LOGOR;   case R_COMMA: return ND_COMMA;   case R_NEG: return ND_NEG;
  case R_BITNOT: return ND_BITNOT; case R_NOT: return ND_NOT;       default: return ND_COND;
  }
}
static int arity(int op) { return op == R_COND ? 3 : (op == R_NEG || op == R_BITNOT || op == R_NOT || op == R_CASTROOT) ? 1 : 2; }

// restrict one operand of * / % to 8 bits (stated bound; SAT cannot do 64x64 multiplier equivalence)
static void mul_bound(int op, RV a, RV b) {
  if (op == R_MUL) __CPROVER_assume(b.v >= -128 && b.v <= 127);
  if (op == R_DIV || op == R_MOD) __CPROVER_assume(b.v >= -128 && b.v <= 127 && (a.v >> 16) == 0);
}

// ---- leaf: reference value and real node
static RV ref_leaf(const LeafIn *l) {
  // literal types the tokenizer produces: int, unsigned, long, unsigned long (6.4.4.1p5); the value
  // is in range of its type (representation invariant of ND_NUM: val = mathematical value, unsigned
  // long as bit pattern)
  __CPROVER_assume(l->lit <= 3);
  RT t = rt_sel(l->lit == 0 ? 4 : l->lit == 1 ? 8 : l->lit == 2 ? 5 : 9);
  __CPROVER_assume(l->val == r_canon(t, (uint64_t)l->val));
  RV v = {t, l->val, true};
  __CPROVER_assume(l->cast <= 9);
  if (!CASTSET) __CPROVER_assume(l->cast != 1);
  if (l->cast) v = r_conv(v, rt_sel(l->cast));
  return v;
}
static Node *node_leaf(const LeafIn *l) {
  Node *n = new_num(l->val, NULL);                       // as primary() does for TK_NUM
  n->ty = l->lit == 0 ? ty_int : l->lit == 1 ? ty_uint : l->lit == 2 ? ty_long : ty_ulong;
  if (l->cast) n = new_cast(n, real_ty(l->cast));        // as cast() does
  return n;
}

// ---- operand: leaf or operator of symbolic kind over leaves
static RV ref_operand(const OperandIn *c) {
  RV a = ref_leaf(&c->l[0]);
  if (DEPTH < 2 || !c->is_op) { return a; }
  __CPROVER_assume(c->is_op == 1 && c->op < R_NOPS);
  RV b = ref_leaf(&c->l[1]);
  RV d = ref_leaf(&c->l[2]);
  if (c->op == R_COND) return r_cond(a, b, d);
  if (arity(c->op) == 1) return r_unop(c->op, a);
  mul_bound(c->op, a, b);
  return r_binop(c->op, a, b);
}
static Node *node_operand(const OperandIn *c) {
  Node *a = node_leaf(&c->l[0]);
  if (DEPTH < 2 || !c->is_op) return a;
  Node *b = node_leaf(&c->l[1]);
  Node *d = node_leaf(&c->l[2]);
  int ar = arity(c->op);
  // new_binary() is what mul()/shift()/relational()/... call; add()/unary()/conditional() build the
  // same node shape for integer operands (new_add/new_sub reduce to new_binary(ND_ADD/ND_SUB))
  Node *n = new_binary(kind_of(c->op), a, ar >= 2 ? b : NULL, NULL);
  if (ar == 3) { n->lhs = NULL; n->rhs = NULL; n->cond = a; n->then = b; n->els = d; }
  return n;
}

static bool expect_diag;
static void on_diag(void) {
  if (expect_diag) { VCOVER(); }
  else VASSERT(0, "constant folder diagnoses an expression that C11 defines");
}

void h_fold(void) {
  HAVOC_IN();
  RV o[3], want;
  for (int i = 0; i < 3; i++)
    if (i < arity(ROOT)) o[i] = ref_operand(&IN.c[i]);
  if (ROOT == R_CASTROOT) {
    __CPROVER_assume(IN.root_cast >= 1 && IN.root_cast <= 9);
    if (!CASTSET) __CPROVER_assume(IN.root_cast != 1);
    want = r_conv(o[0], rt_sel(IN.root_cast));
  } else if (ROOT == R_COND) want = r_cond(o[0], o[1], o[2]);
  else if (arity(ROOT) == 1) want = r_unop(ROOT, o[0]);
  else { mul_bound(ROOT, o[0], o[1]); want = r_binop(ROOT, o[0], o[1]); }
  __CPROVER_assume(want.ok);      // only expressions whose evaluation C11 defines

  Node *n[3] = {0};
  for (int i = 0; i < 3; i++)
    if (i < arity(ROOT)) n[i] = node_operand(&IN.c[i]);
  Node *root;
  if (ROOT == R_CASTROOT) root = new_cast(n[0], real_ty(IN.root_cast));
  else if (ROOT == R_ADD) root = new_add(n[0], n[1], NULL);
  else if (ROOT == R_SUB) root = new_sub(n[0], n[1], NULL);
  else if (ROOT == R_COND) { root = new_node(ND_COND, NULL); root->cond = n[0]; root->then = n[1]; root->els = n[2]; }
  else if (arity(ROOT) == 1) root = new_unary(kind_of(ROOT), n[0], NULL);
  else root = new_binary(kind_of(ROOT), n[0], n[1], NULL);

  int64_t got = eval(root);
  VASSERT(got == want.v, "eval() equals the C11 value of the expression (canonical at its C11 type)");
  VCOVER();
}

// Division by zero in a constant expression must be diagnosed, not executed (C07 / C13).
void h_divzero(void) {
  HAVOC_IN();
  RV a = ref_operand(&IN.c[0]);
  RV b = ref_leaf(&IN.c[1].l[0]);
  __CPROVER_assume(a.ok && b.v == 0);
  Node *x = node_operand(&IN.c[0]);
  Node *z = node_leaf(&IN.c[1].l[0]);
  Node *root = new_binary(ROOT == R_MOD ? ND_MOD : ND_DIV, x, z, NULL);
  expect_diag = true;
  int64_t got = eval(root);
  VASSERT(0, "x / 0 (or x % 0) was folded instead of diagnosed");
}
