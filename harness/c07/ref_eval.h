// Reference evaluator for C11 integer constant expressions on x86-64 (LP64), written from
// C11 6.3.1 (conversions, promotions, usual arithmetic conversions) and 6.5.x (operators).
// Every node is evaluated AT ITS C11 TYPE; a value is kept in canonical form: the int64_t
// whose mathematical value equals the C value (so an `unsigned` 0xffffffff is 4294967295, an
// `unsigned long` keeps its bit pattern).  `ok` is false when C11 leaves the evaluated
// expression undefined (signed overflow, shift count out of range, negative/overflowing
// signed left shift, division by zero, MIN / -1).  Implementation-defined cases follow the
// psABI/gcc: out-of-range conversion to a signed type wraps modulo 2^N, >> of a negative
// value is arithmetic.
// Independent of chibicc: plain integers only.  Shared by the cbmc harness c07/fold.c and by
// the native oracle validator (lib/c07_oracle.py) that compares it with gcc.
#ifndef REF_EVAL_H
#define REF_EVAL_H
#include <stdint.h>
#include <stdbool.h>

typedef struct { int sz; bool uns; bool isbool; } RT;
typedef struct { RT t; int64_t v; bool ok; } RV;

// operator codes (independent numbering; the harness maps them to NodeKind)
enum { R_ADD, R_SUB, R_MUL, R_DIV, R_MOD, R_BITAND, R_BITOR, R_BITXOR, R_SHL, R_SHR,
       R_EQ, R_NE, R_LT, R_LE, R_LOGAND, R_LOGOR, R_COMMA,      // binary
       R_NEG, R_BITNOT, R_NOT,                                   // unary
       R_COND, R_NOPS };

// type selector 1..9: _Bool, char, short, int, long, unsigned char/short/int/long
static RT rt_sel(int s) {
  RT t = {4, false, false};
  switch (s) {
  case 1: t.sz = 1; t.uns = true; t.isbool = true; break;   // _Bool is an unsigned type
  case 2: t.sz = 1; break;
  case 3: t.sz = 2; break;
  case 4: t.sz = 4; break;
  case 5: t.sz = 8; break;
  case 6: t.sz = 1; t.uns = true; break;
  case 7: t.sz = 2; t.uns = true; break;
  case 8: t.sz = 4; t.uns = true; break;
  default: t.sz = 8; t.uns = true; break;
  }
  return t;
}

// canonical value of the low sz*8 bits of `bits` read at type t
static int64_t r_canon(RT t, uint64_t bits) {
  switch (t.sz) {
  case 1: return t.uns ? (int64_t)(uint8_t)bits : (int64_t)(int8_t)bits;
  case 2: return t.uns ? (int64_t)(uint16_t)bits : (int64_t)(int16_t)bits;
  case 4: return t.uns ? (int64_t)(uint32_t)bits : (int64_t)(int32_t)bits;
  default: return (int64_t)bits;
  }
}

// 6.3.1.2 / 6.3.1.3: conversion of an integer value to integer type t
static RV r_conv(RV a, RT t) {
  RV r = {t, 0, a.ok};
  if (t.isbool)
    r.v = a.v != 0;
  else
    r.v = r_canon(t, (uint64_t)a.v);
  return r;
}

// 6.3.1.1p2 integer promotions
static RT r_promote_t(RT t) {
  if (t.sz < 4) { RT i = {4, false, false}; return i; }
  t.isbool = false;
  return t;
}

// 6.3.1.8 usual arithmetic conversions (integer operands)
static RT r_uac(RT a, RT b) {
  a = r_promote_t(a); b = r_promote_t(b);
  if (a.sz == b.sz) { a.uns = a.uns || b.uns; return a; }
  return a.sz > b.sz ? a : b;       // long can represent every unsigned int
}

static bool r_fits(RT t, int64_t v) {     // signed types only
  if (t.sz == 8) return true;
  return v >= -2147483648LL && v <= 2147483647LL;
}

static RV r_unop(int op, RV a) {
  RV r;
  if (op == R_NOT) { r.t.sz = 4; r.t.uns = false; r.t.isbool = false; r.v = !a.v; r.ok = a.ok; return r; }
  RT t = r_promote_t(a.t);
  a = r_conv(a, t);
  r.t = t; r.ok = a.ok;
  if (op == R_BITNOT) { r.v = r_canon(t, ~(uint64_t)a.v); return r; }
  // R_NEG
  if (t.uns) { r.v = r_canon(t, 0 - (uint64_t)a.v); return r; }
  if (a.v == (t.sz == 8 ? INT64_MIN : -2147483648LL)) { r.ok = false; r.v = 0; return r; }
  r.v = -a.v;
  return r;
}

static RV r_binop(int op, RV a, RV b) {
  RV r;
  RT i = {4, false, false};
  r.v = 0;
  if (op == R_COMMA) { b.ok = a.ok && b.ok; return b; }
  if (op == R_LOGAND) { r.t = i; r.ok = a.ok && (a.v == 0 || b.ok); r.v = a.v != 0 && b.v != 0; return r; }
  if (op == R_LOGOR)  { r.t = i; r.ok = a.ok && (a.v != 0 || b.ok); r.v = a.v != 0 || b.v != 0; return r; }
  r.ok = a.ok && b.ok;
  if (op == R_SHL || op == R_SHR) {
    RT t = r_promote_t(a.t);
    a = r_conv(a, t);
    b = r_conv(b, r_promote_t(b.t));
    r.t = t;
    int64_t c = b.v;
    bool c_ok = b.t.uns && b.t.sz == 8 ? (uint64_t)c < (uint64_t)(t.sz * 8) : (c >= 0 && c < t.sz * 8);
    if (!c_ok) { r.ok = false; return r; }
    if (op == R_SHR) {
      r.v = t.uns ? r_canon(t, (t.sz == 8 ? (uint64_t)a.v : (uint64_t)(uint32_t)a.v) >> c) : (a.v >> c);
      return r;
    }
    if (t.uns) { r.v = r_canon(t, (uint64_t)a.v << c); return r; }
    // signed <<: E1 nonnegative and E1 * 2^E2 representable (6.5.7p4)
    if (a.v < 0) { r.ok = false; return r; }
    int64_t lim = (t.sz == 8 ? INT64_MAX : 2147483647LL) >> c;
    if (a.v > lim) { r.ok = false; return r; }
    r.v = (int64_t)((uint64_t)a.v << c);
    return r;
  }
  RT t = r_uac(a.t, b.t);
  a = r_conv(a, t); b = r_conv(b, t);
  uint64_t ua = (uint64_t)a.v, ub = (uint64_t)b.v;
  switch (op) {
  case R_EQ: r.t = i; r.v = a.v == b.v; return r;
  case R_NE: r.t = i; r.v = a.v != b.v; return r;
  case R_LT: r.t = i; r.v = t.uns ? ua < ub : a.v < b.v; return r;
  case R_LE: r.t = i; r.v = t.uns ? ua <= ub : a.v <= b.v; return r;
  }
  r.t = t;
  switch (op) {
  case R_BITAND: r.v = r_canon(t, ua & ub); return r;
  case R_BITOR:  r.v = r_canon(t, ua | ub); return r;
  case R_BITXOR: r.v = r_canon(t, ua ^ ub); return r;
  case R_ADD:
    if (t.uns) { r.v = r_canon(t, ua + ub); return r; }
    if ((b.v > 0 && a.v > INT64_MAX - b.v) || (b.v < 0 && a.v < INT64_MIN - b.v)) { r.ok = false; return r; }
    r.v = a.v + b.v;
    if (!r_fits(t, r.v)) r.ok = false;
    return r;
  case R_SUB:
    if (t.uns) { r.v = r_canon(t, ua - ub); return r; }
    if ((b.v < 0 && a.v > INT64_MAX + b.v) || (b.v > 0 && a.v < INT64_MIN + b.v)) { r.ok = false; return r; }
    r.v = a.v - b.v;
    if (!r_fits(t, r.v)) r.ok = false;
    return r;
  case R_MUL: {
    if (t.uns) { r.v = r_canon(t, ua * ub); return r; }
    __int128 p = (__int128)a.v * (__int128)b.v;
    if (p > (__int128)INT64_MAX || p < (__int128)INT64_MIN) { r.ok = false; return r; }
    r.v = (int64_t)p;
    if (!r_fits(t, r.v)) r.ok = false;
    return r;
  }
  case R_DIV:
  case R_MOD:
    if (b.v == 0) { r.ok = false; return r; }
    if (t.uns) { r.v = r_canon(t, op == R_DIV ? ua / ub : ua % ub); return r; }
    if (b.v == -1 && a.v == (t.sz == 8 ? INT64_MIN : -2147483648LL)) { r.ok = false; return r; }
    r.v = op == R_DIV ? a.v / b.v : a.v % b.v;
    return r;
  }
  r.ok = false;
  return r;
}

// 6.5.15: the result has the type given by the usual arithmetic conversions of operands 2 and 3
static RV r_cond(RV c, RV a, RV b) {
  RT t = r_uac(a.t, b.t);
  RV r = r_conv(c.v != 0 ? a : b, t);
  r.ok = c.ok && (c.v != 0 ? a.ok : b.ok);
  return r;
}

#endif
