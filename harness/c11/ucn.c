// C11 (literals), universal character names: the real convert_universal_chars (tokenize.c) on EVERY buffer of
// <= UCN_N symbols over the alphabet { \ u U 0 4 e A x } followed by the newline read_file() guarantees, against
// a reference written from C11 5.1.1.2/6.4.3: `\uXXXX` / `\UXXXXXXXX` with a non-zero value is replaced by the
// UTF-8 encoding of that value; a backslash followed by any other character is an escape sequence and is kept as a
// unit (so the second backslash of `\\` never starts a universal character name); everything else is copied.
#include "common.h"
#include "assert_hook.h"
#include "tokenize.c"

Type *ty_int, *ty_uint, *ty_long, *ty_ulong, *ty_char, *ty_ushort, *ty_float, *ty_double, *ty_ldouble;
Type *array_of(Type *base, int len) { return 0; }
char *format(char *fmt, ...) { return 0; }
void *hashmap_get2(HashMap *map, char *key, int keylen) { return 0; }
void hashmap_put(HashMap *map, char *key, void *val) {}

#ifndef UCN_N
#define UCN_N 11
#endif
struct IN_t {
  unsigned char n;            // number of symbols
  unsigned char sym[UCN_N];   // index into ALPHA
} IN;
struct IN_t nondet_IN(void);

static const char ALPHA[8] = { '\\', 'u', 'U', '0', '4', 'e', 'A', 'x' };

static int ref_hex(char c) {
  if ('0' <= c && c <= '9') return c - '0';
  if ('a' <= c && c <= 'f') return c - 'a' + 10;
  if ('A' <= c && c <= 'F') return c - 'A' + 10;
  return -1;
}

// value of `len` hex digits at s, 0 if one of them is not a hex digit (or the value is 0)
static uint32_t ref_ucn(const char *s, int len) {
  uint32_t v = 0;
  for (int i = 0; i < len; i++) {
    int h = ref_hex(s[i]);
    if (h < 0) return 0;
    v = v * 16 + h;
  }
  return v;
}

void h_ucn(void) {
  HAVOC_IN();
  __CPROVER_assume(IN.n <= UCN_N);
  char src[UCN_N + 2], buf[UCN_N + 2], want[UCN_N + 8];
  for (int i = 0; i < UCN_N; i++) {
    __CPROVER_assume(IN.sym[i] < 8);
    src[i] = ALPHA[IN.sym[i]];
  }
  src[IN.n] = '\n';           // read_file(): the last line is terminated by a newline
  src[IN.n + 1] = 0;
  for (int i = 0; i <= IN.n + 1; i++) buf[i] = src[i];

  // reference
  int len = IN.n + 1, i = 0, o = 0;
  while (i < len) {
    if (src[i] == '\\') {
      uint32_t v;
      if (src[i + 1] == 'u' && i + 6 <= len && (v = ref_ucn(src + i + 2, 4)) != 0) {
        o += encode_utf8(want + o, v);
        i += 6;
        continue;
      }
      if (src[i + 1] == 'U' && i + 10 <= len && (v = ref_ucn(src + i + 2, 8)) != 0) {
        o += encode_utf8(want + o, v);
        i += 10;
        continue;
      }
      want[o++] = src[i++];     // an escape sequence is a unit: its second character starts nothing
      want[o++] = src[i++];
      continue;
    }
    want[o++] = src[i++];
  }
  want[o] = 0;

  convert_universal_chars(buf);

  for (int k = 0; k <= o; k++)
    VASSERT(buf[k] == want[k], "convert_universal_chars: \\uXXXX / \\UXXXXXXXX replaced by UTF-8, escape sequences (incl. \\\\) kept as units");
  VCOVER();
}
