// C11: UTF-8 codec of unicode.c, for every Unicode scalar value (symbolic code point).
#include "common.h"
#include "unicode.c"

// environment: error_at lives in tokenize.c; a diagnostic ends the path
noreturn void error_at(char *loc, char *fmt, ...) { verif_exit(1); }
noreturn void error(char *fmt, ...) { verif_exit(1); }

struct IN_t { uint32_t c; unsigned char raw[5]; } IN;
struct IN_t nondet_IN(void);

// Reference UTF-8 encoder written from Unicode 3.9 Table 3-6 with div/mod, not shifts.
static int ref_encode(unsigned char *o, uint32_t c) {
  if (c < 0x80) { o[0] = c; return 1; }
  if (c < 0x800) { o[0] = 0xC0 + c / 64; o[1] = 0x80 + c % 64; return 2; }
  if (c < 0x10000) { o[0] = 0xE0 + c / 4096; o[1] = 0x80 + (c / 64) % 64; o[2] = 0x80 + c % 64; return 3; }
  o[0] = 0xF0 + c / 262144; o[1] = 0x80 + (c / 4096) % 64; o[2] = 0x80 + (c / 64) % 64; o[3] = 0x80 + c % 64;
  return 4;
}

void h_utf8_roundtrip(void) {
  HAVOC_IN();
  uint32_t c = IN.c;
  __CPROVER_assume(c <= 0x10FFFF && !(c >= 0xD800 && c <= 0xDFFF));
  char buf[8] = {0};
  unsigned char ref[8] = {0};
  int n = encode_utf8(buf, c);
  int m = ref_encode(ref, c);
  VASSERT(n == m, "encode_utf8 length equals reference length");
  for (int i = 0; i < 4; i++)
    VASSERT((unsigned char)buf[i] == ref[i], "encode_utf8 bytes equal reference bytes");
  char *np = 0;
  uint32_t d = decode_utf8(&np, buf);
  VASSERT(d == c, "decode(encode(c)) == c");
  VASSERT(np == buf + n, "decode consumes exactly the encoded length");
  VCOVER();
}

// decode on an arbitrary byte sequence that IS well-formed UTF-8 (reference predicate) yields the
// code point the reference decoder yields and consumes the reference length.
void h_utf8_decode_wellformed(void) {
  HAVOC_IN();
  unsigned char *r = IN.raw;
  r[4] = 0;
  int len; uint32_t want;
  if (r[0] < 0x80) { len = 1; want = r[0]; }
  else if (r[0] >= 0xC2 && r[0] <= 0xDF) { len = 2; want = (r[0] - 0xC0) * 64u + (r[1] - 0x80); }
  else if (r[0] >= 0xE0 && r[0] <= 0xEF) { len = 3; want = (r[0] - 0xE0) * 4096u + (r[1] - 0x80) * 64u + (r[2] - 0x80); }
  else { __CPROVER_assume(r[0] >= 0xF0 && r[0] <= 0xF4); len = 4;
         want = (r[0] - 0xF0) * 262144u + (r[1] - 0x80) * 4096u + (r[2] - 0x80) * 64u + (r[3] - 0x80); }
  for (int i = 1; i < len; i++) __CPROVER_assume(r[i] >= 0x80 && r[i] <= 0xBF);
  __CPROVER_assume(r[0] != 0);
  char *np = 0;
  uint32_t d = decode_utf8(&np, (char *)r);
  VASSERT(d == want, "decode_utf8 value equals reference decoder");
  VASSERT(np == (char *)r + len, "decode_utf8 consumed length equals reference");
  VCOVER();
}

// identifier classes: is_ident1/is_ident2 against the C11 Annex D tables (typed independently below)
static const uint32_t D1[][2] = { // D.1 ranges of characters allowed
  {0x00A8,0x00A8},{0x00AA,0x00AA},{0x00AD,0x00AD},{0x00AF,0x00AF},{0x00B2,0x00B5},{0x00B7,0x00BA},
  {0x00BC,0x00BE},{0x00C0,0x00D6},{0x00D8,0x00F6},{0x00F8,0x00FF},
  {0x0100,0x167F},{0x1681,0x180D},{0x180F,0x1FFF},
  {0x200B,0x200D},{0x202A,0x202E},{0x203F,0x2040},{0x2054,0x2054},{0x2060,0x206F},
  {0x2070,0x218F},{0x2460,0x24FF},{0x2776,0x2793},{0x2C00,0x2DFF},{0x2E80,0x2FFF},
  {0x3004,0x3007},{0x3021,0x302F},{0x3031,0x303F},
  {0x3040,0xD7FF},
  {0xF900,0xFD3D},{0xFD40,0xFDCF},{0xFDF0,0xFE44},{0xFE47,0xFFFD},
  {0x10000,0x1FFFD},{0x20000,0x2FFFD},{0x30000,0x3FFFD},{0x40000,0x4FFFD},{0x50000,0x5FFFD},
  {0x60000,0x6FFFD},{0x70000,0x7FFFD},{0x80000,0x8FFFD},{0x90000,0x9FFFD},{0xA0000,0xAFFFD},
  {0xB0000,0xBFFFD},{0xC0000,0xCFFFD},{0xD0000,0xDFFFD},{0xE0000,0xEFFFD},
};
static const uint32_t D2[][2] = { // D.2 ranges disallowed initially
  {0x0300,0x036F},{0x1DC0,0x1DFF},{0x20D0,0x20FF},{0xFE20,0xFE2F},
};
static bool in_tab(const uint32_t t[][2], int n, uint32_t c) {
  for (int i = 0; i < n; i++) if (t[i][0] <= c && c <= t[i][1]) return true;
  return false;
}

void h_ident_classes(void) {
  HAVOC_IN();
  uint32_t c = IN.c;
  __CPROVER_assume(c <= 0x10FFFF);
  bool ascii_start = (c >= 'a' && c <= 'z') || (c >= 'A' && c <= 'Z') || c == '_' || c == '$';
  bool digit = c >= '0' && c <= '9';
  bool d1 = in_tab(D1, sizeof D1 / sizeof D1[0], c);
  bool d2 = in_tab(D2, sizeof D2 / sizeof D2[0], c);
  bool want2 = c < 0x80 ? (ascii_start || digit) : d1;          // may appear in an identifier
  bool want1 = c < 0x80 ? ascii_start : (d1 && !d2);            // may start an identifier
  VASSERT(is_ident2(c) == want2, "is_ident2 == Annex D.1 (+ASCII, $)");
  VASSERT(is_ident1(c) == want1, "is_ident1 == Annex D.1 minus D.2 (+ASCII, $)");
  VCOVER();
}
