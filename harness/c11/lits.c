// C11 (literals), tokenize.c kernels:
//   h_int_ladder     convert_pp_int: type and value for a symbolic 64-bit value x base x suffix against
//                    the C11 6.4.4.1p5 table (LP64: int 32, long = long long 64 bits)
//   h_int_badsuffix  convert_pp_int rejects ill-formed suffixes (returns false, token untouched)
//   h_escape         read_escaped_char on symbolic bytes against a reference (C11 6.4.4.4)
//   h_utf16 / h_utf32 / h_wchar   u"c" / U"c" / L'c' for EVERY Unicode scalar value c
#include "common.h"
#include "assert_hook.h"
#include "tokenize.c"

// ---- environment -------------------------------------------------------------------------------
static Type T_int = {.kind = TY_INT, .size = 4, .align = 4};
static Type T_uint = {.kind = TY_INT, .size = 4, .align = 4, .is_unsigned = true};
static Type T_long = {.kind = TY_LONG, .size = 8, .align = 8};
static Type T_ulong = {.kind = TY_LONG, .size = 8, .align = 8, .is_unsigned = true};
static Type T_char = {.kind = TY_CHAR, .size = 1, .align = 1};
static Type T_ushort = {.kind = TY_SHORT, .size = 2, .align = 2, .is_unsigned = true};
static Type T_float = {.kind = TY_FLOAT, .size = 4, .align = 4};
static Type T_double = {.kind = TY_DOUBLE, .size = 8, .align = 8};
static Type T_ldouble = {.kind = TY_LDOUBLE, .size = 16, .align = 16};
Type *ty_int = &T_int, *ty_uint = &T_uint, *ty_long = &T_long, *ty_ulong = &T_ulong, *ty_char = &T_char,
     *ty_ushort = &T_ushort, *ty_float = &T_float, *ty_double = &T_double, *ty_ldouble = &T_ldouble;
static Type T_arr;
Type *array_of(Type *base, int len) {   // type.c contract: array type of `len` elements of `base`
  T_arr.kind = TY_ARRAY; T_arr.base = base; T_arr.array_len = len; T_arr.size = base->size * len; T_arr.align = base->align;
  return &T_arr;
}
char *format(char *fmt, ...) { return 0; }
void *hashmap_get2(HashMap *map, char *key, int keylen) { return 0; }
void hashmap_put(HashMap *map, char *key, void *val) {}
// unicode.c is linked real (extra_src): decode_utf8, encode_utf8, is_ident1/2

struct IN_t {
  uint64_t val;             // value of the digit sequence
  unsigned char base_sel;   // 0 decimal, 1 "0x", 2 "0X", 3 octal, 4 "0b", 5 "0B"
  unsigned char suf;        // index into SUF / BADSUF
  unsigned char esc[5];     // bytes after the backslash
  uint32_t c;               // a Unicode scalar value
} IN;
struct IN_t nondet_IN(void);

// ---- integer literal ladder --------------------------------------------------------------------
static const char *const PREFIX[6] = { "", "0x", "0X", "0", "0b", "0B" };
static const int BASE[6] = { 10, 16, 16, 8, 2, 2 };
// every well-formed suffix (C11 6.4.4.1p1): u? x (l|ll)? in both orders, case per part
static const struct { const char *s; bool u; int l; } SUF[23] = {
  {"", 0, 0},
  {"u", 1, 0}, {"U", 1, 0},
  {"l", 0, 1}, {"L", 0, 1}, {"ll", 0, 2}, {"LL", 0, 2},
  {"ul", 1, 1}, {"uL", 1, 1}, {"Ul", 1, 1}, {"UL", 1, 1}, {"lu", 1, 1}, {"lU", 1, 1}, {"Lu", 1, 1}, {"LU", 1, 1},
  {"ull", 1, 2}, {"uLL", 1, 2}, {"Ull", 1, 2}, {"ULL", 1, 2}, {"llu", 1, 2}, {"llU", 1, 2}, {"LLu", 1, 2}, {"LLU", 1, 2},
};
static const char *const BADSUF[10] = { "lL", "Ll", "uu", "lul", "llul", "lll", "ulu", "x", "lLu", "ulL" };

static char NUMBUF[80];
static char *digits_start;    // where convert_pp_int must start strtoul (octal: at the leading 0)
static char *digits_end;      // where the digit sequence ends (contract of strtoul's endptr)
static int expect_base;
static int strtoul_calls;
// cbmc: --replace-calls strtoul:stub_strtoul.  Contract of strtoul on a valid digit sequence in the
// given base: returns its value, sets *end just past it.  The digit TEXT under cbmc is the
// placeholder "1" (what the digits spell is the C library's business); natively the real strtoul
// reads the real digits of IN.val written below.
unsigned long stub_strtoul(const char *p, char **end, int base) {
  strtoul_calls++;
  VASSERT(base == expect_base, "convert_pp_int derives the base from the prefix (C11 6.4.4.1p1/p2, 0b as GNU extension)");
  VASSERT(p == digits_start, "strtoul is started at the digit sequence");
  *end = digits_end;
  return IN.val;
}

static int build_number(const char *suffix) {
  int n = 0;
  __CPROVER_assume(IN.base_sel < 6);
  for (const char *q = PREFIX[IN.base_sel]; *q; q++) NUMBUF[n++] = *q;
  digits_start = NUMBUF + (IN.base_sel == 3 ? 0 : n);
#ifdef NATIVE
  {  // the real digits of IN.val
    char tmp[70]; int m = 0; uint64_t v = IN.val; int b = BASE[IN.base_sel];
    do { tmp[m++] = "0123456789abcdef"[v % b]; v /= b; } while (v);
    while (m > 0) NUMBUF[n++] = tmp[--m];
  }
#else
  NUMBUF[n++] = '1';
#endif
  digits_end = NUMBUF + n;
  for (const char *q = suffix; *q; q++) NUMBUF[n++] = *q;
  NUMBUF[n] = 0;
  expect_base = BASE[IN.base_sel];
  return n;
}

void h_int_ladder(void) {
  HAVOC_IN();
  __CPROVER_assume(IN.suf < 23);
  bool u = SUF[IN.suf].u; int l = SUF[IN.suf].l;
  bool dec = IN.base_sel == 0;
  uint64_t v = IN.val;
  // C11 6.4.4.1p6: a constant that fits no type of its list has no type -> outside the property
  if (dec && !u) __CPROVER_assume(v <= 0x7fffffffffffffffULL);
  int n = build_number(SUF[IN.suf].s);
  static Token tok;
  tok.kind = TK_PP_NUM; tok.loc = NUMBUF; tok.len = n;

  bool ok = convert_pp_int(&tok);

  VASSERT(ok, "well-formed integer constant is accepted");
  VASSERT(tok.kind == TK_NUM, "becomes a TK_NUM token");
  VASSERT((uint64_t)tok.val == v, "value is the value of the digit sequence");
  // C11 6.4.4.1p5: the first type of the list that can represent the value
  int size; bool uns;
  if (u) { uns = true; size = (l == 0 && v <= 0xffffffffULL) ? 4 : 8; }
  else if (dec) { uns = false; size = (l == 0 && v <= 0x7fffffffULL) ? 4 : 8; }
  else if (l == 0) {
    if (v <= 0x7fffffffULL) { size = 4; uns = false; }
    else if (v <= 0xffffffffULL) { size = 4; uns = true; }
    else if (v <= 0x7fffffffffffffffULL) { size = 8; uns = false; }
    else { size = 8; uns = true; }
  } else { size = 8; uns = v > 0x7fffffffffffffffULL; }
  VASSERT(tok.ty && tok.ty->size == size, "C11 6.4.4.1p5: width of the type of the constant");
  VASSERT(tok.ty && tok.ty->is_unsigned == uns, "C11 6.4.4.1p5: signedness of the type of the constant");
  VASSERT(tok.ty == ty_int || tok.ty == ty_uint || tok.ty == ty_long || tok.ty == ty_ulong, "an integer type");
  VCOVER();
}

void h_int_badsuffix(void) {
  HAVOC_IN();
  __CPROVER_assume(IN.suf < 10);
  int n = build_number(BADSUF[IN.suf]);
  static Token tok;
  tok.kind = TK_PP_NUM; tok.loc = NUMBUF; tok.len = n; tok.ty = NULL;
  bool ok = convert_pp_int(&tok);
  VASSERT(!ok, "ill-formed integer suffix is not accepted as an integer constant");
  VASSERT(tok.kind == TK_PP_NUM && tok.ty == NULL, "rejected token is left untouched");
  VCOVER();
}

// ---- escape sequences ----------------------------------------------------------------------------
static int hexval(unsigned char c) {
  if (c >= '0' && c <= '9') return c - '0';
  if (c >= 'a' && c <= 'f') return c - 'a' + 10;
  if (c >= 'A' && c <= 'F') return c - 'A' + 10;
  return -1;
}
void h_escape(void) {
  HAVOC_IN();
  char buf[6];
  for (int i = 0; i < 5; i++) buf[i] = IN.esc[i];
  buf[5] = 0;
  __CPROVER_assume(buf[0] != 0);
  unsigned char *e = (unsigned char *)buf;
  // reference (C11 6.4.4.4; \e is the GNU extension chibicc documents)
  int want, used;
  if (e[0] >= '0' && e[0] <= '7') {
    want = e[0] - '0'; used = 1;
    if (e[1] >= '0' && e[1] <= '7') { want = want * 8 + (e[1] - '0'); used = 2;
      if (e[2] >= '0' && e[2] <= '7') { want = want * 8 + (e[2] - '0'); used = 3; } }
  } else if (e[0] == 'x') {
    __CPROVER_assume(hexval(e[1]) >= 0);            // otherwise a diagnostic ("invalid hex escape sequence")
    want = 0; used = 1;
    for (int i = 1; i < 5; i++) { if (hexval(e[i]) < 0) break; want = want * 16 + hexval(e[i]); used = i + 1; }
  } else {
    used = 1;
    switch (e[0]) {
    case 'a': want = 7; break;   case 'b': want = 8; break;   case 't': want = 9; break;
    case 'n': want = 10; break;  case 'v': want = 11; break;  case 'f': want = 12; break;
    case 'r': want = 13; break;  case 'e': want = 27; break;
    default: want = (char)e[0];  // \' \" \? \\ stand for themselves; so does any other character here
    }
  }
  char *np = NULL;
  int got = read_escaped_char(&np, buf);
  VASSERT(!verif_diag, "no diagnostic");
  VASSERT(got == want, "read_escaped_char value == reference (C11 6.4.4.4)");
  VASSERT(np == buf + used, "read_escaped_char consumes exactly the escape sequence");
  VCOVER();
}

// ---- u"c", U"c", L'c' for every scalar value --------------------------------------------------------
static File lit_file = {.name = "l.c", .display_name = "l.c", .file_no = 1};
static char LIT[12];
static int build_lit(char prefix, char quote) {
  __CPROVER_assume(IN.c <= 0x10FFFF && !(IN.c >= 0xD800 && IN.c <= 0xDFFF));
  __CPROVER_assume(IN.c != 0 && IN.c != '\n' && IN.c != '\\' && IN.c != (uint32_t)quote);  // need an escape / end the literal
  int n = 0;
  LIT[n++] = prefix; LIT[n++] = quote;
  n += encode_utf8(LIT + n, IN.c);     // real encoder (proved against the reference in utf8/roundtrip)
  LIT[n++] = quote; LIT[n] = 0;
  lit_file.contents = LIT;
  current_file = &lit_file;
  return n;
}
void h_utf16(void) {
  HAVOC_IN();
  int n = build_lit('u', '"');
  Token *t = read_utf16_string_literal(LIT, LIT + 1);
  uint16_t *s = (uint16_t *)t->str;
  uint32_t c = IN.c;
  VASSERT(t->kind == TK_STR && t->loc == LIT && t->len == n, "token spans the literal");
  if (c < 0x10000) {
    VASSERT(t->ty->array_len == 2 && t->ty->base == ty_ushort, "one UTF-16 unit + terminator");
    VASSERT(s[0] == c && s[1] == 0, "BMP code point is one unit");
  } else {
    VASSERT(t->ty->array_len == 3 && t->ty->base == ty_ushort, "surrogate pair + terminator");
    VASSERT(s[0] >= 0xD800 && s[0] <= 0xDBFF && s[1] >= 0xDC00 && s[1] <= 0xDFFF, "high then low surrogate");
    VASSERT(0x10000 + (s[0] - 0xD800u) * 1024u + (s[1] - 0xDC00u) == c, "surrogate pair decodes to the code point (Unicode 3.9 D91)");
    VASSERT(s[2] == 0, "terminated");
  }
  VCOVER();
}
void h_utf32(void) {
  HAVOC_IN();
  int n = build_lit('U', '"');
  Token *t = read_utf32_string_literal(LIT, LIT + 1, ty_uint);
  uint32_t *s = (uint32_t *)t->str;
  VASSERT(t->kind == TK_STR && t->loc == LIT && t->len == n, "token spans the literal");
  VASSERT(t->ty->array_len == 2 && t->ty->base == ty_uint, "one UTF-32 unit + terminator");
  VASSERT(s[0] == IN.c && s[1] == 0, "UTF-32 unit is the code point");
  VCOVER();
}
void h_wchar(void) {
  HAVOC_IN();
  int n = build_lit('L', '\'');
  Token *t = read_char_literal(LIT, LIT + 1, ty_int);
  VASSERT(t->kind == TK_NUM && t->loc == LIT && t->len == n, "token spans the literal");
  VASSERT(t->val == (int64_t)IN.c && t->ty == ty_int, "wide character constant has the code point as value, type int (wchar_t)");
  VCOVER();
}

// diagnostic path (cbmc only: --replace-calls error_at:stub_error_at): the real error_at scans the
// source line, measures its display width, prints and exits; here it just ends the path.
noreturn void stub_error_at(char *loc, char *fmt, ...) { verif_exit(1); }
