// C18: #line arithmetic of preprocess.c on symbolic line numbers.
// The REAL preprocess() / preprocess2() / read_line_marker() / copy_line() / expand_macro() /
// line_macro() / add_builtin() and the final `line_no += line_delta` pass run over this token list
// (built by hand; physical line numbers q0 < p < q1 < q2 and the directive's value n are symbolic):
//
//     line q0:  __LINE__
//     line p :  # line n            (FORM 0)      or      # n      (FORM 1, GNU line marker)
//     line q1:  __LINE__  X
//     line q2:  __LINE__
//
// C11 6.10.4p3: the line FOLLOWING the directive has number n, so on line q the presumed line is
// n + (q - p - 1).
//
// Stubs (other translation units; each is that unit's contract restricted to what is reached):
//   convert_pp_tokens : TK_PP_NUM -> TK_NUM of type int, value taken from the token (the numeric
//                       value of the spelling is C11's business)
//   format("%d\n", v) + tokenize(new_file(..)) in new_num_token : one TK_PP_NUM token of value v
//   hashmap_* : association list (specification of a dictionary; C17)
//   equal/skip/consume : same semantics as tokenize.c, bounded loops
//   error_tok : ends the path (asserted not to happen)
static int expect_no_diag = 1;
#define VERIF_ON_EXIT(code) VASSERT(!expect_no_diag, "no diagnostic on a well-formed #line directive")
#include "common.h"
#include "assert_hook.h"
#include "preprocess.c"

// ---------------------------------------------------------------- environment
StringArray include_paths;
char *base_file = "f.c";
noreturn void error(char *fmt, ...) { verif_exit(1); }
noreturn void error_tok(Token *tok, char *fmt, ...) { verif_exit(1); }
void warn_tok(Token *tok, char *fmt, ...) {}
bool equal(Token *tok, char *op) {
  int n = 0;
  bool same = true;
  for (; op[n]; n++)
    if (n < tok->len && tok->loc[n] != op[n]) same = false;
  return same && tok->len == n;
}
Token *skip(Token *tok, char *op) {
  if (!equal(tok, op)) error_tok(tok, "expected '%s'", op);
  return tok->next;
}
bool consume(Token **rest, Token *tok, char *str) {
  if (equal(tok, str)) { *rest = tok->next; return true; }
  *rest = tok;
  return false;
}
static Type verif_int = { TY_INT, 4, 4 };
// type.c pieces eval_const_expr refers to (never reached here; definitions so that the native replay links)
static Type verif_long = {.kind = TY_LONG, .size = 8, .align = 8};
static Type verif_ulong = {.kind = TY_LONG, .size = 8, .align = 8, .is_unsigned = true};
Type *ty_int = &verif_int, *ty_long = &verif_long, *ty_ulong = &verif_ulong;
bool is_integer(Type *ty) {
  TypeKind k = ty->kind;
  return k == TY_BOOL || k == TY_CHAR || k == TY_SHORT || k == TY_INT || k == TY_LONG || k == TY_ENUM;
}
void convert_pp_tokens(Token *tok) {
  for (Token *t = tok; t->kind != TK_EOF; t = t->next)
    if (t->kind == TK_PP_NUM) { t->kind = TK_NUM; t->ty = &verif_int; }
}
int64_t const_expr(Token **rest, Token *tok) { VASSERT(0, "harness: const_expr not reached"); return 0; }
bool file_exists(char *path) { return false; }
File *new_file(char *name, int file_no, char *contents) {
  File *f = calloc(1, sizeof(File));
  f->name = name; f->display_name = name; f->file_no = file_no; f->contents = contents;
  return f;
}
static int verif_fmt_int;
static int verif_fmt_calls;
char *format(char *fmt, ...) {
  va_list ap;
  va_start(ap, fmt);
  if (fmt[0] == '%' && fmt[1] == 'd') { verif_fmt_int = va_arg(ap, int); verif_fmt_calls++; }
  va_end(ap);
  static char buf[4] = "0\n";
  return buf;
}
Token *tokenize(File *file) {   // only reached from new_num_token: the number format() was given
  Token *t = calloc(1, sizeof(Token)), *e = calloc(1, sizeof(Token));
  t->kind = TK_PP_NUM; t->val = verif_fmt_int; t->loc = file->contents; t->len = 1; t->file = file;
  t->line_no = 1; t->next = e;
  e->kind = TK_EOF; e->loc = file->contents + 1; e->file = file; e->line_no = 1; e->at_bol = true;
  return t;
}
Token *tokenize_file(char *path) { return NULL; }
Token *tokenize_string_literal(Token *tok, Type *basety) { return tok; }
Type *array_of(Type *base, int len) { return base; }

#define HM_MAX 2
static struct { HashMap *map; char *key; int keylen; void *val; bool live; } hm[HM_MAX];
static int hm_find(HashMap *map, char *key, int keylen) {
  for (int i = 0; i < HM_MAX; i++) {
    if (!hm[i].live || hm[i].map != map || hm[i].keylen != keylen) continue;
    bool same = true;
    for (int k = 0; k < 10; k++) if (k < keylen && hm[i].key[k] != key[k]) same = false;
    if (same) return i;
  }
  return -1;
}
static int hm_strlen(char *s) { int n = 0; while (n < 10 && s[n]) n++; return n; }
void *hashmap_get2(HashMap *map, char *key, int keylen) {
  VASSERT(keylen <= 10, "harness bound: keys <= 10 bytes");
  int i = hm_find(map, key, keylen);
  return i < 0 ? NULL : hm[i].val;
}
void *hashmap_get(HashMap *map, char *key) { return hashmap_get2(map, key, hm_strlen(key)); }
void hashmap_put(HashMap *map, char *key, void *val) {
  int n = hm_strlen(key), i = hm_find(map, key, n);
  if (i < 0) for (int k = HM_MAX - 1; k >= 0; k--) if (!hm[k].live) i = k;
  VASSERT(i >= 0, "harness bound: dictionary capacity");
  if (i < 0) return;
  hm[i].map = map; hm[i].key = key; hm[i].keylen = n; hm[i].val = val; hm[i].live = true;
}
void hashmap_delete(HashMap *map, char *key) { int i = hm_find(map, key, hm_strlen(key)); if (i >= 0) hm[i].live = false; }

// ---------------------------------------------------------------- the token list
#ifndef FORM
#define FORM 0
#endif
struct IN_t { int q0, p, q1, q2, n; int depth, la, da, lb, db, lc, dc; int lm; } IN;
struct IN_t nondet_IN(void);

static File F = { .name = "f.c", .display_name = "f.c", .file_no = 1, .contents = "" };
static Token *first, *last;
static Token *mk(TokenKind k, char *sp, int line, bool bol) {
  Token *t = calloc(1, sizeof(Token));
  t->kind = k; t->loc = sp; t->len = hm_strlen(sp); t->file = &F; t->line_no = line;
  t->at_bol = bol; t->has_space = !bol;
  if (last) last->next = t; else first = t;
  last = t;
  return t;
}

static Token *r0, *rw, *r1, *rx, *r2, *reof;   // result tokens
static void run_form(bool macro_operand);
static void run(void) {
  HAVOC_IN();
  __CPROVER_assume(1 <= IN.q0 && IN.q0 < IN.p && IN.p < IN.q1 && IN.q1 < IN.q2 && IN.q2 <= (1 << 20));
  __CPROVER_assume(0 <= IN.n && IN.n <= (1 << 30));
  run_form(false);
}
// macro_operand: the directive is `#line L` with `#define L <n>` written on physical line IN.lm (anywhere)
static void run_form(bool macro_operand) {
  first = last = NULL;
  F.line_delta = 0;
  verif_fmt_calls = 0;
  mk(TK_IDENT, "__LINE__", IN.q0, true);
  Token *w = mk(TK_IDENT, "W", IN.q0, false);       // an ordinary token BEFORE the directive
#ifdef INCOND          // the directive sits inside a conditional group:  #ifdef __LINE__ ... #endif
  mk(TK_PUNCT, "#", IN.q0, true); mk(TK_IDENT, "ifdef", IN.q0, false); mk(TK_IDENT, "__LINE__", IN.q0, false);
#endif
  mk(TK_PUNCT, "#", IN.p, true);
  if (FORM == 0) mk(TK_IDENT, "line", IN.p, false);
  if (macro_operand) {
    Token *body = calloc(1, sizeof(Token)), *bend = calloc(1, sizeof(Token));
    body->kind = TK_PP_NUM; body->loc = "5"; body->len = 1; body->file = &F; body->line_no = IN.lm; body->val = IN.n; body->has_space = true;
    bend->kind = TK_EOF; bend->loc = ""; bend->file = &F; bend->line_no = IN.lm; bend->at_bol = true;
    body->next = bend;
    add_macro("L", true, body);
    mk(TK_IDENT, "L", IN.p, false);
  } else {
    Token *num = mk(TK_PP_NUM, "5", IN.p, false);
    num->val = IN.n;
  }
  mk(TK_IDENT, "__LINE__", IN.q1, true);
  Token *x = mk(TK_IDENT, "X", IN.q1, false);
  mk(TK_IDENT, "__LINE__", IN.q2, true);
#ifdef INCOND
  mk(TK_PUNCT, "#", IN.q2 + 1, true); mk(TK_IDENT, "endif", IN.q2 + 1, false);
#endif
  Token *eof = mk(TK_EOF, "", IN.q2 + 1, true);
  eof->len = 0;

  add_builtin("__LINE__", line_macro);
  Token *r = preprocess(first);

  VASSERT(!verif_diag, "no diagnostic");
  r0 = r; rw = r0->next; r1 = rw->next; rx = r1->next; r2 = rx->next; reof = r2->next;
  VASSERT(r0->kind == TK_NUM && rw == w && r1->kind == TK_NUM && rx == x && r2->kind == TK_NUM && reof->kind == TK_EOF,
          "output is  NUM W NUM X NUM EOF  (the directive line vanished, each __LINE__ became a number)");
  VASSERT(verif_fmt_calls == 3, "three __LINE__ expansions");
}

// C11 6.10.4p5: a #line operand that is not a digit sequence is macro-replaced and then processed as if it had been written
// literally - WHERE the macro was defined must not matter.  Differential: the same file with `#line L` (L defined on an
// arbitrary line) and with the literal; every observable of the two runs agrees.
void h_line_macro_operand(void) {
  run();
  long a0 = r0->val, a1 = r1->val, a2 = r2->val; int ax = rx->line_no, ae = reof->line_no;
  __CPROVER_assume(1 <= IN.lm && IN.lm <= (1 << 20));
  run_form(true);
  VASSERT(r0->val == a0 && r1->val == a1 && r2->val == a2, "__LINE__ after `#line L` == after `#line <replacement of L>`, wherever L was defined");
  VASSERT(rx->line_no == ax && reof->line_no == ae, "diagnostic/.loc lines after `#line L` == after the literal form");
  VCOVER();
}

void h_line_before(void) {
  run();
  VASSERT(r0->val == IN.q0, "__LINE__ before any #line == physical line");
  VASSERT(rw->line_no == IN.q0, "the line recorded for diagnostics/.loc of a token BEFORE the directive is its physical line (a later #line does not renumber it)");
  VCOVER();
}
void h_line_relative(void) {
  run();
  VASSERT(r2->val - r1->val == IN.q2 - IN.q1, "after #line, __LINE__ advances with the physical line");
  VASSERT(rx->line_no == r1->val, "line recorded for diagnostics/.loc of a token == __LINE__ on that line");
  VCOVER();
}
void h_line_eof(void) {   // the EOF token (position of "unexpected end of file"-type diagnostics)
  run();
  VASSERT(reof->line_no - rx->line_no == IN.q2 + 1 - IN.q1, "EOF token's line is adjusted by #line like every other token's");
  VCOVER();
}
void h_line_c11(void) {
  run();
  VASSERT(r1->val == IN.n + (IN.q1 - IN.p - 1), "C11 6.10.4p3: line after `#line n` has number n (so line q has n + (q-p-1))");
  VASSERT(r2->val == IN.n + (IN.q2 - IN.p - 1), "C11 6.10.4p3 on a later line");
  VASSERT(rx->line_no == IN.n + (IN.q1 - IN.p - 1), "C11 6.10.4p3 for the diagnostic/.loc line of an ordinary token");
  VCOVER();
}

// __LINE__ / __FILE__ spelled in the body of a macro that is defined in ANOTHER file (a header) than the one using
// it, with different #line offsets in the files: C11 6.10.8.1 - __LINE__ is the presumed line of the current source
// line, i.e. of the outermost macro invocation (origin chain of depth 0..2), in THAT file's numbering; __FILE__ is
// that file's presumed name.
static File FA = { .name = "def.h", .display_name = "def.h", .file_no = 2, .contents = "" };
static File FB = { .name = "mid.h", .display_name = "mid.h", .file_no = 3, .contents = "" };
static File FC = { .name = "use.c", .display_name = "use.c", .file_no = 1, .contents = "" };
void h_line_macro_origin(void) {
  HAVOC_IN();
  __CPROVER_assume(0 <= IN.depth && IN.depth <= 2);
  __CPROVER_assume(1 <= IN.la && IN.la <= (1 << 20) && 1 <= IN.lb && IN.lb <= (1 << 20) && 1 <= IN.lc && IN.lc <= (1 << 20));
  __CPROVER_assume(-IN.la < IN.da && IN.da <= (1 << 30) && -IN.lb < IN.db && IN.db <= (1 << 30) && -IN.lc < IN.dc && IN.dc <= (1 << 30));
  FA.line_delta = IN.da; FB.line_delta = IN.db; FC.line_delta = IN.dc;
  Token *a = calloc(1, sizeof(Token)), *b = calloc(1, sizeof(Token)), *c = calloc(1, sizeof(Token));
  a->kind = TK_IDENT; a->loc = "__LINE__"; a->len = 8; a->file = &FA; a->line_no = IN.la;
  b->kind = TK_IDENT; b->loc = "M"; b->len = 1; b->file = &FB; b->line_no = IN.lb;
  c->kind = TK_IDENT; c->loc = "N"; c->len = 1; c->file = &FC; c->line_no = IN.lc;
  // depth 0: __LINE__ written directly in def.h; 1: in the body of M used in mid.h; 2: M used in the body of N used in use.c
  Token *outer = a;
  if (IN.depth >= 1) { a->origin = b; outer = b; }
  if (IN.depth >= 2) { b->origin = c; outer = c; }
  Token *r = line_macro(a);
  VASSERT(verif_fmt_int == outer->line_no + outer->file->line_delta,
          "__LINE__ in a macro body == presumed line (physical + that file's #line offset) of the outermost invocation");
  Token *f = file_macro(a);
  // new_str_token: quote_string(name) (real) is handed to new_file()/tokenize() (stubs): the text is "name" in quotes
  char *txt = f->file->contents, *want = outer->file->display_name;
  bool same = txt[0] == '"';
  for (int k = 0; k < 5; k++) same = same && txt[1 + k] == want[k];
  VASSERT(same && txt[6] == '"', "__FILE__ in a macro body == presumed name of the file of the outermost invocation");
  VCOVER();
}
