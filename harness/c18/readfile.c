// C18: physical line structure survives the way a file is READ. The REAL tokenize_file() / read_file() of tokenize.c
// run against a stdio model in which fread() delivers the file in chunks of ARBITRARY (symbolic) length - fread may
// return fewer bytes than requested - so a CR LF pair, a backslash-newline or a newline can straddle any chunk
// boundary. tokenize() itself is cut (it is handed the File): its contents must equal the reference phase 1-2 text of
// the whole file, i.e. the number and positions of the newlines every later line number is derived from:
//   CR LF and a lone CR -> LF, a missing final newline is added, backslash-newline pairs are deleted and the
//   deleted newlines re-inserted at the end of the logical line.
// Stubs: fopen/fread/open_memstream/fwrite/fputc/fflush/fclose (memory-backed), realloc-free file table.
#ifndef RF_N
#define RF_N 5
#endif
#include "common.h"
#include "assert_hook.h"

struct IN_t { unsigned char len, sym[RF_N], chunk[RF_N + 1], failat; } IN;   // failat: index of the fread() call that fails (255: none)
struct IN_t nondet_IN(void);
static const char RF_ALPHA[4] = { '\r', '\n', 'a', '\\' };

static char rf_in[RF_N + 1];
static int rf_pos, rf_reads, rf_err;
static char rf_mem[RF_N + 4];
static int rf_memlen;
static char **rf_bufp; static size_t *rf_lenp;
static FILE rf_in_file, rf_out_file;
static FILE *rf_fopen(const char *path, const char *mode) { return &rf_in_file; }
static size_t rf_fread(void *dst, size_t sz, size_t n, FILE *f) {
  int remaining = IN.len - rf_pos;
  if (rf_reads == IN.failat) { rf_reads++; rf_err = 1; return 0; }   // read error (EIO, EISDIR...): short count + error indicator
  if (remaining <= 0) return 0;
  int k = IN.chunk[rf_reads < RF_N ? rf_reads : RF_N];        // arbitrary positive count <= what is left / asked for
  rf_reads++;
  __CPROVER_assume(k >= 1 && k <= remaining && (size_t)k <= n);
  for (int i = 0; i < RF_N; i++) if (i < k) ((char *)dst)[i] = rf_in[rf_pos + i];
  rf_pos += k;
  return k;
}
static FILE *rf_open_memstream(char **bufp, size_t *lenp) { rf_bufp = bufp; rf_lenp = lenp; rf_memlen = 0; return &rf_out_file; }
static void rf_sync(void) { *rf_bufp = rf_mem; *rf_lenp = rf_memlen; }
static size_t rf_fwrite(const void *src, size_t sz, size_t n, FILE *f) {
  for (int i = 0; i < RF_N; i++) if ((size_t)i < n && rf_memlen < RF_N + 3) rf_mem[rf_memlen++] = ((const char *)src)[i];
  return n;
}
static int rf_fputc(int c, FILE *f) { if (rf_memlen < RF_N + 3) rf_mem[rf_memlen++] = (char)c; rf_sync(); return c; }
static int rf_fflush(FILE *f) { rf_sync(); return 0; }
static int rf_ferror(FILE *f) { return f == &rf_in_file ? rf_err : 0; }
static void rf_free(void *p) {}
static int rf_fclose(FILE *f) { if (f == &rf_out_file) rf_sync(); return 0; }
#define fopen rf_fopen
#define fread rf_fread
#define open_memstream rf_open_memstream
#define fwrite rf_fwrite
#undef fputc
#define fputc rf_fputc
#define fflush rf_fflush
#define fclose rf_fclose
#undef ferror
#define ferror rf_ferror
#define free rf_free                      /* the memstream buffer belongs to the model (static storage) */
#include "tokenize.c"
#undef ferror
#undef free
#undef fopen
#undef fread
#undef open_memstream
#undef fwrite
#undef fputc
#undef fflush
#undef fclose

Type *ty_int, *ty_uint, *ty_long, *ty_ulong, *ty_float, *ty_double, *ty_ldouble, *ty_char, *ty_ushort;
Type *array_of(Type *base, int len) { return 0; }
char *format(char *fmt, ...) { return 0; }
uint32_t decode_utf8(char **new_pos, char *p) { *new_pos = p + 1; return (unsigned char)*p; }
int encode_utf8(char *buf, uint32_t c) { buf[0] = c; return 1; }
bool is_ident1(uint32_t c) { return false; }
bool is_ident2(uint32_t c) { return false; }
int display_width(char *p, int len) { return len; }
void *hashmap_get2(HashMap *map, char *key, int keylen) { return 0; }
void hashmap_put(HashMap *map, char *key, void *val) {}

static char *seen_contents;
Token *stub_tokenize(File *file) { seen_contents = file->contents; static Token eof = {.kind = TK_EOF}; return &eof; }

void h_readfile_newlines(void) {
  HAVOC_IN();
  __CPROVER_assume(IN.len <= RF_N && IN.failat == 255);
  for (int i = 0; i < RF_N; i++) { __CPROVER_assume(IN.sym[i] < 4); rf_in[i] = i < IN.len ? RF_ALPHA[IN.sym[i]] : 0; }
  // ---- reference (C11 5.1.1.2 phases 1-2 as tokenize.c documents them) ----
  char p1[RF_N + 2]; int n1 = 0;
  for (int i = 0; i < RF_N; i++) {
    if (i >= IN.len) continue;
    if (rf_in[i] == '\r' && i + 1 < IN.len && rf_in[i + 1] == '\n') continue;     // CR LF -> LF (counted at the LF)
    p1[n1++] = rf_in[i] == '\r' ? '\n' : rf_in[i];                                // a lone CR ends a line too
  }
  if (n1 == 0 || p1[n1 - 1] != '\n') p1[n1++] = '\n';                              // the last line is terminated
  char want[RF_N + 3]; int o = 0, pending = 0;
  for (int i = 0; i < RF_N + 1; i++) {
    if (i >= n1) continue;
    if (p1[i] == '\\' && i + 1 < n1 && p1[i + 1] == '\n') { pending++; i++; continue; }     // splice: delete, remember the newline
    if (p1[i] == '\n') { want[o++] = '\n'; for (int k = 0; k < RF_N; k++) if (k < pending) want[o++] = '\n'; pending = 0; continue; }
    want[o++] = p1[i];
  }
  for (int k = 0; k < RF_N; k++) if (k < pending) want[o++] = '\n';
  want[o] = 0;

  rf_pos = rf_reads = 0;
  Token *t = tokenize_file("f.c");
  VASSERT(t != NULL && seen_contents != NULL, "the file is read and handed to the tokenizer");
  for (int k = 0; k < RF_N + 3; k++)
    if (k <= o) VASSERT(seen_contents[k] == want[k], "text after phases 1-2 (newline structure) does not depend on how fread() chunks the file");
  VCOVER();
}

// C14 (unreadable input): when any fread() of the input reports an error - the input is a directory, the medium fails -
// tokenize_file() must NOT hand a truncated text to the compiler as if it were the file: it returns NULL, which both
// callers (must_tokenize_file in main.c, include_file in preprocess.c) turn into "cannot open file" and a non-zero exit.
void h_readfile_error(void) {
  HAVOC_IN();
  __CPROVER_assume(IN.len <= RF_N && IN.failat <= RF_N);
  for (int i = 0; i < RF_N; i++) { __CPROVER_assume(IN.sym[i] < 4); rf_in[i] = i < IN.len ? RF_ALPHA[IN.sym[i]] : 0; }
  rf_pos = rf_reads = rf_err = 0;
  seen_contents = NULL;
  Token *t = tokenize_file("f.c");
  if (rf_err) {
    VASSERT(t == NULL && seen_contents == NULL, "a read error on the input is reported (NULL), not compiled as a shorter file");
    VCOVER();
  }
}
