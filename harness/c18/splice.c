// C18: line numbers survive translation phases 1-2 as chibicc implements them.
// For EVERY buffer of <= NBUF bytes over the alphabet { '\\', LF, CR, 'a', ' ' } the real
// canonicalize_newline + remove_backslash_newline (tokenize.c) are run, then the real
// add_line_numbers on one token per surviving non-newline character, and compared with the
// physical lines of the ORIGINAL buffer computed by the reference below (C11 5.1.1.2 phases 1-2:
// CR LF / CR / LF end a physical line; a backslash immediately followed by a line end is deleted
// together with it).
#include "common.h"
#include "assert_hook.h"
#include "tokenize.c"

// environment of tokenize.c that these functions do not reach
Type *ty_int, *ty_uint, *ty_long, *ty_ulong, *ty_float, *ty_double, *ty_ldouble, *ty_char, *ty_ushort, *ty_uint;
Type *array_of(Type *base, int len) { return 0; }
char *format(char *fmt, ...) { return 0; }
uint32_t decode_utf8(char **new_pos, char *p) { *new_pos = p + 1; return (unsigned char)*p; }
int encode_utf8(char *buf, uint32_t c) { buf[0] = c; return 1; }
bool is_ident1(uint32_t c) { return false; }
bool is_ident2(uint32_t c) { return false; }
int display_width(char *p, int len) { return len; }
void *hashmap_get2(HashMap *map, char *key, int keylen) { return 0; }
void hashmap_put(HashMap *map, char *key, void *val) {}

#ifndef NBUF
#define NBUF 6
#endif

struct IN_t {
  unsigned char len;          // 0..NBUF
  unsigned char sym[NBUF];    // index into the alphabet
} IN;
struct IN_t nondet_IN(void);

static const char ALPHA[5] = { '\\', '\n', '\r', 'a', ' ' };

static void splice_common(int mode) {
  HAVOC_IN();
  __CPROVER_assume(IN.len <= NBUF);
  char orig[NBUF + 1], buf[NBUF + 1];
  for (int i = 0; i < NBUF; i++) {
    __CPROVER_assume(IN.sym[i] < 5);
    orig[i] = i < IN.len ? ALPHA[IN.sym[i]] : 0;
  }
  orig[NBUF] = 0;
  for (int i = 0; i <= NBUF; i++) buf[i] = orig[i];

  // ---- reference: surviving characters of the original with their physical line, and the number
  //      of splices between the start of their logical line and them ----
  char rch[NBUF]; int rline[NBUF]; int rlag[NBUF]; int rn = 0;
  int line = 1, pending = 0; bool splicing = false;
  for (int i = 0; i < NBUF; i++) {
    if (i >= IN.len) break;
    char c = orig[i];
    if (c == '\r' && i + 1 < IN.len && orig[i + 1] == '\n') continue;              // CR LF counts at the LF
    if (c == '\r' || c == '\n') {
      line++;
      if (splicing) pending++; else pending = 0;
      splicing = false;
      continue;
    }
    if (c == '\\' && i + 1 < IN.len && (orig[i + 1] == '\n' || orig[i + 1] == '\r')) { splicing = true; continue; }  // spliced away
    rch[rn] = c; rline[rn] = line; rlag[rn] = pending; rn++;
  }
  int rnewlines = line - 1;

  // ---- the real code ----
  canonicalize_newline(buf);
  remove_backslash_newline(buf);

  int n = 0, newlines = 0;
  while (n <= NBUF && buf[n]) { if (buf[n] == '\n') newlines++; n++; }

  // one token per surviving non-newline character, then the real add_line_numbers
  static Token toks[NBUF + 1];
  static File file;
  int nt = 0;
  for (int i = 0; i < NBUF; i++) {
    if (i >= n) break;
    if (buf[i] == '\n') continue;
    toks[nt].loc = buf + i; toks[nt].len = 1; toks[nt].kind = TK_PUNCT;
    if (nt > 0) toks[nt - 1].next = &toks[nt];
    nt++;
  }
  toks[nt].loc = buf + n; toks[nt].len = 0; toks[nt].kind = TK_EOF; toks[nt].next = NULL;
  if (nt > 0) toks[nt - 1].next = &toks[nt];
  file.contents = buf;
  current_file = &file;
  add_line_numbers(&toks[0]);

  if (mode == 0) {
    VASSERT(n <= IN.len, "processed buffer is not longer than the original");
    VASSERT(newlines == rnewlines, "number of newlines == number of physical line ends of the original");
    VASSERT(nt == rn, "the surviving characters are those of the reference (only CR, LF and spliced backslashes vanish)");
    VASSERT(toks[nt].line_no == 1 + rnewlines, "EOF token is on the last line");
  }
  __CPROVER_assume(nt == rn);   // (asserted in mode 0)
  for (int k = 0; k < NBUF; k++) {
    if (k >= nt) break;
    if (mode == 0) VASSERT(*toks[k].loc == rch[k], "surviving characters keep their order and value");
    if (mode == 1 && rlag[k] == 0)
      VASSERT(toks[k].line_no == rline[k], "no splice earlier on its logical line: computed line == physical line");
    if (mode == 2)
      VASSERT(toks[k].line_no == rline[k] - rlag[k], "computed line == physical line minus the splices since the start of the logical line");
    if (mode == 3)
      VASSERT(toks[k].line_no == rline[k], "C11 6.10.4p2: computed line == physical line, also after a splice");
  }
  VCOVER();
}
void h_splice_count(void) { splice_common(0); }
void h_splice_unspliced(void) { splice_common(1); }
void h_splice_lag(void) { splice_common(2); }
void h_splice_c11(void) { splice_common(3); }
