// C15: symbol emission of codegen.c.  Real emit_data / emit_text on a SYMBOLIC Obj x opt_fcommon;
// println's vfprintf is replaced by a recorder of (format, arguments), and the recorded directive
// sequence is compared with the table (binding, section kind, size, alignment) written from the
// ELF/gas conventions the property names: .local/.globl, .comm vs .data/.bss/.tdata/.tbss.
#include "common.h"
#ifndef NATIVE
#define TRY(stmt) do { stmt; } while (0)
#endif

enum { D_LOCAL = 1, D_GLOBL, D_COMM, D_DATA, D_BSS, D_TDATA, D_TBSS, D_TEXT, D_TYPE_OBJ, D_TYPE_FUNC, D_SIZE, D_ALIGN,
       D_LABEL, D_ZERO, D_BYTE, D_QUAD, D_OTHER,
       A_LOCAL, A_VLA, A_RIP, A_GOT, A_TLSGD, A_TLSCALL, A_FS, A_TPOFF };
#define MAXEV 24
static struct { int d; const char *s; long a, b; } ev[MAXEV];
static int nev;
static bool fmt_is(const char *f, const char *lit) {
  for (int i = 0; i < 40; i++) {
    if (f[i] != lit[i]) return false;
    if (!f[i]) return true;
  }
  return false;
}
static int verif_record(const char *fmt, va_list ap) {
  if (nev >= MAXEV) { nev++; return 0; }
  int d = D_OTHER; const char *s = 0; long a = 0, b = 0;
  if (fmt_is(fmt, "  .local %s")) { d = D_LOCAL; s = va_arg(ap, char *); }
  else if (fmt_is(fmt, "  .globl %s")) { d = D_GLOBL; s = va_arg(ap, char *); }
  else if (fmt_is(fmt, "  .comm %s, %d, %d")) { d = D_COMM; s = va_arg(ap, char *); a = va_arg(ap, int); b = va_arg(ap, int); }
  else if (fmt_is(fmt, "  .data")) d = D_DATA;
  else if (fmt_is(fmt, "  .bss")) d = D_BSS;
  else if (fmt_is(fmt, "  .section .tdata,\"awT\",@progbits")) d = D_TDATA;
  else if (fmt_is(fmt, "  .section .tbss,\"awT\",@nobits")) d = D_TBSS;
  else if (fmt_is(fmt, "  .text")) d = D_TEXT;
  else if (fmt_is(fmt, "  .type %s, @object")) { d = D_TYPE_OBJ; s = va_arg(ap, char *); }
  else if (fmt_is(fmt, "  .type %s, @function")) { d = D_TYPE_FUNC; s = va_arg(ap, char *); }
  else if (fmt_is(fmt, "  .size %s, %d")) { d = D_SIZE; s = va_arg(ap, char *); a = va_arg(ap, int); }
  else if (fmt_is(fmt, "  .align %d")) { d = D_ALIGN; a = va_arg(ap, int); }
  else if (fmt_is(fmt, "%s:")) { d = D_LABEL; s = va_arg(ap, char *); }
  else if (fmt_is(fmt, "  .zero %d")) { d = D_ZERO; a = va_arg(ap, int); }
  else if (fmt_is(fmt, "  lea %d(%%rbp), %%rax")) { d = A_LOCAL; a = va_arg(ap, int); }
  else if (fmt_is(fmt, "  mov %d(%%rbp), %%rax")) { d = A_VLA; a = va_arg(ap, int); }
  else if (fmt_is(fmt, "  lea %s(%%rip), %%rax")) { d = A_RIP; s = va_arg(ap, char *); }
  else if (fmt_is(fmt, "  mov %s@GOTPCREL(%%rip), %%rax")) { d = A_GOT; s = va_arg(ap, char *); }
  else if (fmt_is(fmt, "  data16 lea %s@tlsgd(%%rip), %%rdi")) { d = A_TLSGD; s = va_arg(ap, char *); }
  else if (fmt_is(fmt, "  call __tls_get_addr@PLT")) d = A_TLSCALL;
  else if (fmt_is(fmt, "  mov %%fs:0, %%rax")) d = A_FS;
  else if (fmt_is(fmt, "  add $%s@tpoff, %%rax")) { d = A_TPOFF; s = va_arg(ap, char *); }
#ifdef NATIVE
  else if (fmt_is(fmt, "  .byte %d")) { d = D_BYTE; a = va_arg(ap, int); }
#else
  // cbmc's va_list model stores the argument at its unpromoted type (char)
  else if (fmt_is(fmt, "  .byte %d")) { d = D_BYTE; a = va_arg(ap, char); }
#endif
  ev[nev].d = d; ev[nev].s = s; ev[nev].a = a; ev[nev].b = b;
  nev++;
  return 0;
}
#undef vfprintf
#define vfprintf(f, fmt, ap) verif_record(fmt, ap)
#include "codegen.c"
#ifdef NATIVE
// native replay links only this file; these imports of codegen.c are never called by emit_data/emit_text here
#pragma weak get_input_files
#pragma weak is_flonum
#pragma weak is_integer
#pragma weak is_numeric
#pragma weak pointer_to
#pragma weak format
#pragma weak strarray_push
#pragma weak add_type
#pragma weak new_cast
#pragma weak ty_int
#pragma weak ty_long
#pragma weak ty_ulong
#endif

struct IN_t {
  unsigned char is_static, is_tentative, is_tls, has_init, is_array, fcommon, align_log, is_definition, is_live;
  unsigned char is_local, is_func, is_vla, fpic;
  unsigned char size;
  signed char init[4];
} IN;
struct IN_t nondet_IN(void);

noreturn void error(char *fmt, ...) { verif_exit(1); }
noreturn void error_tok(Token *tok, char *fmt, ...) { verif_exit(1); }
bool opt_fcommon = true;
bool opt_fpic;
void stub_gen_stmt(Node *node) {}

static char name[] = "sym";
static int count_ev(int d) { int n = 0; for (int i = 0; i < MAXEV; i++) if (i < nev && ev[i].d == d) n++; return n; }

void h_emit_data(void) {
  HAVOC_IN();
  __CPROVER_assume(IN.is_static <= 1 && IN.is_tentative <= 1 && IN.is_tls <= 1 && IN.has_init <= 1 && IN.is_array <= 1 &&
                   IN.fcommon <= 1 && IN.align_log <= 5 && IN.size >= 1 && IN.size <= 32);
  // representation invariant of global_variable(): tentative => no initializer
  if (IN.is_tentative) __CPROVER_assume(!IN.has_init);
  if (IN.has_init) __CPROVER_assume(IN.size <= 4);
  static Type ty; static Obj var;
  ty.kind = IN.is_array ? TY_ARRAY : TY_INT; ty.size = IN.size; ty.align = 1 << IN.align_log;
  var.name = name; var.ty = &ty; var.align = 1 << IN.align_log;
  var.is_definition = true; var.is_static = IN.is_static; var.is_tentative = IN.is_tentative; var.is_tls = IN.is_tls;
  var.init_data = IN.has_init ? (char *)IN.init : NULL;
  opt_fcommon = IN.fcommon;
  nev = 0;
  emit_data(&var);

  int size = IN.size, align = 1 << IN.align_log;
  int want_align = (IN.is_array && size >= 16 && align < 16) ? 16 : align;
  VASSERT(nev >= 2 && nev <= MAXEV, "directive count");
  VASSERT(ev[0].d == (IN.is_static ? D_LOCAL : D_GLOBL) && ev[0].s == name, "binding: .local for internal linkage, .globl otherwise");
  VASSERT(count_ev(D_LOCAL) + count_ev(D_GLOBL) == 1, "exactly one binding directive");
  if (IN.fcommon && IN.is_tentative && !IN.is_tls) {       // a thread-local object is never a common symbol
    VASSERT(nev == 2 && ev[1].d == D_COMM && ev[1].s == name && ev[1].a == size && ev[1].b == want_align,
            "-fcommon: a tentative definition is a common symbol of the object's size and alignment, and nothing else");
  } else {
    VASSERT(count_ev(D_COMM) == 0, "no common symbol under -fno-common or for a real definition");
    int sect = IN.has_init ? (IN.is_tls ? D_TDATA : D_DATA) : (IN.is_tls ? D_TBSS : D_BSS);
    VASSERT(ev[1].d == sect, "section: .data/.tdata with initializer, .bss/.tbss without");
    VASSERT(count_ev(D_DATA) + count_ev(D_BSS) + count_ev(D_TDATA) + count_ev(D_TBSS) == 1, "exactly one section");
    VASSERT(count_ev(D_ALIGN) == 1 && count_ev(D_LABEL) == 1, "one .align and one label");
    VASSERT(count_ev(D_TYPE_OBJ) == 1 && count_ev(D_SIZE) == 1, "every defined object carries its symbol type and size (.type @object, .size), also in .bss/.tbss");
    int bytes = 0;
    for (int i = 0; i < MAXEV; i++) {
      if (i >= nev) continue;
      if (ev[i].d == D_ALIGN) VASSERT(ev[i].a == want_align, "alignment (arrays of >= 16 bytes are at least 16-aligned)");
      if (ev[i].d == D_LABEL) VASSERT(ev[i].s == name, "label is the symbol");
      if (ev[i].d == D_ZERO) VASSERT(!IN.has_init && ev[i].a == size, ".zero covers the whole object");
      if (ev[i].d == D_SIZE) VASSERT(ev[i].a == size, ".size is the object size");
      if (ev[i].d == D_BYTE) { VASSERT(IN.has_init && bytes < 4 && ev[i].a == IN.init[bytes], "initializer bytes in order"); bytes++; }
    }
    if (IN.has_init) VASSERT(bytes == size && count_ev(D_ZERO) == 0, "initialised object: exactly size bytes");
    else VASSERT(count_ev(D_ZERO) == 1 && bytes == 0, "uninitialised object: one .zero");
  }
  VCOVER();
}

void h_emit_text(void) {
  HAVOC_IN();
  __CPROVER_assume(IN.is_static <= 1 && IN.is_definition <= 1 && IN.is_live <= 1);
  static Type fty, rty; static Obj fn, bottom; static Node body;
  rty.kind = TY_VOID; rty.size = 1; rty.align = 1;
  fty.kind = TY_FUNC; fty.return_ty = &rty;
  body.kind = ND_BLOCK;
  fn.name = name; fn.ty = &fty; fn.is_function = true; fn.is_definition = IN.is_definition; fn.is_static = IN.is_static;
  fn.is_live = IN.is_live; fn.body = &body; fn.alloca_bottom = &bottom; fn.stack_size = 16;
  nev = 0;
  emit_text(&fn);
  if (!IN.is_definition || !IN.is_live)
    VASSERT(nev == 0, "nothing is emitted for a declaration or for a function that is not live");
  else {
    VASSERT(nev >= 4 && ev[0].d == (IN.is_static ? D_LOCAL : D_GLOBL) && ev[0].s == name, "binding: .local for static functions, .globl otherwise");
    VASSERT(ev[1].d == D_TEXT && ev[2].d == D_TYPE_FUNC && ev[3].d == D_LABEL && ev[3].s == name, ".text, @function type, label");
    VASSERT(count_ev(D_LOCAL) + count_ev(D_GLOBL) == 1, "exactly one binding directive");
  }
  VCOVER();
}


// Address formation (gen_addr, ND_VAR) for a symbolic object x -fPIC. Reference from the psABI / ELF rules the
// property names: a local object is addressed off the frame pointer; in position-independent code every symbol that
// is not local to the function goes through the GOT (it may be preempted / live in another DSO: `lea sym(%rip)` gives
// an R_X86_64_PC32 relocation that ld rejects in a shared object), thread-local objects through __tls_get_addr
// (general dynamic); in non-PIC code objects and functions DEFINED in the unit are RIP-relative, a function only
// declared goes through the GOT, thread-local objects use the local-exec form (%fs:0 + sym@tpoff).
void h_gen_addr(void) {
  HAVOC_IN();
  __CPROVER_assume(IN.is_local <= 1 && IN.is_func <= 1 && IN.is_vla <= 1 && IN.fpic <= 1 && IN.is_tls <= 1 && IN.is_definition <= 1 && IN.is_static <= 1);
  // representation invariants of parse.c: only objects are local / VLA / thread-local; a VLA is local
  __CPROVER_assume(!(IN.is_func && (IN.is_local || IN.is_vla || IN.is_tls)) && (!IN.is_vla || IN.is_local) && !(IN.is_local && IN.is_tls));
  static Type ty, fty; static Obj var; static Node node; static Token tok; static File file;
  ty.kind = IN.is_vla ? TY_VLA : TY_INT; ty.size = 4; ty.align = 4;
  fty.kind = TY_FUNC; fty.size = 1; fty.align = 1;
  var.name = name; var.ty = IN.is_func ? &fty : &ty; var.is_local = IN.is_local; var.offset = -24; var.is_tls = IN.is_tls;
  var.is_function = IN.is_func; var.is_definition = IN.is_definition; var.is_static = IN.is_static;
  tok.file = &file; node.kind = ND_VAR; node.var = &var; node.ty = var.ty; node.tok = &tok;
  opt_fpic = IN.fpic;
  nev = 0;
  gen_addr(&node);
  VASSERT(nev >= 1 && nev <= 4, "one addressing sequence");
  if (IN.is_vla) VASSERT(nev == 1 && ev[0].d == A_VLA && ev[0].a == -24, "a VLA designates the block its hidden pointer points to");
  else if (IN.is_local) VASSERT(nev == 1 && ev[0].d == A_LOCAL && ev[0].a == -24, "a local object is addressed off the frame pointer");
  else if (IN.fpic && IN.is_tls) VASSERT(count_ev(A_TLSGD) == 1 && count_ev(A_TLSCALL) == 1 && ev[0].s == name, "-fPIC thread-local: general-dynamic sequence through __tls_get_addr");
  else if (IN.fpic) VASSERT(nev == 1 && ev[0].d == A_GOT && ev[0].s == name, "-fPIC: every non-local symbol (object or function, defined here or not) is addressed through the GOT");
  else if (IN.is_tls) VASSERT(nev == 2 && ev[0].d == A_FS && ev[1].d == A_TPOFF && ev[1].s == name, "non-PIC thread-local: %fs:0 + sym@tpoff");
  else if (IN.is_func && !IN.is_definition) VASSERT(nev == 1 && ev[0].d == A_GOT && ev[0].s == name, "non-PIC: a function that is only declared may live in a shared object: GOT");
  else VASSERT(nev == 1 && ev[0].d == A_RIP && ev[0].s == name, "non-PIC: objects and functions of this unit are RIP-relative");
  VCOVER();
}
