// C15: liveness closure and tentative-definition merging of parse.c.
//  h_mark_live     real mark_live/find_func on SYMBOLIC call graphs: <= 4 functions, arbitrary edges
//                  (cycles, self edges), references to a non-function and to an undeclared name,
//                  arbitrary is_root flags:  is_live <=> reachable from a root.
//  h_scan_globals  real scan_globals on SYMBOLIC declaration lists (<= 4 objects, names from {a,b},
//                  each extern declaration / tentative definition / definition with initializer):
//                  result = C11 6.9.2 (one definition per defined name; a real definition wins).
#include "common.h"
#ifndef NATIVE
#define TRY(stmt) do { stmt; } while (0)
#endif
// all names in this harness are exactly 2 bytes + NUL: strcmp as a 3-byte comparison (cbmc's strcmp
// model loops over symbolic pointers, which is slow); same result for such strings
static int verif_strcmp3(const char *a, const char *b) {
  for (int i = 0; i < 3; i++) {
    if (a[i] != b[i]) return (unsigned char)a[i] < (unsigned char)b[i] ? -1 : 1;
    if (!a[i]) return 0;
  }
  return 0;
}
#define strcmp(a, b) verif_strcmp3(a, b)
#include "parse.c"
#undef strcmp

#define NF 4
struct IN_t {
  unsigned char root[NF], edge[NF][NF], ref_var[NF], ref_undeclared[NF], is_def[NF];
  // scan_globals
  unsigned char n, name[4], kind[4];
} IN;
struct IN_t nondet_IN(void);

// ---- environment: main.c globals; HashMap replaced by its specification (name -> value list)
noreturn void error(char *fmt, ...) { verif_exit(1); }
noreturn void error_tok(Token *tok, char *fmt, ...) { verif_exit(1); }
#define HM_MAX 8
static struct { HashMap *map; char *key; void *val; } hm[HM_MAX];
static int hm_n;
static bool key_eq(const char *a, const char *b) {   // names in this harness are 2 bytes + NUL
  return a[0] == b[0] && a[1] == b[1] && a[2] == b[2];
}
void *hashmap_get(HashMap *map, char *key) {
  for (int i = HM_MAX - 1; i >= 0; i--)
    if (i < hm_n && hm[i].map == map && key_eq(hm[i].key, key)) return hm[i].val;
  return NULL;
}
void hashmap_put(HashMap *map, char *key, void *val) {
  VASSERT(hm_n < HM_MAX, "harness bound: hashmap entries");
  hm[hm_n].map = map; hm[hm_n].key = key; hm[hm_n].val = val; hm_n++;
}

// ================================================================ mark_live
static char fname[NF][3] = {"f0", "f1", "f2", "f3"};
static Obj fn[NF], gv;
static VarScope vs[NF + 1];
static char *refbuf[NF][NF + 2];

void h_mark_live(void) {
  HAVOC_IN();
  // file scope: f0..f3 are functions, "gv" is a variable, "uu" is not declared
  for (int i = 0; i < NF; i++) {
    __CPROVER_assume(IN.root[i] <= 1 && IN.ref_var[i] <= 1 && IN.ref_undeclared[i] <= 1 && IN.is_def[i] <= 1);
    fn[i].name = fname[i]; fn[i].is_function = true; fn[i].is_definition = IN.is_def[i];
    fn[i].is_root = IN.root[i]; fn[i].is_live = false;
    fn[i].next = i + 1 < NF ? &fn[i + 1] : NULL;
    int k = 0;
    // references in source order; copies of the names, as primary() records them (strndup'd spellings)
    if (IN.ref_undeclared[i]) refbuf[i][k++] = "uu";
    for (int j = 0; j < NF; j++) {
      __CPROVER_assume(IN.edge[i][j] <= 1);
      if (IN.edge[i][j]) { char *c = calloc(1, 3); c[0] = 'f'; c[1] = '0' + j; refbuf[i][k++] = c; }
    }
    if (IN.ref_var[i]) refbuf[i][k++] = "gv";
    fn[i].refs.data = refbuf[i]; fn[i].refs.len = k; fn[i].refs.capacity = NF + 2;
    vs[i].var = &fn[i];
    hashmap_put(&scope->vars, fname[i], &vs[i]);
  }
  gv.name = "gv"; gv.is_function = false;
  vs[NF].var = &gv;
  hashmap_put(&scope->vars, "gv", &vs[NF]);
  globals = &fn[0];

  // what parse() does after the last declaration
  for (Obj *var = globals; var; var = var->next)
    if (var->is_root)
      mark_live(var);

  // reference: reflexive-transitive closure from the roots (Warshall on 4 nodes)
  bool reach[NF][NF];
  for (int i = 0; i < NF; i++) for (int j = 0; j < NF; j++) reach[i][j] = i == j || IN.edge[i][j];
  for (int k = 0; k < NF; k++) for (int i = 0; i < NF; i++) for (int j = 0; j < NF; j++)
    if (reach[i][k] && reach[k][j]) reach[i][j] = true;
  for (int j = 0; j < NF; j++) {
    bool want = false;
    for (int i = 0; i < NF; i++) if (IN.root[i] && reach[i][j]) want = true;
    VASSERT(fn[j].is_live == want, "is_live <=> reachable from a root through the recorded references");
  }
  VASSERT(!gv.is_live, "a variable is never marked live");
  VCOVER();
}

// ================================================================ scan_globals
enum { K_EXTERN, K_TENTATIVE, K_DEFINITION };   // extern int x; | int x; | int x = 1;
static Obj go[4];
static char gname[2][3] = {"aa", "bb"};

void h_scan_globals(void) {
  HAVOC_IN();
  __CPROVER_assume(IN.n <= 4);
  int n = IN.n;
  int ndef[2] = {0, 0}, ntent[2] = {0, 0};
  for (int i = 0; i < 4; i++) {
    __CPROVER_assume(IN.name[i] <= 1 && IN.kind[i] <= K_DEFINITION);
    // representation as global_variable() builds it (list in reverse declaration order)
    go[i].name = gname[IN.name[i]];
    go[i].is_definition = IN.kind[i] != K_EXTERN;
    go[i].is_tentative = IN.kind[i] == K_TENTATIVE;
    go[i].init_data = IN.kind[i] == K_DEFINITION ? "\0\0\0\0" : NULL;
    go[i].next = i + 1 < n ? &go[i + 1] : NULL;
    if (i < n && IN.kind[i] == K_DEFINITION) ndef[IN.name[i]]++;
    if (i < n && IN.kind[i] == K_TENTATIVE) ntent[IN.name[i]]++;
  }
  __CPROVER_assume(ndef[0] <= 1 && ndef[1] <= 1);     // two real definitions: a redefinition error, diagnosed elsewhere
  globals = n ? &go[0] : NULL;

  scan_globals();

  // walk the result
  int kept_def[2] = {0, 0}, kept_tent[2] = {0, 0}, kept_ext = 0, total_ext = 0, len = 0;
  Obj *prev = NULL;
  for (Obj *v = globals; v && len < 5; v = v->next, len++) {
    int idx = v - go;
    VASSERT(idx >= 0 && idx < n, "result contains only objects of the input");
    if (prev) VASSERT(v > prev, "relative order is preserved");
    prev = v;
    int nm = IN.name[idx];
    if (IN.kind[idx] == K_DEFINITION) kept_def[nm]++;
    else if (IN.kind[idx] == K_TENTATIVE) kept_tent[nm]++;
    else kept_ext++;
  }
  VASSERT(len <= 4, "result is a proper list");
  for (int i = 0; i < 4; i++) if (i < n && IN.kind[i] == K_EXTERN) total_ext++;
  VASSERT(kept_ext == total_ext, "declarations that are not definitions are untouched");
  for (int nm = 0; nm < 2; nm++) {
    VASSERT(kept_def[nm] == ndef[nm], "a definition with an initializer is always kept");
    if (ndef[nm]) VASSERT(kept_tent[nm] == 0, "a tentative definition is dropped when the unit has a real definition (C11 6.9.2p2)");
    else if (ntent[nm]) VASSERT(kept_tent[nm] == 1, "tentative definitions without a real one yield exactly ONE definition (C11 6.9.2p2)");
  }
  VCOVER();
}
