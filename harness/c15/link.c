// C15: liveness closure and tentative-definition merging of parse.c.
//  h_mark_live     real mark_live/find_func on SYMBOLIC call graphs: <= 4 functions, arbitrary edges
//                  (cycles, self edges), references to a non-function and to an undeclared name,
//                  arbitrary is_root flags:  is_live <=> reachable from a root.
//  h_scan_globals  real scan_globals on SYMBOLIC declaration lists (<= 4 objects, names from {a,b},
//                  each extern declaration / tentative definition / definition with initializer):
//                  result = C11 6.9.2 (one definition per defined name; a real definition wins).
#include "common.h"
#ifndef NATIVE
#define TRY(stmt) do { stmt; } while (0)
#endif
// all names in this harness are exactly 2 bytes + NUL: strcmp as a 3-byte comparison (cbmc's strcmp
// model loops over symbolic pointers, which is slow); same result for such strings
static int verif_strcmp3(const char *a, const char *b) {
  for (int i = 0; i < 3; i++) {
    if (a[i] != b[i]) return (unsigned char)a[i] < (unsigned char)b[i] ? -1 : 1;
    if (!a[i]) return 0;
  }
  return 0;
}
#define strcmp(a, b) verif_strcmp3(a, b)
#include "parse.c"
#undef strcmp
#ifdef NATIVE
// native replay links only this file: everything else parse.c imports is never called by the two
// kernels under test; weak references let the replay link without the other translation units
#pragma weak add_type
#pragma weak align_to
#pragma weak consume
#pragma weak copy_type
#pragma weak enum_type
#pragma weak equal
#pragma weak format
#pragma weak func_type
#pragma weak hashmap_get2
#pragma weak hashmap_put2
#pragma weak is_compatible
#pragma weak is_flonum
#pragma weak is_integer
#pragma weak is_numeric
#pragma weak pointer_to
#pragma weak skip
#pragma weak strarray_push
#pragma weak struct_in_memory
#pragma weak struct_reg_class
#pragma weak struct_ret_in_memory
#pragma weak struct_type
#pragma weak ty_bool
#pragma weak ty_char
#pragma weak ty_double
#pragma weak ty_float
#pragma weak ty_int
#pragma weak ty_ldouble
#pragma weak ty_long
#pragma weak ty_short
#pragma weak ty_uchar
#pragma weak ty_uint
#pragma weak ty_ulong
#pragma weak ty_ushort
#pragma weak ty_void
#pragma weak vla_of
#pragma weak new_file
#pragma weak tokenize
#pragma weak tokenize_file
#pragma weak convert_pp_tokens
#pragma weak warn_tok
#pragma weak tokenize_string_literal
#pragma weak hashmap_delete
#pragma weak hashmap_delete2
#pragma weak encode_utf8
#pragma weak decode_utf8
#endif

#define NF 3
struct IN_t {
  unsigned short graph;
  // scan_globals
  unsigned char n, name[4], kind[4], incomplete[4];
} IN;
struct IN_t nondet_IN(void);

// ---- environment: main.c globals; HashMap replaced by its specification (name -> value list)
noreturn void error(char *fmt, ...) { verif_exit(1); }
noreturn void error_tok(Token *tok, char *fmt, ...) { verif_exit(1); }
// The file scope of the mark_live harness is fixed: "f0".."f2" are the functions fn[0..2], "gv" is a
// variable, anything else is undeclared.  hashmap_get on that scope is its specification:
static VarScope *scope_lookup(char *key);
void *hashmap_get(HashMap *map, char *key) { return scope_lookup(key); }
void hashmap_put(HashMap *map, char *key, void *val) {}

// ================================================================ mark_live
// A symbolic graph makes every is_live test symbolic, and cbmc then explores the full recursion
// tree of the DFS (NF^NF calls; > 500k steps already for 3 nodes).  The graph is therefore selected
// by the symbolic index IN.graph among ALL graphs on NF=3 nodes (9 edge bits incl. self loops,
// 3 root bits, 1 bit choosing what a missing edge slot refers to: a variable or an undeclared
// name) = 8192 cases; each harness function covers a batch of GB (=128) cases and explores them case by
// case with concrete data inside the case.
#undef NF
#define NF 3
#ifndef GB
#define GB 128
#endif
static char fname[4][3] = {"f0", "f1", "f2", "f3"};
static char sp_gv[] = "gv", sp_uu[] = "uu";
static Obj fn[NF], gv;
static VarScope vs[NF + 1];
static char *refbuf[NF][NF];

static VarScope *scope_lookup(char *key) {
  if (key[0] == 'f' && key[1] >= '0' && key[1] < '0' + NF && key[2] == 0) return &vs[key[1] - '0'];
  if (key[0] == 'g' && key[1] == 'v' && key[2] == 0) return &vs[NF];
  return NULL;
}
static void run_graph(int g) {
  bool edge[NF][NF], root[NF];
  for (int i = 0; i < NF; i++) {
    root[i] = (g >> (9 + i)) & 1;
    for (int j = 0; j < NF; j++) edge[i][j] = (g >> (3 * i + j)) & 1;
  }
  bool alt = (g >> 12) & 1;
  for (int i = 0; i < NF; i++) {
    fn[i] = (Obj){0};
    fn[i].name = fname[i]; fn[i].is_function = true; fn[i].is_definition = true;
    fn[i].is_root = root[i]; fn[i].is_live = false;
    fn[i].next = i + 1 < NF ? &fn[i + 1] : NULL;
    // NF recorded references per function: slot j names f_j if the edge i->j exists, otherwise the
    // variable "gv" or the undeclared name "uu" (find_func must ignore both)
    for (int j = 0; j < NF; j++) refbuf[i][j] = edge[i][j] ? fname[j] : alt ? sp_gv : sp_uu;
    fn[i].refs.data = refbuf[i]; fn[i].refs.len = NF; fn[i].refs.capacity = NF;
    vs[i].var = &fn[i];
    hashmap_put(&scope->vars, fname[i], &vs[i]);
  }
  gv = (Obj){0};
  gv.name = sp_gv; gv.is_function = false;
  vs[NF].var = &gv;
  hashmap_put(&scope->vars, sp_gv, &vs[NF]);
  globals = &fn[0];

  // what parse() does after the last declaration
  for (Obj *var = globals; var; var = var->next)
    if (var->is_root)
      mark_live(var);

  // reference: reflexive-transitive closure from the roots (Warshall)
  bool reach[NF][NF];
  for (int i = 0; i < NF; i++) for (int j = 0; j < NF; j++) reach[i][j] = i == j || edge[i][j];
  for (int k = 0; k < NF; k++) for (int i = 0; i < NF; i++) for (int j = 0; j < NF; j++)
    if (reach[i][k] && reach[k][j]) reach[i][j] = true;
  for (int j = 0; j < NF; j++) {
    bool want = false;
    for (int i = 0; i < NF; i++) if (root[i] && reach[i][j]) want = true;
    VASSERT(fn[j].is_live == want, "is_live <=> reachable from a root through the recorded references");
  }
  VASSERT(!gv.is_live, "a variable is never marked live");
}
// quick tier: graphs without self loops: 6 off-diagonal edge bits + 3 root bits + 1 alt bit = 1024 cases
static int expand_quick(int q) {
  int g = 0, bit = 0;
  for (int i = 0; i < NF; i++) for (int j = 0; j < NF; j++)
    if (i != j) { if ((q >> bit) & 1) g |= 1 << (3 * i + j); bit++; }
  g |= ((q >> 6) & 7) << 9;
  g |= ((q >> 9) & 1) << 12;
  return g;
}
static void run_gbatch(int b, bool quick) {
  HAVOC_IN();
  int k = IN.graph;
  __CPROVER_assume(k >= b * GB && k < (b + 1) * GB);
  for (int i = b * GB; i < (b + 1) * GB; i++) {
    if (k != i) continue;
    run_graph(quick ? expand_quick(i) : i);
    VCOVER();
    return;
  }
}
#define GBATCH(b) void h_mark_live_##b(void) { run_gbatch(b, false); }
#define QBATCH(b) void h_mark_live_q##b(void) { run_gbatch(b, true); }
QBATCH(0) QBATCH(1) QBATCH(2) QBATCH(3) QBATCH(4) QBATCH(5) QBATCH(6) QBATCH(7)
GBATCH(0) GBATCH(1) GBATCH(2) GBATCH(3) GBATCH(4) GBATCH(5) GBATCH(6) GBATCH(7)
GBATCH(8) GBATCH(9) GBATCH(10) GBATCH(11) GBATCH(12) GBATCH(13) GBATCH(14) GBATCH(15)
GBATCH(16) GBATCH(17) GBATCH(18) GBATCH(19) GBATCH(20) GBATCH(21) GBATCH(22) GBATCH(23)
GBATCH(24) GBATCH(25) GBATCH(26) GBATCH(27) GBATCH(28) GBATCH(29) GBATCH(30) GBATCH(31)
GBATCH(32) GBATCH(33) GBATCH(34) GBATCH(35) GBATCH(36) GBATCH(37) GBATCH(38) GBATCH(39)
GBATCH(40) GBATCH(41) GBATCH(42) GBATCH(43) GBATCH(44) GBATCH(45) GBATCH(46) GBATCH(47)
GBATCH(48) GBATCH(49) GBATCH(50) GBATCH(51) GBATCH(52) GBATCH(53) GBATCH(54) GBATCH(55)
GBATCH(56) GBATCH(57) GBATCH(58) GBATCH(59) GBATCH(60) GBATCH(61) GBATCH(62) GBATCH(63)

// ================================================================ scan_globals
enum { K_EXTERN, K_TENTATIVE, K_DEFINITION };   // extern int x; | int x; | int x = 1;
static Obj *go[4];
static char gname[2][3] = {"aa", "bb"};

void h_scan_globals(void) {
  HAVOC_IN();
  __CPROVER_assume(IN.n <= 4);
  int n = IN.n;
  int ndef[2] = {0, 0}, ntent[2] = {0, 0};
  for (int i = 0; i < 4; i++) {
    __CPROVER_assume(IN.name[i] <= 1 && IN.kind[i] <= K_DEFINITION);
    // representation as global_variable() builds it (list in reverse declaration order)
    go[i] = calloc(1, sizeof(Obj));
    go[i]->name = gname[IN.name[i]];
    go[i]->is_definition = IN.kind[i] != K_EXTERN;
    go[i]->is_tentative = IN.kind[i] == K_TENTATIVE;
    go[i]->init_data = IN.kind[i] == K_DEFINITION ? "\0\0\0\0" : NULL;
    go[i]->offset = i;                      // (unused for globals) carries the position in the input
    // type: `int x[4]` or, for declarations without initializer, possibly the incomplete `int x[]` (size < 0)
    __CPROVER_assume(IN.incomplete[i] <= 1 && (IN.kind[i] != K_DEFINITION || !IN.incomplete[i]));
    static Type T_elem = {.kind = TY_INT, .size = 4, .align = 4};
    go[i]->ty = calloc(1, sizeof(Type));
    go[i]->ty->kind = TY_ARRAY; go[i]->ty->size = IN.incomplete[i] ? -4 : 16; go[i]->ty->array_len = IN.incomplete[i] ? -1 : 4;
    go[i]->ty->base = &T_elem; go[i]->ty->align = 4;
    if (i > 0 && i < n) go[i - 1]->next = go[i];
    if (i < n && IN.kind[i] == K_DEFINITION) ndef[IN.name[i]]++;
    if (i < n && IN.kind[i] == K_TENTATIVE) ntent[IN.name[i]]++;
  }
  __CPROVER_assume(ndef[0] <= 1 && ndef[1] <= 1);     // two real definitions: a redefinition error, diagnosed elsewhere
  globals = n ? go[0] : NULL;

  scan_globals();

  // walk the result
  int kept_def[2] = {0, 0}, kept_tent[2] = {0, 0}, kept_ext = 0, total_ext = 0, len = 0;
  int prev = -1;
  for (Obj *v = globals; v && len < 5; v = v->next, len++) {
    int idx = v->offset;
    VASSERT(idx >= 0 && idx < n && v == go[idx], "result contains only objects of the input");
    if (idx < 0 || idx >= n) return;
    VASSERT(idx > prev, "relative order is preserved");
    prev = idx;
    int nm = IN.name[idx];
    if (IN.kind[idx] == K_DEFINITION) kept_def[nm]++;
    else if (IN.kind[idx] == K_TENTATIVE) kept_tent[nm]++;
    else kept_ext++;
  }
  VASSERT(len <= 4, "result is a proper list");
  for (int i = 0; i < 4; i++) if (i < n && IN.kind[i] == K_EXTERN) total_ext++;
  VASSERT(kept_ext == total_ext, "declarations that are not definitions are untouched");
  for (int nm = 0; nm < 2; nm++) {
    VASSERT(kept_def[nm] == ndef[nm], "a definition with an initializer is always kept");
    if (ndef[nm]) VASSERT(kept_tent[nm] == 0, "a tentative definition is dropped when the unit has a real definition (C11 6.9.2p2)");
    else if (ntent[nm]) VASSERT(kept_tent[nm] == 1, "tentative definitions without a real one yield exactly ONE definition (C11 6.9.2p2)");
  }
  // the surviving tentative definition has the complete type if any of them has (composite type, C11 6.2.7p4)
  for (Obj *v = globals; v; v = v->next) {
    if (!v->is_tentative) continue;
    bool some_complete = false;
    for (int i = 0; i < 4; i++)
      if (i < n && IN.kind[i] == K_TENTATIVE && IN.name[i] == IN.name[v->offset] && !IN.incomplete[i]) some_complete = true;
    if (some_complete) VASSERT(v->ty->size == 16, "of several tentative definitions the one with the complete array type is kept");
    else VASSERT(v->ty->kind == TY_ARRAY && v->ty->array_len == 1 && v->ty->size == 4, "an array still incomplete at the end of the unit has one element (6.9.2p5)");
  }
  VCOVER();
}
