// C13 kernel: diagnostics name a line that exists. The real error_at()/verror_at() of tokenize.c for every
// NUL-terminated buffer of <= 6 bytes and every location inside it: the computed line number is the number of
// the line containing `loc` (1 + newlines before it), the printed source line lies inside the buffer, and no
// byte outside the buffer is read (cbmc pointer checks).
static void diag_checks(void);
#define VERIF_ON_EXIT(code) diag_checks()
#include "common.h"
#undef fprintf
#undef vfprintf
static int cap_line_no = -1, cap_line_len = -1, cap_calls;
static const char *cap_line_ptr;
// capture what verror_at prints: "%s:%d: " (file, line) then "%.*s\n" (length, pointer)
static int verif_fprintf(FILE *f, const char *fmt, ...) {
  va_list ap; va_start(ap, fmt);
  if (fmt[0] == '%' && fmt[1] == 's' && fmt[2] == ':') { (void)va_arg(ap, char *); cap_line_no = va_arg(ap, int); }
  else if (fmt[0] == '%' && fmt[1] == '.' && fmt[2] == '*') { cap_line_len = va_arg(ap, int); cap_line_ptr = va_arg(ap, char *); }
  va_end(ap); cap_calls++;
  return 12;
}
#define fprintf verif_fprintf
#define vfprintf(...) (0)
int display_width(char *p, int len) { return len; }
#include "tokenize.c"

struct IN_t { char buf[7]; unsigned char pos; } IN;
struct IN_t nondet_IN(void);
Type *ty_int, *ty_uint, *ty_long, *ty_ulong, *ty_char, *ty_ushort, *ty_double, *ty_float, *ty_ldouble;
Type *array_of(Type *b, int n) { return b; }
int encode_utf8(char *b, uint32_t c) { return 1; }
uint32_t decode_utf8(char **np, char *p) { *np = p + 1; return *p; }
bool is_ident1(uint32_t c) { return false; }
bool is_ident2(uint32_t c) { return false; }
void *hashmap_get2(HashMap *m, char *k, int l) { return 0; }
void hashmap_put(HashMap *m, char *k, void *v) {}
char *format(char *fmt, ...) { return ""; }

static int want_line, buf_len;

static void diag_checks(void) {
  VASSERT(cap_line_no == want_line, "reported line = 1 + number of newlines before the location");
  VASSERT(cap_line_ptr >= IN.buf && cap_line_ptr + cap_line_len <= IN.buf + buf_len, "printed source line lies inside the buffer");
  VASSERT(cap_line_ptr <= IN.buf + IN.pos && IN.buf + IN.pos <= cap_line_ptr + cap_line_len, "printed source line contains the location");
  for (int i = 0; i < cap_line_len && i < 7; i++) VASSERT(cap_line_ptr[i] != '\n', "printed source line is one line");
  VCOVER();
}

void h_error_at_location(void) {
  HAVOC_IN();
  IN.buf[6] = 0;
  __CPROVER_assume(IN.pos <= 6);
  int n = 0; while (n < 6 && IN.buf[n]) n++;
  __CPROVER_assume(IN.pos <= n);
  buf_len = n;
  static File f; f.name = "t.c"; f.display_name = "t.c"; f.contents = IN.buf; f.file_no = 1;
  current_file = &f;
  want_line = 1;
  for (int i = 0; i < IN.pos; i++) if (IN.buf[i] == '\n') want_line++;
  TRY(error_at(IN.buf + IN.pos, "x"));
  VASSERT(verif_diag, "error_at exits with a diagnostic");
}
