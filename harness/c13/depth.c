// C13 kernel: #include nesting is bounded. The real include_file() with the includer's nesting depth SYMBOLIC
// (0..300): below the limit the included file's tokens are prepended and carry depth + 1; at the limit a located
// diagnostic is issued and the file is not opened (a file that includes itself terminates by induction on the depth).
#define VERIF_PACKED_SPELLING 1
#define VERIF_HM_MAX 4
static int opened;
static void on_exit_mark(void);
#define VERIF_ON_EXIT(code) on_exit_mark()
#define VERIF_TOKENIZE_FILE(path) verif_open(path)
#include "common.h"
#include "pp_env.h"
#include "preprocess.c"
static Token *verif_open(char *path);
#include "pp_env_impl.h"

struct IN_t { int depth; } IN;
struct IN_t nondet_IN(void);

static File inc_file = {.name = "dir0/h.h", .display_name = "dir0/h.h", .file_no = 2, .contents = ""};
static Token inc_tok = {.kind = TK_IDENT, .loc = "y", .len = 1, .file = &inc_file, .at_bol = true};
static Token inc_eof = {.kind = TK_EOF, .loc = "", .len = 0, .file = &inc_file, .at_bol = true};
static Token *verif_open(char *path) { opened++; inc_tok.next = &inc_eof; inc_tok.val = verif_spell("y"); return &inc_tok; }
static int diag_at_depth = -1;
static void on_exit_mark(void) {
  diag_at_depth = IN.depth;
  VASSERT(IN.depth >= 200, "a diagnostic only at the nesting limit");
  VASSERT(opened == 0, "the file is not opened once the limit is reached");
#ifdef WIT_LIMIT
  VCOVER();
#endif
}

void h_include_depth(void) {
  HAVOC_IN();
  __CPROVER_assume(IN.depth >= 0 && IN.depth <= 300);
  static File cur = {.name = "dir0/in.c", .display_name = "dir0/in.c", .file_no = 1, .contents = ""};
  cur.include_depth = IN.depth;
  static Token name_tok = {.kind = TK_STR, .loc = "\"h.h\"", .len = 5}, rest_tok = {.kind = TK_EOF, .loc = "", .len = 0, .at_bol = true};
  name_tok.file = &cur; rest_tok.file = &cur;
  Token *r = NULL;
  TRY(r = include_file(&rest_tok, "dir0/h.h", &name_tok));
  if (verif_diag) return;
  VASSERT(IN.depth < 200, "beyond the limit no file is included");
  VASSERT(opened == 1 && r && r->file == &inc_file && r->val == verif_spell("y"), "the included file's tokens come first");
  VASSERT(inc_file.include_depth == IN.depth + 1, "the included file is one level deeper than its includer");
#ifndef WIT_LIMIT
  VCOVER();
#endif
}
