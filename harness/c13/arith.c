// C13: the additive-operator constructors answer every operand type pair.  The REAL new_add() / new_sub() of
// parse.c (with the real add_type of type.c) on operands that are variables of SYMBOLIC type kind, each over
// { int, long, double, pointer to int, array of int, struct, void (a call of a void function is modelled as a
//   node of type void), pointer to VLA row }: the constructor either returns a typed node or issues a located
// diagnostic; it never dereferences an invalid pointer (cbmc's generated checks) — C11 6.5.6p2-3 constrains the
// operand types, a violation is a diagnosed error, not a crash.
static int diag_seen;
#define VERIF_ON_EXIT(code) do { diag_seen = 1; } while (0)
#include "common.h"
#include "parse.c"
#include "penv.h"

struct IN_t { unsigned char kl, kr, sub, entry, nest; int enumval; } IN;
struct IN_t nondet_IN(void);

static Type T_struct = {.kind = TY_STRUCT, .size = 8, .align = 4};
static Type T_void = {.kind = TY_VOID, .size = 1, .align = 1};
static Obj vla_size_var;
static Token dummy_tok = {.kind = TK_IDENT, .loc = "x", .len = 1};

static Node *operand(int k) {
  Type *ty;
  switch (k) {
  case 0: ty = ty_int; break;
  case 1: ty = ty_long; break;
  case 2: ty = ty_double; break;
  case 3: ty = pointer_to(ty_int); break;
  case 4: ty = array_of(ty_int, 3); break;
  case 5: ty = &T_struct; break;
  case 6: ty = &T_void; break;
  default: {
    Type *row = vla_of(ty_int, new_num(0, &dummy_tok));
    vla_size_var.name = "vs"; vla_size_var.ty = ty_ulong; vla_size_var.is_local = true;
    row->vla_size = &vla_size_var;
    ty = pointer_to(row);
  }
  }
  Obj *var = calloc(1, sizeof(Obj));
  var->name = "v"; var->ty = ty; var->is_local = true;
  Node *n = new_var_node(var, &dummy_tok);
  if (k == 6) { n = new_node(ND_NULL_EXPR, &dummy_tok); n->ty = &T_void; }    // an expression of type void
  return n;
}

void h_additive(void) {
  HAVOC_IN();
  __CPROVER_assume(IN.kl < 8 && IN.kr < 8 && IN.sub <= 1);
  Node *r = NULL;
  // case split: concrete operand kinds inside each case
  for (int a = 0; a < 8; a++)
    for (int b = 0; b < 8; b++)
      if (IN.kl == a && IN.kr == b) {
        Node *l = operand(a), *rr = operand(b);
        TRY(r = IN.sub ? new_sub(l, rr, &dummy_tok) : new_add(l, rr, &dummy_tok));
        if (verif_diag) return;
        VASSERT(r != NULL, "a node is returned when no diagnostic was issued");
        bool lnum = a <= 2, rnum = b <= 2, lptr = (a == 3 || a == 4 || a == 7), rptr = (b == 3 || b == 4 || b == 7);
        bool lint = a <= 1, rint = b <= 1;
        bool valid = (lnum && rnum) || (lptr && rint) || (!IN.sub && lint && rptr) || (IN.sub && lptr && rptr);
        VASSERT(valid, "operand types that C11 6.5.6p2-3 does not allow are diagnosed (no node is built for them)");
        VCOVER();
        return;
      }
}


// An identifier in an expression names whatever its innermost scope entry says: an object -> a variable node for
// THAT object, an enumeration constant -> its value, a typedef name or nothing -> a located diagnostic. The REAL
// primary() / find_var() / push_scope() run with a symbolic kind of scope entry; a node is never built around a
// null object (which later crashes add_type).
void h_primary_ident(void) {
  HAVOC_IN();
  __CPROVER_assume(IN.entry < 4);
  static Scope sc0;
  scope = &sc0;
  static Obj the_var = {.name = "T", .is_local = true};
  the_var.ty = ty_int;
  static Token id = {.kind = TK_IDENT, .loc = "T", .len = 1}, end = {.kind = TK_EOF, .loc = "", .len = 0};
  id.next = &end;
  if (IN.entry == 1) push_scope("T")->var = &the_var;
  else if (IN.entry == 2) push_scope("T")->type_def = ty_long;
  else if (IN.entry == 3) { VarScope *v = push_scope("T"); v->enum_ty = ty_int; v->enum_val = IN.enumval; }
  Token *rest = NULL;
  Node *n = NULL;
  TRY(n = primary(&rest, &id));
  if (verif_diag) { VASSERT(IN.entry == 0 || IN.entry == 2, "only an undeclared name or a typedef name used as an operand is diagnosed"); return; }
  VASSERT(n != NULL && rest == &end, "the identifier is consumed");
  if (IN.entry == 1) VASSERT(n->kind == ND_VAR && n->var == &the_var, "an object name yields a variable node for that object");
  else if (IN.entry == 3) VASSERT(n->kind == ND_NUM && n->val == IN.enumval, "an enumeration constant yields its value");
  else VASSERT(0, "a typedef name / undeclared name as an operand must be diagnosed, not turned into a node");
  VCOVER();
}


// Termination with a usable bound: a declarator nested in n pairs of parentheses (valid C for any n) is parsed with
// work LINEAR in n. The real declarator() runs on `( ( ... x ... ) ) ;` for a symbolic n <= 7; every entry into
// declarator() calls pointers() exactly once, so the number of pointers() calls (counted by a pass-through stub,
// --replace-calls) measures the work: n + 1 for one parse per level, 2^(n+1) - 1 when each level is parsed twice.
static int pointers_calls;
Type *stub_pointers(Token **rest, Token *tok, Type *ty) { pointers_calls++; *rest = tok; return ty; }
void h_declarator_nesting(void) {
  HAVOC_IN();
  __CPROVER_assume(IN.nest <= 7);
  static Token toks[17];
  static char *lp = "(", *rp = ")", *id = "x", *semi = ";";
  for (int n = 0; n <= 7; n++)
    if (IN.nest == n) {                       // concrete token list inside each case
      int k = 0;
      for (int i = 0; i < n; i++) { toks[k].kind = TK_PUNCT; toks[k].loc = lp; toks[k].len = 1; k++; }
      toks[k].kind = TK_IDENT; toks[k].loc = id; toks[k].len = 1; k++;
      for (int i = 0; i < n; i++) { toks[k].kind = TK_PUNCT; toks[k].loc = rp; toks[k].len = 1; k++; }
      toks[k].kind = TK_PUNCT; toks[k].loc = semi; toks[k].len = 1; k++;
      toks[k].kind = TK_EOF; toks[k].loc = ""; toks[k].len = 0;
      for (int i = 0; i < k; i++) toks[i].next = &toks[i + 1];
      Token *rest = NULL;
      Type *ty = NULL;
      pointers_calls = 0;
      TRY(ty = declarator(&rest, &toks[0], ty_int));
      VASSERT(!verif_diag, "a parenthesized declarator is accepted");
      VASSERT(ty && ty->kind == TY_INT && ty->name == &toks[n], "the declared name and type are found");
      VASSERT(rest == &toks[2 * n + 1], "the declarator ends before the `;`");
      VASSERT(pointers_calls <= 2 * n + 2, "work linear in the nesting depth (each level is parsed once)");
      VCOVER();
      return;
    }
}
