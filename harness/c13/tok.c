// C13: every input is answered.  The REAL tokenize() of tokenize.c (with the real unicode.c) on
// EVERY byte buffer up to a small length, with cbmc's generated checks (bounds, pointer validity,
// overflow, division) and unwinding assertions (termination):
//  h_tok_file  as tokenize_file() prepares a source file: NBYTES arbitrary bytes (NUL included)
//              followed by "\n\0" (read_file's contract), BOM skipping, then the real
//              canonicalize_newline / remove_backslash_newline / convert_universal_chars / tokenize
//  h_tok_raw   tokenize() on an arbitrary NUL-terminated string of RAWBYTES bytes in an exactly sized
//              object, as define_macro() (-D on the command line), paste() and new_str_token() call it
// Diagnostics: error_at's own line/column computation runs (real code) under the same checks, so a
// reported location outside the buffer shows up as a pointer-check failure.
#ifndef NBYTES
#define NBYTES 3
#endif
#ifndef RAWBYTES
#define RAWBYTES 2
#endif
#include "common.h"
#ifndef NATIVE
#define TRY(stmt) do { stmt; } while (0)
#endif
#include "tokenize.c"

struct IN_t { unsigned char b[4]; } IN;
struct IN_t nondet_IN(void);

void h_tok_file(void) {
  HAVOC_IN();
  char *buf = malloc(NBYTES + 2);
  for (int i = 0; i < NBYTES; i++) buf[i] = IN.b[i];
  buf[NBYTES] = '\n'; buf[NBYTES + 1] = '\0';
  char *p = buf;
  if (NBYTES >= 3 && !memcmp(p, "\xef\xbb\xbf", 3)) p += 3;
  canonicalize_newline(p);
  remove_backslash_newline(p);
  convert_universal_chars(p);
  File *f = new_file("in.c", 1, p);
  Token *tok = NULL;
  TRY(tok = tokenize(f));
  if (verif_diag) return;
  // the result is a proper token list ending in EOF, every token inside the buffer
  int n = 0;
  for (Token *t = tok; n < NBYTES + 3; t = t->next, n++) {
    VASSERT(t != NULL, "token list is terminated by an EOF token");
    if (!t) return;
    VASSERT(t->loc >= p && t->loc + t->len <= buf + NBYTES + 1, "token lies inside the source buffer");
    if (t->kind == TK_EOF) break;
    VASSERT(t->len > 0, "no empty token");
  }
  VASSERT(n <= NBYTES + 1, "no more tokens than bytes");
  VCOVER();
}

void h_tok_raw(void) {
  HAVOC_IN();
  char *buf = malloc(RAWBYTES + 1);
  for (int i = 0; i < RAWBYTES; i++) buf[i] = IN.b[i];
  buf[RAWBYTES] = '\0';
  File *f = new_file("<built-in>", 1, buf);
  Token *tok = NULL;
  TRY(tok = tokenize(f));
  if (verif_diag) return;
  VCOVER();
}
