// C13: the tokenizer answers every buffer: no read outside the buffer, no endless scan.
//
// cbmc 6.11 does not get through the unrolled main loop of tokenize() (hours even for 2 bytes), so the claim is
// decided as an INDUCTIVE STEP over the real code: props/c13.py cuts tokenize()'s main loop (loop tokenize.2) to a
// single iteration with goto-instrument --unwindset tokenize.2:1 --partial-loops; after that one iteration the
// function leaves the loop and creates the EOF token AT THE SCAN POINTER, which makes the pointer observable.
//
//   h_tok_step   the buffer is an exactly sized object of TOKBYTES arbitrary non-NUL bytes followed by NUL (as
//                define_macro() for -D, paste() and new_str_token() hand over: no trailing newline; a source file
//                is the special case whose last byte is '\n'); the scan starts at an ARBITRARY offset of it
//                (= the state at the beginning of any later iteration: the loop carries only the scan pointer and
//                two flags that never influence an access). Under cbmc's generated checks (every dereference in
//                bounds, pointer arithmetic, overflow) and with unwinding assertions on all inner loops:
//                one iteration either ends in a diagnostic or leaves the scan pointer STRICTLY advanced and not
//                beyond the terminating NUL. By induction tokenize() terminates on every buffer of <= TOKBYTES
//                bytes without reading outside it.
// Cuts (cbmc only, --replace-calls): error_at ends the path (its own location arithmetic is decided in diag.c);
// convert_pp_tokens / add_line_numbers (post-passes over the finished list, C11 / C18) are skipped.
#ifndef TOKBYTES
#define TOKBYTES 4
#endif
#include "common.h"
#ifndef NATIVE
// cbmc 6.11 has no strstr model: specification-level body (first occurrence, NULL if none)
char *strstr(const char *h, const char *n) {
  for (int i = 0; i < TOKBYTES + 1; i++) {
    int k = 0;
    while (k < 4 && n[k] && h[i + k] == n[k]) k++;
    if (!n[k]) return (char *)h + i;
    if (!h[i]) return 0;
  }
  return 0;
}
#endif
#include "tokenize.c"

struct IN_t { unsigned char b[TOKBYTES + 1]; unsigned char off; } IN;
struct IN_t nondet_IN(void);

void h_tok_step(void) {
  HAVOC_IN();
  __CPROVER_assume(IN.off <= TOKBYTES);
  char *buf = malloc(TOKBYTES + 1);          // exactly sized: one harness per length (props/c13.py: TOKBYTES = 0..N)
  __CPROVER_assume(buf != 0);
  for (int i = 0; i < TOKBYTES; i++) { __CPROVER_assume(IN.b[i] != 0); buf[i] = IN.b[i]; }
  buf[TOKBYTES] = '\0';
  char *start = buf + IN.off;
  File *f = new_file("<built-in>", 1, start);
  Token *tok = NULL;
  TRY(tok = tokenize(f));
  if (verif_diag) return;
#ifndef NATIVE
  // the last token of the list is the EOF token created at the scan pointer after ONE iteration
  Token *last = tok;
  for (int n = 0; n < 2 && last->next; n++) last = last->next;
  VASSERT(last->kind == TK_EOF && last->next == NULL, "one iteration yields at most one token, then the EOF marker");
  char *p = last->loc;
  VASSERT(p >= start && p <= buf + TOKBYTES, "scan pointer stays inside the buffer (not beyond the terminating NUL)");
  VASSERT(*start == '\0' || p > start, "every iteration consumes at least one byte (termination)");
  if (tok != last)
    VASSERT(tok->loc >= start && tok->loc + tok->len <= p && tok->len > 0, "the token lies inside the consumed bytes and is not empty");
#endif
  VCOVER();
}

noreturn void stub_error_at(char *loc, char *fmt, ...) { verif_exit(1); }
void stub_convert_pp_tokens(Token *tok) {}
void stub_add_line_numbers(Token *tok) {}
