// C13 kernel: `#include` operand handling. The real read_include_filename() (with the real preprocess2 /
// expand_macro / copy_line behind it) on a symbolic operand line of <= 3 tokens must either return a file
// name or take a diagnostic path; it must terminate (recursion unwinding assertion) and stay memory safe.
#ifndef EXPAND
#define EXPAND {1}
#endif
#define VERIF_PACKED_SPELLING 1
#define VERIF_HM_MAX 4
static void on_exit_cover(void);
#define VERIF_ON_EXIT(code) on_exit_cover()
#include "common.h"
#include "pp_env.h"
#include "preprocess.c"
#include "pp_env_impl.h"

struct IN_t { unsigned char unused; } IN;
struct IN_t nondet_IN(void);

static void on_exit_cover(void) { VCOVER(); }    /* a path that ends in a diagnostic is a complete answer too */
static Token toks[5];
static char *spell[] = {"foo", "\"f.h\"", "<", ">", "f", "42"};
static int spell_len[] = {3, 5, 1, 1, 1, 2};
static int64_t spell_val[6];      /* verif_spell() of each pool spelling, computed once on concrete strings */
static TokenKind kinds[] = {TK_IDENT, TK_STR, TK_PUNCT, TK_PUNCT, TK_IDENT, TK_PP_NUM};

static Token *mk(Token *t, int k, Token *next, bool at_bol) {
  memset(t, 0, sizeof *t);
  t->kind = kinds[k]; t->loc = spell[k]; t->len = spell_len[k]; t->val = spell_val[k];
  t->file = &verif_file; t->filename = "dir0/in.c"; t->line_no = 1; t->next = next; t->at_bol = at_bol;
  return t;
}

// preprocess2() is cut to its contract for one line: macro expansion may turn the operand line into ANY line of
// 1..2 tokens of the pool (a sound over-approximation of expand_macro; its own behaviour is C09's subject)
static int exp_depth;
static Token exp_toks[3][3];
Token *stub_preprocess2(Token *tok) {
  // termination: an operand that still starts with an identifier after macro expansion must be diagnosed, not
  // expanded again (expanding it again yields the same tokens: unbounded recursion)
  VASSERT(exp_depth < 1, "an #include operand is macro-expanded at most once");
  __CPROVER_assume(exp_depth < 1);
  exp_depth++;
  // what expansion returns is concrete per harness variant (-DEXPAND=...): the code under test only looks at the
  // KIND of the first token (identifier / string / '<' / anything else) and at '>' / end of line further on
  static const int expand[] = EXPAND;
  int n = sizeof expand / sizeof expand[0];
  Token *e = &exp_toks[0][2];
  memset(e, 0, sizeof *e); e->kind = TK_EOF; e->at_bol = true; e->file = &verif_file; e->loc = ""; e->val = verif_spell("");
  Token *next = e;
  if (n > 1) next = mk(&exp_toks[0][1], expand[1], next, false);
  next = mk(&exp_toks[0][0], expand[0], next, false);
  return next;
}

// the text of the file name is not the subject here
char *stub_join_tokens(Token *tok, Token *end) { return "joined"; }
char *stub_strndup(const char *s, size_t n) { return "dup"; }

// The operand line is concrete per harness variant (-DOPERAND=...); what macro expansion returns is symbolic.
#ifndef OPERAND
#define OPERAND {0}
#endif
#ifndef EXPAND
#define EXPAND {1}
#endif
void h_include_operand(void) {
  HAVOC_IN();
  spell_val[0] = verif_spell("foo"); spell_val[1] = verif_spell("\"f.h\""); spell_val[2] = verif_spell("<");
  spell_val[3] = verif_spell(">"); spell_val[4] = verif_spell("f"); spell_val[5] = verif_spell("42");
  static const int operand[] = OPERAND;
  int ntok = sizeof operand / sizeof operand[0];
  static Token eof; memset(&eof, 0, sizeof eof); eof.kind = TK_EOF; eof.at_bol = true; eof.file = &verif_file; eof.loc = ""; eof.val = verif_spell("");
  Token *next = &eof;
  if (ntok > 2) next = mk(&toks[2], operand[2], next, false);
  if (ntok > 1) next = mk(&toks[1], operand[1], next, false);
  next = mk(&toks[0], operand[0], next, false);
  Token *rest = NULL; bool dq = false; char *name = NULL;
  TRY(name = read_include_filename(&rest, next, &dq));
  VASSERT(verif_diag || name != NULL, "read_include_filename returns a name or diagnoses");
  VCOVER();
}
