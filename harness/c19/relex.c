// C19: what `-E` prints re-lexes to the token sequence that was printed.
// For every pair of spellings A, B (each 1..2 symbolic ASCII bytes, no quotes) that lex as single
// tokens: hand the two-token list [A, B] to the REAL print_tokens() of main.c with the flags the
// preprocessor gives B when nothing separated it from A in an expansion result (B.at_bol = false,
// B.has_space = false; reachable for ANY such pair, e.g. `#define F(x) x` / `F(A)F(B)`, or
// `#define N -1` / `-N`), capture the text it writes, lex that text and require exactly [A, B]
// back (same kinds, same spellings).  "Adjacent" is therefore whatever print_tokens itself
// decides: a printer that separates dangerous pairs passes, the pinned one (space iff has_space)
// does not.
//
// LEXING under cbmc: the real tokenize() cannot be executed symbolically by cbmc 6.11 (its
// simplifier does not terminate in minutes on the pointer merges of the main loop even for a
// 1-byte buffer; tried: no checks, --no-simplify, --paths, own string functions).  So the lexer
// used under cbmc is model_lex() below: tokenize()'s dispatch order written out for the quote-free
// ASCII alphabet, calling the REAL scanners read_punct() and read_ident() (exported from the real
// tokenize.c by lexk.c; unicode.c linked real).  model_lex is validated NATIVELY against the real
// tokenize() on every buffer of <= 3 bytes and on longer buffers over reduced alphabets at every
// run (props/c19.py, oracle validation), and every cbmc counterexample is re-checked natively with
// the real tokenize() before it is reported (below, #ifdef NATIVE).
//
// One harness function per (kind of A, kind of B) so that findings are keyed by class.
// Stub (cbmc only): open_file -> stdout (natively the real one returns stdout).
#include "common.h"
#include "assert_hook.h"

// capture everything print_tokens writes
static char OUT[32];
static int OUTN;
static bool OUT_overflow;
static void out_put(char c) { if (OUTN < (int)sizeof(OUT) - 1) OUT[OUTN++] = c; else OUT_overflow = true; }
static int verif_fprintf(FILE *f, const char *fmt, ...) {
  va_list ap;
  va_start(ap, fmt);
  for (int i = 0; i < 8 && fmt[i]; i++) {
    if (fmt[i] == '%' && fmt[i + 1] == '.' && fmt[i + 2] == '*' && fmt[i + 3] == 's') {
      int n = va_arg(ap, int);
      char *s = va_arg(ap, char *);
      for (int k = 0; k < 6 && k < n; k++) out_put(s[k]);
      i += 3;
    } else if (fmt[i] == '%' && fmt[i + 1] == 'c') {
      out_put((char)va_arg(ap, int));
      i += 1;
    } else if (fmt[i] == '%' && fmt[i + 1] == 's') {
      char *s = va_arg(ap, char *);
      for (int k = 0; k < 4 && s[k]; k++) out_put(s[k]);
      i += 1;
    } else
      out_put(fmt[i]);
  }
  va_end(ap);
  return 0;
}
static int verif_fputc(int c, FILE *f) { out_put((char)c); return c; }
static int verif_fputs(const char *s, FILE *f) { for (int k = 0; k < 8 && s[k]; k++) out_put(s[k]); return 0; }
#undef fprintf
#undef fputc
#undef fputs
#undef putc
#define fprintf verif_fprintf
#define fputc verif_fputc
#define putc verif_fputc
#define fputs verif_fputs

// print_tokens checks its stream for write errors (ferror/fflush); the capture buffer never fails
#undef ferror
#define ferror(f) 0
#define fflush(f) 0
#define main chibicc_main
#include "main.c"
#undef main
#undef ferror
#undef fflush

FILE *stub_open_file(char *path) { return stdout; }

struct IN_t { unsigned char a[2], b[2]; unsigned char la, lb; } IN;
struct IN_t nondet_IN(void);

int vk_read_punct(char *p);
int vk_read_ident(char *p);

// ---- tokenize()'s dispatch for buffers without quote characters -------------------------------
typedef struct { int kind; int off, len; bool at_bol, has_space; } MTok;
#define MAXTOK 8
// returns number of tokens, or -1 if the tokenizer would report an error (or a quote is met)
static int model_lex(char *s, MTok *out) {
  int n = 0, i = 0;
  bool bol = true, sp = false;
  for (int guard = 0; guard < 10; guard++) {
    if (!s[i]) return n;
    if (s[i] == '"' || s[i] == '\'') return -1;                    // outside the modelled alphabet
    if (s[i] == '/' && s[i + 1] == '/') {                          // line comment
      i += 2;
      for (int k = 0; k < 10 && s[i] != '\n'; k++) { if (!s[i]) return -1; i++; }
      sp = true;
      continue;
    }
    if (s[i] == '/' && s[i + 1] == '*') {                          // block comment
      int q = -1;
      for (int k = i + 2; k < 10 && s[k]; k++) if (q < 0 && s[k] == '*' && s[k + 1] == '/') q = k;
      if (q < 0) return -1;
      i = q + 2; sp = true;
      continue;
    }
    if (s[i] == '\n') { i++; bol = true; sp = false; continue; }
    if (isspace((unsigned char)s[i])) { i++; sp = true; continue; }
    int len = 0, kind = 0;
    if (isdigit((unsigned char)s[i]) || (s[i] == '.' && isdigit((unsigned char)s[i + 1]))) {   // pp-number
      int j = i + 1;
      for (int k = 0; k < 10; k++) {
        if (s[j] && s[j + 1] && (s[j] == 'e' || s[j] == 'E' || s[j] == 'p' || s[j] == 'P') && (s[j + 1] == '+' || s[j + 1] == '-')) j += 2;
        else if (isalnum((unsigned char)s[j]) || s[j] == '.') j++;
        else break;
      }
      len = j - i; kind = TK_PP_NUM;
    } else if ((len = vk_read_ident(s + i)) > 0) kind = TK_IDENT;
    else if (len == -2) return -1;                                  // invalid UTF-8 sequence: diagnostic
    else if ((len = vk_read_punct(s + i)) > 0) kind = TK_PUNCT;
    else return -1;                                                 // "invalid token"
    if (n >= MAXTOK) return -1;
    out[n].kind = kind; out[n].off = i; out[n].len = len; out[n].at_bol = bol; out[n].has_space = sp;
    n++;
    i += len; bol = sp = false;
  }
  return -1;
}

static char SRC[8];

static void pair(int ka, int kb) {
  HAVOC_IN();
  __CPROVER_assume(IN.la >= 1 && IN.la <= 2 && IN.lb >= 1 && IN.lb <= 2);
  for (int i = 0; i < 2; i++) {
#ifdef WIDE8
    // non-ASCII identifiers: all byte values; the UTF-8 stubs below admit the 2-byte sequences U+00C0..U+02FF
    __CPROVER_assume(IN.a[i] >= 1 && IN.b[i] >= 1);
#else
    __CPROVER_assume(IN.a[i] >= 1 && IN.a[i] < 128 && IN.b[i] >= 1 && IN.b[i] < 128);
#endif
    __CPROVER_assume(IN.a[i] != '"' && IN.a[i] != '\'' && IN.b[i] != '"' && IN.b[i] != '\'');
  }
  // "A B\n" must lex as exactly the two tokens A and B (each spelling is ONE token)
  int n = 0;
  SRC[n++] = IN.a[0]; if (IN.la == 2) SRC[n++] = IN.a[1];
  SRC[n++] = ' ';
  int offB = n;
  SRC[n++] = IN.b[0]; if (IN.lb == 2) SRC[n++] = IN.b[1];
  SRC[n++] = '\n'; SRC[n] = 0;
  MTok t[MAXTOK];
  int nt = model_lex(SRC, t);
  __CPROVER_assume(nt == 2 && t[0].kind == ka && t[0].off == 0 && t[0].len == IN.la &&
                   t[1].kind == kb && t[1].off == offB && t[1].len == IN.lb);

  // the list the preprocessor hands to print_tokens when B directly follows A in an expansion
  static Token A, B, E;
  A.kind = ka; A.loc = SRC; A.len = IN.la; A.at_bol = true; A.has_space = false; A.next = &B;
  B.kind = kb; B.loc = SRC + offB; B.len = IN.lb; B.at_bol = false; B.has_space = false; B.next = &E;
  E.kind = TK_EOF; E.loc = SRC + n; E.len = 0; E.at_bol = true; E.next = NULL;

  OUTN = 0;
  print_tokens(&A);
  OUT[OUTN] = 0;
  VASSERT(!OUT_overflow, "harness: captured output fits");

#ifdef NATIVE
  {  // confirm with the REAL tokenize(): must return exactly [A, B]
    Token *vk_tokenize_or_null(char *buf);
    static char copy[sizeof OUT];
    memcpy(copy, OUT, sizeof OUT);
    Token *r = vk_tokenize_or_null(copy);
    bool same = r && r->kind == ka && r->len == IN.la && !memcmp(r->loc, SRC, IN.la) && r->next &&
                r->next->kind == kb && r->next->len == IN.lb && !memcmp(r->next->loc, SRC + offB, IN.lb) &&
                r->next->next && r->next->next->kind == TK_EOF;
    printf("print_tokens wrote \"%.*s\"; real tokenize() gives back [A,B]: %s\n", OUTN - 1, OUT, same ? "yes" : "NO");
    VASSERT(same, "REAL tokenize() of the printed text yields exactly [A, B]");
  }
#endif
  MTok r[MAXTOK];
  int nr = model_lex(OUT, r);
  VASSERT(nr >= 1 && r[0].kind == ka && r[0].len == IN.la, "first re-lexed token has the kind and length of A");
  for (int i = 0; i < 2; i++)
    if (nr >= 1 && i < IN.la) VASSERT((unsigned char)OUT[r[0].off + i] == IN.a[i], "first re-lexed token is spelled like A");
  VASSERT(nr >= 2 && r[1].kind == kb && r[1].len == IN.lb, "second re-lexed token has the kind and length of B");
  for (int i = 0; i < 2; i++)
    if (nr >= 2 && i < IN.lb) VASSERT((unsigned char)OUT[r[1].off + i] == IN.b[i], "second re-lexed token is spelled like B");
  VASSERT(nr == 2, "exactly two tokens are re-lexed");
  VCOVER();
}

#define PAIR(na, ka, nb, kb) void h_##na##_##nb(void) { pair(ka, kb); }
PAIR(ident, TK_IDENT, ident, TK_IDENT) PAIR(ident, TK_IDENT, num, TK_PP_NUM) PAIR(ident, TK_IDENT, punct, TK_PUNCT)
PAIR(num, TK_PP_NUM, ident, TK_IDENT) PAIR(num, TK_PP_NUM, num, TK_PP_NUM) PAIR(num, TK_PP_NUM, punct, TK_PUNCT)
PAIR(punct, TK_PUNCT, ident, TK_IDENT) PAIR(punct, TK_PUNCT, num, TK_PP_NUM) PAIR(punct, TK_PUNCT, punct, TK_PUNCT)

// ---- -E of a whole (tiny) translation unit through the real cc1(): every token that preprocess2 produced is
// printed. EN (1..3) tokens whose kinds EK0..EK2 over { a, "x", 1, +, "yz" } are fixed per harness build (cbmc does
// not finish with symbolic kinds: every equal() in preprocess2 then dereferences a symbolic spelling) and whose
// white-space flags are symbolic are returned by tokenize_file (stub); the REAL cc1() with -E (real preprocess():
// preprocess2, expand_macro, the line-number pass; convert_pp_tokens cut, no macro defined) must print the
// spellings of ALL tokens in order, separated by nothing but blanks. (Adjacent string literals used to be
// concatenated before printing: `"x" "yz"` was printed as `"x"`.)
#ifndef EN
#define EN 2
#define EK0 1
#define EK1 4
#define EK2 0
#endif
static char ESRC[] = "a \"x\" 1 + \"yz\"";
static const struct { int off, len; int kind; } ESPELL[5] = { {0, 1, TK_IDENT}, {2, 3, TK_STR}, {6, 1, TK_NUM}, {8, 1, TK_PUNCT}, {10, 4, TK_STR} };
static const int EK[3] = { EK0, EK1, EK2 };
struct EIN_t { bool sp[3]; } EIN;
struct EIN_t nondet_EIN(void);
static File EFILE = { .name = "e.c", .display_name = "e.c", .file_no = 1, .contents = ESRC };
Token *stub_tokenize_file(char *path) {
  Token *first = NULL, *last = NULL;
  for (int i = 0; i <= EN; i++) {
    Token *t = calloc(1, sizeof(Token));
    t->file = &EFILE; t->filename = "e.c";
    if (i == EN) {
      t->kind = TK_EOF; t->loc = ESRC + sizeof(ESRC) - 1; t->len = 0; t->line_no = 2; t->at_bol = true;
    } else {
      t->kind = ESPELL[EK[i]].kind; t->loc = ESRC + ESPELL[EK[i]].off; t->len = ESPELL[EK[i]].len;
      t->line_no = 1; t->at_bol = (i == 0); t->has_space = (i != 0) && EIN.sp[i];
      if (t->kind == TK_STR) { t->ty = array_of(ty_char, t->len - 1); t->str = (t->len == 3) ? "x" : "yz"; }
      if (t->kind == TK_NUM) { t->ty = ty_int; t->val = 1; }
    }
    if (last) last->next = t; else first = t;
    last = t;
  }
  return first;
}
void stub_convert_pp_tokens(Token *tok) {}
// tokenize.c equal(): memcmp(tok->loc, op, tok->len) reads op beyond its terminator when the token is longer than op
// (standard-level undefined behaviour that no run observes; reported separately in DESIGN.md). Same result, bounded:
bool stub_equal(Token *tok, char *op) {
  for (int i = 0; i < 12; i++) {
    if (i == tok->len) return op[i] == 0;
    if (op[i] == 0 || tok->loc[i] != op[i]) return false;
  }
  return false;
}
void *stub_hashmap_get2(HashMap *map, char *key, int keylen) { return NULL; }   // no macro is defined (dictionary contract, C17)
void h_E_unit(void) {
#ifdef NATIVE
  memset(&EIN, 0, sizeof EIN);
#else
  EIN = nondet_EIN();
#endif
  opt_E = true;
  base_file = "e.c";
  OUTN = 0;
  cc1();
  OUT[OUTN] = 0;
  VASSERT(!OUT_overflow, "harness: captured output fits");
  int o = 0;
  for (int i = 0; i < EN; i++) {
    for (int g = 0; g < 2; g++) if (OUT[o] == ' ') o++;
    for (int k = 0; k < 4; k++)
      if (k < ESPELL[EK[i]].len) { VASSERT(OUT[o] == ESRC[ESPELL[EK[i]].off + k], "-E prints the spelling of EVERY token the compiler proper consumes, in order"); o++; }
  }
  VASSERT(OUT[o] == '\n' && OUT[o + 1] == 0, "nothing else is printed");
  VCOVER();
}

#ifdef NATIVE
// ---- oracle validation: model_lex == real tokenize() -----------------------------------------
Token *vk_tokenize_or_null(char *buf);
void vk_arena_reset(void);
static long validate_one(char *buf) {
  static char copy[16];
  strcpy(copy, buf);
  MTok m[MAXTOK];
  int nm = model_lex(buf, m);
  vk_arena_reset();
  Token *r = vk_tokenize_or_null(copy);
  if (!r) { if (nm != -1) { printf("ORACLE-MISMATCH: real tokenize rejects, model accepts: "); goto bad; } return 1; }
  if (nm == -1) { printf("ORACLE-MISMATCH: model rejects, real tokenize accepts: "); goto bad; }
  int k = 0;
  for (Token *t = r; t->kind != TK_EOF; t = t->next, k++) {
    if (k >= nm || m[k].kind != (int)t->kind || m[k].off != t->loc - copy || m[k].len != t->len ||
        m[k].at_bol != t->at_bol || m[k].has_space != t->has_space) { printf("ORACLE-MISMATCH at token %d: ", k); goto bad; }
  }
  if (k != nm) { printf("ORACLE-MISMATCH: token count %d vs %d: ", k, nm); goto bad; }
  return 1;
bad:
  for (char *p = buf; *p; p++) printf("%02x ", (unsigned char)*p);
  printf("\n");
  _Exit(1);
}
static long validate_rec(char *buf, int pos, int len, const char *alpha, int nalpha) {
  if (pos == len) { buf[pos] = '\n'; buf[pos + 1] = 0; return validate_one(buf); }
  long c = 0;
  for (int i = 0; i < nalpha; i++) { buf[pos] = alpha[i]; c += validate_rec(buf, pos + 1, len, alpha, nalpha); }
  return c;
}
void validate_oracle(void) {
  char full[128]; int nf = 0;
  for (int c = 1; c < 128; c++) if (c != '"' && c != '\'') full[nf++] = (char)c;
  static const char mid[] = "/*.+-<>=&|#%^!:eEpPxX019a_ \n\t(";
  static const char small[] = "/*.+-<=&#eP1a \n";
  char buf[16];
  long n = 0;
  for (int len = 0; len <= 3; len++) n += validate_rec(buf, 0, len, full, nf);
  n += validate_rec(buf, 0, 4, mid, (int)strlen(mid));
  n += validate_rec(buf, 0, 5, small, (int)strlen(small));
  n += validate_rec(buf, 0, 6, small, 10);
  static const char wide[] = "\xc3\xa9\xc4\x80\xcb\xbf" "a1+.= \n";     // U+00E9, U+0100, U+02FF and ASCII neighbours
  n += validate_rec(buf, 0, 5, wide, (int)strlen(wide));
  printf("ORACLE-OK %ld buffers: model_lex agrees with the real tokenize()\n", n);
}
#endif

// diagnostic path of the scanners (cbmc only: --replace-calls error_at:stub_error_at): the real
// error_at scans the line, measures display width, prints and exits; here it just ends the path.
noreturn void stub_error_at(char *loc, char *fmt, ...) { verif_exit(1); }

// unicode.c on ASCII input (alphabet bytes are 1..127, asserted here): decode_utf8 returns the byte;
// is_ident1/2 are their C11 Annex D specification restricted to c < 128 (the full functions are
// checked against Annex D for every code point by C11 ident/annexD and utf8/*).  cbmc only; the
// native oracle validation and replays run the real unicode.c.
#ifdef WIDE8
// WIDE8 variant: UTF-8 restricted to 1-byte and to the 2-byte sequences for U+00C0..U+02FF (Latin-1 letters, Latin
// Extended, IPA: all identifier characters in C11 Annex D except U+00D7 and U+00F7); any other sequence ends the
// path (outside this harness' alphabet). The full decode_utf8/is_ident1/2 are decided for every code point in C11.
uint32_t stub_decode_utf8(char **new_pos, char *p) {
  unsigned char b0 = (unsigned char)p[0];
  if (b0 < 128) { *new_pos = p + 1; return b0; }
  unsigned char b1 = (unsigned char)p[1];
  __CPROVER_assume(0xC3 <= b0 && b0 <= 0xCB && (b1 & 0xC0) == 0x80);
  *new_pos = p + 2;
  return ((uint32_t)(b0 & 0x1F) << 6) | (b1 & 0x3F);
}
bool stub_is_ident1(uint32_t c) {
  if (c < 128) return ('a' <= c && c <= 'z') || ('A' <= c && c <= 'Z') || c == '_' || c == '$';
  VASSERT(0xC0 <= c && c <= 0x2FF, "harness: only U+00C0..U+02FF reaches is_ident1");
  return c != 0xD7 && c != 0xF7;
}
bool stub_is_ident2(uint32_t c) {
  return stub_is_ident1(c) || ('0' <= c && c <= '9');
}
#else
uint32_t stub_decode_utf8(char **new_pos, char *p) {
  VASSERT((unsigned char)*p < 128, "harness: only ASCII reaches decode_utf8");
  *new_pos = p + 1;
  return (unsigned char)*p;
}
bool stub_is_ident1(uint32_t c) {
  VASSERT(c < 128, "harness: only ASCII reaches is_ident1");
  return ('a' <= c && c <= 'z') || ('A' <= c && c <= 'Z') || c == '_' || c == '$';
}
bool stub_is_ident2(uint32_t c) {
  VASSERT(c < 128, "harness: only ASCII reaches is_ident2");
  return stub_is_ident1(c) || ('0' <= c && c <= '9');
}
#endif
