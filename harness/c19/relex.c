// C19: what `-E` prints re-lexes to the token sequence that was printed.
// For every pair of spellings A, B (each 1..2 symbolic ASCII bytes) that the REAL tokenize() lexes
// as single tokens: hand the two-token list [A, B] to the REAL print_tokens() of main.c with the
// flags the preprocessor gives B when nothing separated it from A in the expansion result
// (B.at_bol = false, B.has_space = false; reachable for ANY such pair, e.g. `#define F(x) x` /
// `F(A)F(B)`, or `#define N -1` / `-N`), capture the text it writes, run the real tokenize() on
// that text and require exactly [A, B] back (same kinds, same spellings).
// "Adjacent" is therefore whatever print_tokens itself decides: a printer that separates
// dangerous pairs passes, the pinned one (space iff has_space) does not.
//
// One harness function per (kind of A, kind of B) so that findings are keyed by class.
// Other translation units (tokenize.c, unicode.c, type.c, ...) are linked REAL (extra_src).
// Stub (cbmc only): open_file -> a dummy FILE (natively the real one returns stdout).
#include "common.h"
#include "assert_hook.h"

// capture everything print_tokens writes
static char OUT[16];
static int OUTN;
static bool OUT_overflow;
static void out_put(char c) { if (OUTN < (int)sizeof(OUT) - 1) OUT[OUTN++] = c; else OUT_overflow = true; }
static int verif_fprintf(FILE *f, const char *fmt, ...) {
  va_list ap;
  va_start(ap, fmt);
  for (int i = 0; i < 8 && fmt[i]; i++) {
    if (fmt[i] == '%' && fmt[i + 1] == '.' && fmt[i + 2] == '*' && fmt[i + 3] == 's') {
      int n = va_arg(ap, int);
      char *s = va_arg(ap, char *);
      for (int k = 0; k < 4 && k < n; k++) out_put(s[k]);
      i += 3;
    } else if (fmt[i] == '%' && fmt[i + 1] == 'c') {
      out_put((char)va_arg(ap, int));
      i += 1;
    } else if (fmt[i] == '%' && fmt[i + 1] == 's') {
      char *s = va_arg(ap, char *);
      for (int k = 0; k < 4 && s[k]; k++) out_put(s[k]);
      i += 1;
    } else
      out_put(fmt[i]);
  }
  va_end(ap);
  return 0;
}
static int verif_fputc(int c, FILE *f) { out_put((char)c); return c; }
static int verif_fputs(const char *s, FILE *f) { for (int k = 0; k < 8 && s[k]; k++) out_put(s[k]); return 0; }
#undef fprintf
#undef fputc
#undef fputs
#undef putc
#define fprintf verif_fprintf
#define fputc verif_fputc
#define putc verif_fputc
#define fputs verif_fputs

#define main chibicc_main
#include "main.c"
#undef main

FILE *stub_open_file(char *path) { return stdout; }

struct IN_t { unsigned char a[2], b[2]; unsigned char la, lb; } IN;
struct IN_t nondet_IN(void);

static char SRC[8];

#ifndef WITH_QUOTES
#define QUOTE_OK(c) ((c) != '"' && (c) != '\'')
#else
#define QUOTE_OK(c) 1
#endif

static void pair(int ka, int kb) {
  HAVOC_IN();
  __CPROVER_assume(IN.la >= 1 && IN.la <= 2 && IN.lb >= 1 && IN.lb <= 2);
  for (int i = 0; i < 2; i++) {
    __CPROVER_assume(IN.a[i] >= 1 && IN.a[i] < 128 && IN.b[i] >= 1 && IN.b[i] < 128);
    __CPROVER_assume(QUOTE_OK(IN.a[i]) && QUOTE_OK(IN.b[i]));
  }
  // "A B\n": the real tokenizer must see exactly the two tokens A and B (each spelling is one token)
  int n = 0;
  SRC[n++] = IN.a[0]; if (IN.la == 2) SRC[n++] = IN.a[1];
  SRC[n++] = ' ';
  int offB = n;
  SRC[n++] = IN.b[0]; if (IN.lb == 2) SRC[n++] = IN.b[1];
  SRC[n++] = '\n'; SRC[n] = 0;

  Token *A = tokenize(new_file("a.c", 1, SRC));
  __CPROVER_assume(A->kind == ka && A->len == IN.la && A->loc == SRC);
  Token *B = A->next;
  __CPROVER_assume(B->kind == kb && B->len == IN.lb && B->loc == SRC + offB);
  __CPROVER_assume(B->next->kind == TK_EOF);

  // the flags the preprocessor gives B when it directly follows A in an expansion result
  A->at_bol = true; A->has_space = false;
  B->at_bol = false; B->has_space = false;

  OUTN = 0;
  print_tokens(A);
  OUT[OUTN] = 0;
  VASSERT(!OUT_overflow, "harness: captured output fits");

  Token *r = tokenize(new_file("out.i", 1, OUT));
  VASSERT(r->kind == ka && r->len == IN.la, "first re-lexed token has the kind and length of A");
  for (int i = 0; i < 2; i++)
    if (i < IN.la && i < r->len) VASSERT(r->loc[i] == IN.a[i], "first re-lexed token is spelled like A");
  __CPROVER_assume(r->kind != TK_EOF);
  Token *s = r->next;
  VASSERT(s->kind == kb && s->len == IN.lb, "second re-lexed token has the kind and length of B");
  for (int i = 0; i < 2; i++)
    if (i < IN.lb && i < s->len) VASSERT(s->loc[i] == IN.b[i], "second re-lexed token is spelled like B");
  __CPROVER_assume(s->kind != TK_EOF);
  VASSERT(s->next->kind == TK_EOF, "exactly two tokens are re-lexed");
  VCOVER();
}

#define PAIR(na, ka, nb, kb) void h_##na##_##nb(void) { pair(ka, kb); }
PAIR(ident, TK_IDENT, ident, TK_IDENT) PAIR(ident, TK_IDENT, num, TK_PP_NUM) PAIR(ident, TK_IDENT, punct, TK_PUNCT) PAIR(ident, TK_IDENT, str, TK_STR)
PAIR(num, TK_PP_NUM, ident, TK_IDENT) PAIR(num, TK_PP_NUM, num, TK_PP_NUM) PAIR(num, TK_PP_NUM, punct, TK_PUNCT) PAIR(num, TK_PP_NUM, str, TK_STR)
PAIR(punct, TK_PUNCT, ident, TK_IDENT) PAIR(punct, TK_PUNCT, num, TK_PP_NUM) PAIR(punct, TK_PUNCT, punct, TK_PUNCT) PAIR(punct, TK_PUNCT, str, TK_STR)
PAIR(str, TK_STR, ident, TK_IDENT) PAIR(str, TK_STR, num, TK_PP_NUM) PAIR(str, TK_STR, punct, TK_PUNCT) PAIR(str, TK_STR, str, TK_STR)

// diagnostic path of the tokenizer (cbmc only: --replace-calls error_at:stub_error_at etc.): the real
// error_at scans the line, measures display width, prints and exits; here it just ends the path
// (a spelling the tokenizer rejects is not a token, so such inputs are outside the quantifier).
noreturn void stub_error_at(char *loc, char *fmt, ...) { verif_exit(1); }
noreturn void stub_error_tok(Token *tok, char *fmt, ...) { verif_exit(1); }

// string / character literal readers: with quotes excluded from the alphabet they are unreachable;
// the stubs ASSERT that (cbmc only), which removes their bodies from the symbolic execution.
Token *stub_no_literal(char *start, char *quote) { VASSERT(0, "literal reader reached although no quote is in the alphabet"); verif_exit(1); }
Token *stub_no_literal3(char *start, char *quote, Type *ty) { VASSERT(0, "literal reader reached although no quote is in the alphabet"); verif_exit(1); }
