// C19 helper translation unit: tokenize.c (REAL) with its static scanners exported, so that the
// harness TU (which includes main.c for the static print_tokens) can call them.  chibicc.h has no
// include guard, hence two translation units.
#ifndef __CPROVER__
#define NATIVE 1   // every gcc build of this unit is a native (replay / oracle validation) build
#endif
#include "common.h"
#ifdef NATIVE
// native oracle validation tokenizes millions of buffers: bump allocator, reset by the caller
static char vk_arena[1 << 16];
static size_t vk_arena_top;
static void *vk_calloc(size_t n, size_t sz) {
  size_t need = (n * sz + 15) & ~(size_t)15;
  if (vk_arena_top + need > sizeof vk_arena) { printf("arena exhausted\n"); _Exit(3); }
  void *r = vk_arena + vk_arena_top;
  memset(r, 0, need);
  vk_arena_top += need;
  return r;
}
void vk_arena_reset(void) { vk_arena_top = 0; }
#define calloc(n, sz) vk_calloc((n), (sz))
#endif
#include "tokenize.c"
#undef calloc

int vk_read_punct(char *p) { return read_punct(p); }
#ifdef NATIVE
// natively an invalid UTF-8 sequence makes read_ident report a diagnostic: returned as -2 (= the tokenizer rejects)
int vk_read_ident(char *p) {
  static File f;
  f.name = "v.c"; f.display_name = "v.c"; f.file_no = 1; f.contents = p;
  current_file = &f;
  volatile int r = -2;
  TRY(r = read_ident(p));
  if (verif_diag) { verif_diag = 0; return -2; }
  return r;
}
#else
int vk_read_ident(char *p) { return read_ident(p); }
#endif

#ifdef NATIVE
// real tokenize() with its diagnostic exit caught: returns NULL when the tokenizer rejects the input
Token *vk_tokenize_or_null(char *buf) {
  static File f;
  f.name = "v.c"; f.display_name = "v.c"; f.file_no = 1; f.contents = buf;
  Token *volatile r = NULL;
  TRY(r = tokenize(&f));
  return verif_diag ? (verif_diag = 0, (Token *)NULL) : r;
}
#endif
