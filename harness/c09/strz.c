// C09 kernels outside the subst() shape table:
//  h_stringize  the REAL stringize() on an argument of 1..2 tokens of symbolic kind over
//               { ab   \   "x\n"   '\\'   "q"   + } with a symbolic white-space flag, against C11 6.10.3.2p2: the
//               spellings joined by one space where white space separated them, a backslash inserted before each
//               " and \ of string literals and character constants ONLY, the whole wrapped in double quotes.
//  h_vaopt      the REAL subst() on the body  `__VA_OPT__ ( x a ) y`  with the variable argument list present or
//               absent and x, y independently empty: the contents of __VA_OPT__ are substituted like the rest of the
//               replacement list (x fully macro-expanded) when __VA_ARGS__ is non-empty, and vanish otherwise.
#define VERIF_PACKED_SPELLING 1
#define VERIF_TOKENIZE(file) verif_capture(file)
static int expect_no_diag;
#define VERIF_ON_EXIT(code) VASSERT(!expect_no_diag, "no diagnostic on a well-formed invocation")
#include "common.h"
#include "pp_env.h"
#include "preprocess.c"
static Token *verif_capture(File *file);
#include "pp_env_impl.h"

struct IN_t { unsigned char k[2], n, sp, va, xempty, yempty; } IN;
struct IN_t nondet_IN(void);

static char *captured;
static Token *verif_capture(File *file) {
  captured = file->contents;
  return verif_default_tokenize(file);
}

static Token *first_tok, *last_tok;
static Token *mk(TokenKind k, char *sp, int len, bool space) {
  Token *t = calloc(1, sizeof(Token));
  t->kind = k; t->loc = sp; t->len = len; t->has_space = space; t->file = &verif_file;
  t->val = verif_spell(sp);
  if (last_tok) last_tok->next = t; else first_tok = t;
  last_tok = t;
  return t;
}
static Token *take_list(void) { Token *f = first_tok; first_tok = last_tok = NULL; return f; }

// spelling, kind, and the text 6.10.3.2p2 prescribes for it inside the resulting string literal
static const struct { char *sp; int len; int kind; char *out; } SZ[6] = {
  {"ab", 2, TK_IDENT, "ab"},
  {"\\", 1, TK_PUNCT, "\\"},                          // a backslash that is not part of a literal: copied as is
  {"\"x\\n\"", 5, TK_STR, "\\\"x\\\\n\\\""},          // "x\n"  ->  \"x\\n\"
  {"'\\\\'", 4, TK_NUM, "'\\\\\\\\'"},                // '\\'   ->  '\\\\'
  {"\"q\"", 3, TK_STR, "\\\"q\\\""},
  {"+", 1, TK_PUNCT, "+"},
};

static void run_strz(int c0, int c1, int n, int sp) {
  char want[40];
  int o = 0;
  want[o++] = '"';
  mk(SZ[c0].kind, SZ[c0].sp, SZ[c0].len, false);
  for (int j = 0; j < 12 && SZ[c0].out[j]; j++) want[o++] = SZ[c0].out[j];
  if (n == 2) {
    Token *t2 = mk(SZ[c1].kind, SZ[c1].sp, SZ[c1].len, sp == 1);
    t2->at_bol = sp == 2;                       // sp == 2: the invocation continues on a new line before this token
    if (sp) want[o++] = ' ';
    for (int j = 0; j < 12 && SZ[c1].out[j]; j++) want[o++] = SZ[c1].out[j];
  }
  want[o++] = '"'; want[o] = 0;
  mk(TK_EOF, "", 0, false);
  Token *arg = take_list();
  Token *hash = mk(TK_PUNCT, "#", 1, false);
  take_list();
  expect_no_diag = 1;
  captured = NULL;
  Token *r = NULL;
  TRY(r = stringize(hash, arg));
  if (verif_diag) return;
  VASSERT(captured != NULL, "stringize produces its text and has it tokenized");
  for (int j = 0; j < 40; j++) {
    if (j > o) continue;
    VASSERT(captured[j] == want[j], "# operator: spellings joined, \\ inserted before \" and \\ of string literals and character constants only (C11 6.10.3.2p2)");
  }
  VCOVER();
}
void h_stringize(void) {
  HAVOC_IN();
  __CPROVER_assume(IN.n >= 1 && IN.n <= 2 && IN.k[0] < 6 && IN.k[1] < 6 && IN.sp <= 2);
  // case split with the call INSIDE each case: spellings are concrete per case (symbolic spellings merged before the
  // call make every character access a dereference of a symbolic pointer, which cbmc 6.11 handles very slowly)
  for (int c0 = 0; c0 < 6; c0++)
    for (int c1 = 0; c1 < 6; c1++)
      for (int n = 1; n <= 2; n++)
        for (int sp = 0; sp <= 2; sp++)
          if (IN.k[0] == c0 && IN.k[1] == c1 && IN.n == n && IN.sp == sp) { run_strz(c0, c1, n, sp); return; }
}

// An argument is used twice: once expanded (`x`), once as the operand of `#` - in either order.  The REAL subst() on
// F(+ p)  where  #define p P : C11 6.10.3.1 - the `#` operand is the argument as WRITTEN ("+ p"), whatever happened to
// the other occurrence.  preprocess2() is replaced by its contract at its most hostile: it returns the expansion and
// CONSUMES the list it was handed (the real one relinks the tokens it passes through - with the real
// preprocess2/expand_macro the query does not finish in 600 s).
Token *stub_preprocess2(Token *tok);
Token *stub_preprocess2_consume(Token *tok) {
  Token *r = stub_preprocess2(tok);
  for (Token *t = tok; t && t->kind != TK_EOF; ) { Token *n = t->next; t->next = r; t->loc = "?"; t->len = 1; t->val = verif_spell("?"); t = n; }
  return r;
}
void h_arg_reuse(void) {
  HAVOC_IN();
  __CPROVER_assume(IN.va <= 1);               // order:  x #x   or   #x x
  if (IN.va) { mk(TK_PUNCT, "#", 1, false); mk(TK_IDENT, "x", 1, false); mk(TK_IDENT, "x", 1, true); }
  else { mk(TK_IDENT, "x", 1, false); mk(TK_PUNCT, "#", 1, true); mk(TK_IDENT, "x", 1, false); }
  mk(TK_EOF, "", 0, false);
  Token *body = take_list();
  MacroArg ax = {.name = "x"};
  mk(TK_PUNCT, "+", 1, false); mk(TK_IDENT, "p", 1, true); mk(TK_EOF, "", 0, false);
  ax.tok = take_list();
  expect_no_diag = 1;
  captured = NULL;
  Token *out = NULL;
  TRY(out = subst(body, &ax));
  if (verif_diag) return;
  const char *want = "\"+ p\"";
  VASSERT(captured != NULL, "the # operand was stringized");
  for (int j = 0; j < 6; j++) VASSERT(captured[j] == want[j], "`#x` is the spelling of the argument as written, also when another `x` in the body was macro-expanded");
  Token *t = IN.va ? out->next : out;
  VASSERT(t && t->val == verif_spell("+") && t->next && t->next->kind == TK_IDENT && t->next->len == 1 && t->next->loc[0] == 'P', "the plain occurrence is fully macro-expanded");
  VCOVER();
}

Token *stub_preprocess2(Token *tok) {      // as in macro.c: p and q behave as macros defined as P and Q
  Token head = {0}, *cur = &head;
  for (Token *t = tok; t && t->kind != TK_EOF; t = t->next) {
    Token *c = calloc(1, sizeof(Token));
    *c = *t;
    c->loc = t->val == verif_spell("p") ? "P" : t->val == verif_spell("q") ? "Q" : t->loc;
    c->val = verif_spell(c->loc);
    c->next = NULL;
    cur = cur->next = c;
  }
  Token *e = calloc(1, sizeof(Token));
  e->kind = TK_EOF; e->file = &verif_file;
  cur->next = e;
  return head.next;
}

void h_vaopt(void) {
  HAVOC_IN();
  __CPROVER_assume(IN.va <= 1 && IN.xempty <= 1 && IN.yempty <= 1);
  // body:  __VA_OPT__ ( x a ) y
  mk(TK_IDENT, "__VA_OPT__", 10, false); mk(TK_PUNCT, "(", 1, false); mk(TK_IDENT, "x", 1, false); mk(TK_IDENT, "a", 1, true);
  mk(TK_PUNCT, ")", 1, false); mk(TK_IDENT, "y", 1, true); mk(TK_EOF, "", 0, false);
  Token *body = take_list();
  MacroArg ax = {.name = "x"}, ay = {.name = "y"}, av = {.name = "__VA_ARGS__", .is_va_args = true};
  if (!IN.xempty) mk(TK_IDENT, "p", 1, false);
  mk(TK_EOF, "", 0, false); ax.tok = take_list();
  if (!IN.yempty) mk(TK_IDENT, "q", 1, false);
  mk(TK_EOF, "", 0, false); ay.tok = take_list();
  if (IN.va) mk(TK_IDENT, "v", 1, false);
  mk(TK_EOF, "", 0, false); av.tok = take_list();
  ax.next = &ay; ay.next = &av;
  expect_no_diag = 1;
  Token *out = NULL;
  TRY(out = subst(body, &ax));
  if (verif_diag) return;
  int64_t want[3]; int n = 0;
  if (IN.va) { if (!IN.xempty) want[n++] = verif_spell("P"); want[n++] = verif_spell("a"); }
  if (!IN.yempty) want[n++] = verif_spell("Q");
  Token *t = out;
  for (int i = 0; i < 3; i++) {
    if (i >= n) continue;
    VASSERT(t && t->kind != TK_EOF && t->val == want[i], "__VA_OPT__(contents): contents substituted like the rest of the replacement list iff __VA_ARGS__ is non-empty");
    if (t) t = t->next;
  }
  VASSERT(t && t->kind == TK_EOF, "nothing else in the expansion");
  VCOVER();
}
