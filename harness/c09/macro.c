// C09: macro expansion kernels of preprocess.c.
//  (1) hide-set algebra: real hideset_union / hideset_intersection / hideset_contains on symbolic
//      lists (<= 3 elements) over a 3-name pool, against set algebra.
//  (2) real subst() on function-like macro bodies over {x, y, #, ##, a, ','} with each of the two
//      arguments independently empty or one token (symbolic), against a reference written from
//      C11 6.10.3.1-3 (placemarker semantics).  The body is one of the shapes of shapes.inc
//      (enumerated exhaustively to a stated bound; IN.shape selects it, each harness function
//      covers a batch of 16 shapes and is explored case by case with a concrete body — a fully
//      symbolic body makes cbmc's pointer reasoning over the copied token lists intractable).
//  (3) termination + completeness of rescanning: real preprocess2/expand_macro over <= 3 mutually
//      referential object-like macros with symbolic bodies of 1..2 tokens; the unwinding assertions
//      at the hide-set-derived bound are the termination claim.
#define MAXBODY 6
#define VERIF_PACKED_SPELLING 1
#define VERIF_TOKENIZE(file) verif_tokenize_one(file)
// in cbmc mode exit() ends the path: "no diagnostic" must be asserted AT the exit
static int expect_no_diag;
#define VERIF_ON_EXIT(code) VASSERT(!expect_no_diag, "no diagnostic on a well-formed macro invocation / input (C11 6.10.3.3p2-3 placemarkers)")
#include "common.h"
#include "pp_env.h"
#include "preprocess.c"
static Token *verif_tokenize_one(File *file);
#include "pp_env_impl.h"

struct IN_t {
  // (1)
  unsigned char n1, n2, e1[3], e2[3], q;
  // (2)
  unsigned short shape;
  unsigned char nbody, body[MAXBODY], xempty, yempty;
  // (3)
  unsigned char mlen[3], mbody[3][2], start;
  // (4)
  unsigned char hn[3], he[3][2], objlike, pbody;
} IN;
struct IN_t nondet_IN(void);

// tokenize() as paste()/stringize() use it: the text is ONE token (identifier, or a string literal
// if it starts with '"'); its packed spelling is computed from the characters format() produced.
static Token *verif_tokenize_one(File *file) {
  Token *t = verif_default_tokenize(file);
  int64_t v = 0;
  for (int i = 0; i < 7; i++) if (i < t->len) v |= (int64_t)(unsigned char)t->loc[i] << (8 * i);
  VASSERT(t->len <= 7, "harness bound: pasted spelling <= 7 bytes");
  t->val = (v << 4) | t->len;
  return t;
}

// ================================================================ (1) hide sets
static char *pool[3] = {"A", "AB", "B"};    // one name is a proper prefix of another: exercises the length test
static Hideset *mkhs(int n, unsigned char *e) {
  Hideset *h = NULL;
  for (int i = 2; i >= 0; i--)
    if (i < n) { Hideset *x = calloc(1, sizeof(Hideset)); x->name = pool[e[i]]; x->next = h; h = x; }
  return h;
}
static bool in_list(int n, unsigned char *e, int q) {
  bool r = false;
  for (int i = 0; i < 3; i++) if (i < n && e[i] == q) r = true;
  return r;
}
static int plen(int q) { return q == 1 ? 2 : 1; }
void h_hideset(void) {
  HAVOC_IN();
  __CPROVER_assume(IN.n1 <= 3 && IN.n2 <= 3 && IN.q <= 2);
  for (int i = 0; i < 3; i++) __CPROVER_assume(IN.e1[i] <= 2 && IN.e2[i] <= 2);
  Hideset *a = mkhs(IN.n1, IN.e1), *b = mkhs(IN.n2, IN.e2);
  int q = IN.q;
  bool ina = in_list(IN.n1, IN.e1, q), inb = in_list(IN.n2, IN.e2, q);
  VASSERT(hideset_contains(a, pool[q], plen(q)) == ina, "hideset_contains == membership");
  // a name given as a prefix of a longer buffer (how tokens are passed: loc,len)
  VASSERT(hideset_contains(a, "AB", 1) == in_list(IN.n1, IN.e1, 0), "membership test uses exactly len bytes");
  Hideset *u = hideset_union(a, b);
  VASSERT(hideset_contains(u, pool[q], plen(q)) == (ina || inb), "union: member iff member of either");
  Hideset *x = hideset_intersection(a, b);
  VASSERT(hideset_contains(x, pool[q], plen(q)) == (ina && inb), "intersection: member iff member of both");
  // operands are not modified
  VASSERT(hideset_contains(a, pool[q], plen(q)) == ina && hideset_contains(b, pool[q], plen(q)) == inb,
          "union/intersection do not modify their operands");
  VCOVER();
}

// ================================================================ shared token construction
static Token *first_tok, *last_tok;
static Token *mk(TokenKind k, char *sp, int len, bool space) {
  Token *t = calloc(1, sizeof(Token));
  t->kind = k; t->loc = sp; t->len = len; t->has_space = space; t->file = &verif_file;
  t->val = verif_spell(sp);
  if (last_tok) last_tok->next = t; else first_tok = t;
  last_tok = t;
  return t;
}
static Token *take_list(void) { Token *f = first_tok; first_tok = last_tok = NULL; return f; }

// preprocess2 as subst() uses it on an argument (C11 6.10.3.1: "a parameter in the replacement list, unless preceded
// by a # or ## preprocessing token or followed by a ## preprocessing token, is replaced by the corresponding argument
// after all macros contained therein have been expanded"). The #include/#if machinery is cut out of the query; so that
// the reference can tell WHERE full macro expansion was applied, the stub behaves as if `p` and `q` were object-like
// macros defined as `P` and `Q`: it returns a fresh list in which p is spelled P and q is spelled Q.
Token *stub_preprocess2(Token *tok) {
  Token head = {0}, *cur = &head;
  for (Token *t = tok; t && t->kind != TK_EOF; t = t->next) {
    VASSERT(t->val == verif_spell("p") || t->val == verif_spell("q"), "arguments are single plain identifiers");
    Token *c = calloc(1, sizeof(Token));
    *c = *t;
    c->loc = t->val == verif_spell("p") ? "P" : "Q";
    c->val = verif_spell(c->loc);
    c->next = NULL;
    cur = cur->next = c;
  }
  Token *e = calloc(1, sizeof(Token));
  e->kind = TK_EOF; e->file = &verif_file;
  cur->next = e;
  return head.next;
}

// ================================================================ (2) subst vs C11 6.10.3.1-3
enum { B_X, B_Y, B_HASH, B_PASTE, B_A, B_COMMA, B_N };
static int64_t cat(int64_t a, int64_t b);
// paste()/stringize() are format()+tokenize() glue; their callers' logic (which operands are pasted,
// placemarkers) is the subject here, so they are cut to spelling-level equivalents:
//   paste(l, r)      -> one token spelled l.r      stringize(#, arg) -> "" or "<arg>" as one TK_STR
Token *stub_paste(Token *lhs, Token *rhs) {
  Token *t = calloc(1, sizeof(Token)), *e = calloc(1, sizeof(Token));
  *t = *lhs;
  t->val = cat(lhs->val, rhs->val); t->len = lhs->len + rhs->len; t->next = e;
  e->kind = TK_EOF; e->file = lhs->file;
  return t;
}
// find_arg(): same contract on the packed spelling (its strlen/strncmp through a symbolic Token pointer
// is what makes cbmc 6.11 crawl)
MacroArg *stub_find_arg(MacroArg *args, Token *tok) {
  for (MacroArg *ap = args; ap; ap = ap->next)
    if (tok->val == verif_spell(ap->name)) return ap;
  return NULL;
}
Token *stub_stringize(Token *hash, Token *arg) {
  Token *t = calloc(1, sizeof(Token)), *e = calloc(1, sizeof(Token));
  t->kind = TK_STR; t->file = hash->file; t->next = e;
  t->val = arg->kind == TK_EOF ? verif_spell("\"\"") : arg->val == verif_spell("p") ? verif_spell("\"p\"") : verif_spell("\"q\"");
  t->loc = "\"?\""; t->len = t->val & 15;
  e->kind = TK_EOF; e->file = hash->file;
  return t;
}
// packed-spelling helpers (see verif_spell): value = chars << 4 | len
static int64_t cat(int64_t a, int64_t b) {
  int na = a & 15, nb = b & 15;
  return ((((a >> 4) | ((b >> 4) << (8 * na)))) << 4) | (na + nb);
}
#define PLACEMARKER (-7)
static bool is_str_val(int64_t v) { return v == verif_spell("\"\"") || v == verif_spell("\"p\"") || v == verif_spell("\"q\""); }
static bool is_ident_val(int64_t v) { return v == verif_spell("a") || v == verif_spell("p") || v == verif_spell("q") || v == verif_spell("P") || v == verif_spell("Q"); }

static int64_t ref_out[MAXBODY + 1];
static int ref_n;
// returns 0 = ill-formed replacement list (diagnostic required), 1 = defined result in ref_out,
// 2 = undefined behaviour (pasting does not form a valid token): excluded
static int reference(void) {
  int n = IN.nbody;
  int64_t opnd[MAXBODY]; bool glue[MAXBODY];   // operand k, glue[k]: operand k is pasted onto operand k-1
  int m = 0;
  bool pending_paste = false;
  for (int i = 0; i < MAXBODY; i++) {
    if (i >= n) continue;
    int b = IN.body[i];
    if (b == B_PASTE) {
      if (pending_paste) return 2;                            // `## ##`: excluded
      if (i == 0 || i == n - 1) return 0;                     // ## at either end (6.10.3.3p1)
      pending_paste = true;
      continue;
    }
    int64_t v;
    if (b == B_HASH) {
      if (i + 1 >= n || (IN.body[i + 1] != B_X && IN.body[i + 1] != B_Y)) return 0;   // 6.10.3.2p1
      bool empty = IN.body[i + 1] == B_X ? IN.xempty : IN.yempty;
      v = empty ? verif_spell("\"\"") : IN.body[i + 1] == B_X ? verif_spell("\"p\"") : verif_spell("\"q\"");
      i++;
    } else if (b == B_X || b == B_Y) {
      bool empty = b == B_X ? IN.xempty : IN.yempty;
      bool next_paste = i + 1 < n && IN.body[i + 1] == B_PASTE;
      // operand of ## : placemarker when empty (6.10.3.3p2); otherwise an empty argument vanishes
      if (empty && !pending_paste && !next_paste) continue;
      // an operand of ## is NOT macro-expanded (raw p / q); any other occurrence is fully expanded first (P / Q)
      bool raw = pending_paste || next_paste;
      v = empty ? PLACEMARKER : b == B_X ? verif_spell(raw ? "p" : "P") : verif_spell(raw ? "q" : "Q");
    } else
      v = b == B_A ? verif_spell("a") : verif_spell(",");
    opnd[m] = v; glue[m] = pending_paste; m++;
    pending_paste = false;
  }
  // evaluate ## left to right (6.10.3.3p3)
  ref_n = 0;
  int64_t acc = 0; bool have = false;
  for (int k = 0; k < MAXBODY; k++) {
    if (k >= m) continue;
    if (glue[k]) {
      // an operand of ## that is itself the result of # : the order of evaluation of # and ## is
      // unspecified (C11 6.10.3.2p2) -- nothing claimed
      if (is_str_val(acc) || is_str_val(opnd[k])) return 2;
      if (acc == PLACEMARKER) acc = opnd[k];
      else if (opnd[k] != PLACEMARKER) {
        if (!is_ident_val(acc) && (acc & 15) > 1) return 2;          // string literal ## x: not a valid token
        if (!is_ident_val(acc) || !is_ident_val(opnd[k]) ) {
          // `,` or a string pasted with something: never a single valid preprocessing token here
          return 2;
        }
        acc = cat(acc, opnd[k]);
      }
    } else {
      if (have && acc != PLACEMARKER) ref_out[ref_n++] = acc;
      acc = opnd[k]; have = true;
    }
  }
  if (have && acc != PLACEMARKER) ref_out[ref_n++] = acc;
  return 1;
}

typedef struct { unsigned char n, b[MAXBODY]; } Shape;
static const Shape shape_tab[] = {
#define SHAPE_TABLE
#include "shapes.inc"
#undef SHAPE_TABLE
};
#define NSHAPES ((int)(sizeof shape_tab / sizeof shape_tab[0]))
#define BATCHSZ 16
static void run_shape(void);
static void run_batch(int j) {
  HAVOC_IN();
  __CPROVER_assume(IN.xempty <= 1 && IN.yempty <= 1);
  int k = IN.shape;
  __CPROVER_assume(k >= j * BATCHSZ && k < (j + 1) * BATCHSZ && k < NSHAPES);
  int e = IN.xempty + 2 * IN.yempty;
  for (int i = j * BATCHSZ; i < (j + 1) * BATCHSZ; i++) {
    if (i >= NSHAPES || k != i) continue;
    IN.nbody = shape_tab[i].n;                      // concrete body inside this case
    for (int t = 0; t < MAXBODY; t++) IN.body[t] = shape_tab[i].b[t];
    for (int c = 0; c < 4; c++) {                   // ... and concrete argument emptiness inside this case
      if (e != c) continue;
      IN.xempty = c & 1; IN.yempty = c >> 1;
      run_shape();
      return;
    }
  }
}
static void run_shape(void) {
  int r = reference();
  if (r == 2) { VCOVER(); return; }   // undefined behaviour (pasting does not yield one valid token): nothing claimed
  // body
  for (int i = 0; i < MAXBODY; i++) {
    if (i >= IN.nbody) continue;
    switch (IN.body[i]) {
    case B_X: mk(TK_IDENT, "x", 1, true); break;
    case B_Y: mk(TK_IDENT, "y", 1, true); break;
    case B_HASH: mk(TK_PUNCT, "#", 1, true); break;
    case B_PASTE: mk(TK_PUNCT, "##", 2, true); break;
    case B_A: mk(TK_IDENT, "a", 1, true); break;
    default: mk(TK_PUNCT, ",", 1, true); break;
    }
  }
  mk(TK_EOF, "", 0, false);
  Token *body = take_list();
  // arguments
  MacroArg ax = {.name = "x"}, ay = {.name = "y"};
  if (!IN.xempty) mk(TK_IDENT, "p", 1, false);
  mk(TK_EOF, "", 0, false);
  ax.tok = take_list();
  if (!IN.yempty) mk(TK_IDENT, "q", 1, false);
  mk(TK_EOF, "", 0, false);
  ay.tok = take_list();
  ax.next = &ay;
#ifdef NATIVE
  {  // natively the REAL preprocess2 runs on the arguments: give it what stub_preprocess2 assumes, p -> P and q -> Q
    static Macro mp, mq;
    mk(TK_IDENT, "P", 1, false); mk(TK_EOF, "", 0, false);
    mp.name = "p"; mp.is_objlike = true; mp.body = take_list();
    mk(TK_IDENT, "Q", 1, false); mk(TK_EOF, "", 0, false);
    mq.name = "q"; mq.is_objlike = true; mq.body = take_list();
    hashmap_put(&macros, "p", &mp); hashmap_put(&macros, "q", &mq);
  }
#endif
  Token *out = NULL;
  expect_no_diag = r == 1;
  // ill-formed replacement list (# without parameter, ## at an end): a constraint violation, the
  // standard prescribes no token sequence; whether it is diagnosed is not part of C09 (not claimed)
  if (r == 0) { VCOVER(); return; }
  TRY(out = subst(body, &ax));
  if (verif_diag) return;
  Token *t = out;
  for (int k = 0; k < MAXBODY + 1; k++) {
    if (k < ref_n) {
      VASSERT(t->kind != TK_EOF && t->val == ref_out[k], "replacement = C11 6.10.3.1-3 reference (spellings, in order)");
      if (t->kind == TK_EOF) return;
      t = t->next;
    }
  }
  VASSERT(t->kind == TK_EOF, "no extra token in the replacement");
  VCOVER();
}

#define BATCH_FN(j) void h_sb_##j(void) { run_batch(j); }
#include "shapes.inc"

// ================================================================ (3) termination of mutual recursion
// NOTE: this harness does not finish in cbmc 6.11 (see props/c09.py: listed as attempted / not claimed)
#ifndef TM_N
#define TM_N 3      // number of macros
#endif
#ifndef TM_L
#define TM_L 1      // maximal body length
#endif
enum { T_M0, T_M1, T_M2, T_PLAIN, T_N };
static char *mname[4] = {"M0", "M1", "M2", "t"};
static Macro mac[3];
Macro *stub_find_macro(Token *tok) {
  if (tok->kind != TK_IDENT) return NULL;
  for (int i = 0; i < TM_N; i++) if (tok->val == verif_spell(mname[i])) return &mac[i];
  return NULL;
}
#ifdef NATIVE
#define UNREACH(msg) do { VASSERT(0, msg); } while (0)
#else
#define UNREACH(msg) do { VASSERT(0, msg); __CPROVER_assume(0); } while (0)
#endif
long stub_eval_const_expr(Token **rest, Token *tok) { UNREACH("no directive in this input"); return 0; }
char *stub_read_include_filename(Token **rest, Token *tok, bool *is_dquote) { UNREACH("no directive in this input"); return 0; }
void stub_read_macro_definition(Token **rest, Token *tok) { UNREACH("no directive in this input"); }
void stub_read_line_marker(Token **rest, Token *tok) { UNREACH("no directive in this input"); }

// hideset_contains replaced by its specification (membership; proved for the real function in (1)).
// In this harness every spelling is one of the pooled strings mname[], so membership is pointer identity.
bool stub_hideset_contains(Hideset *hs, char *s, int len) {
  for (; hs; hs = hs->next) if (hs->name == s) return true;
  return false;
}
void h_terminate(void) {
  HAVOC_IN();
  __CPROVER_assume(IN.start < TM_N);
  for (int i = 0; i < TM_N; i++) {
    __CPROVER_assume(IN.mlen[i] >= 1 && IN.mlen[i] <= TM_L);
    for (int j = 0; j < TM_L; j++) {
      __CPROVER_assume(IN.mbody[i][j] < TM_N || IN.mbody[i][j] == T_PLAIN);
      if (j < IN.mlen[i]) mk(TK_IDENT, mname[IN.mbody[i][j]], IN.mbody[i][j] == T_PLAIN ? 1 : 2, true);
    }
    mk(TK_EOF, "", 0, false);
    mac[i].name = mname[i]; mac[i].is_objlike = true; mac[i].body = take_list();
  }
  mk(TK_IDENT, mname[IN.start], 2, false);
  mk(TK_EOF, "", 0, false);
  Token *in = take_list();
  expect_no_diag = 1;
  Token *out = NULL;
  TRY(out = preprocess2(in));         // termination == the unwinding assertions of this call
  if (verif_diag) return;
  // rescanning is complete: what is left is plain text or a macro name painted by its own hide set
  int n = 0;
  for (Token *t = out; n < 9 && t->kind != TK_EOF; t = t->next, n++) {
    bool is_macro = false;
    for (int i = 0; i < TM_N; i++) if (t->val == verif_spell(mname[i])) is_macro = true;
    if (is_macro) VASSERT(stub_hideset_contains(t->hideset, t->loc, t->len), "a macro name left in the output is in its own hide set");
  }
  VASSERT(n <= 8, "at most 2^3 tokens result");
  VCOVER();
}


// ================================================================ (4) hide set given to an expansion
// C11 6.10.3.4p2 as implemented by Prosser's algorithm (the comment in expand_macro): the tokens of the expansion of
// an object-like macro M get HS(M token) U {M}; those of a function-like macro get (HS(M token) ^ HS(closing paren))
// U {M}; a macro name that is in its own token's hide set is not expanded; the tokens after the invocation are
// untouched. The real expand_macro (with the real read_macro_args, subst, add_hideset, hideset_*) runs on
//        FM ( ) z        resp.        OM z
// where the hide sets of the macro token, of the `)` and of `z` are symbolic lists (<= 2 names over {A, B, FM/OM}).
static char *pool4[3] = {"A", "B", "FM"};
static Hideset *mkhs4(int n, unsigned char *e) {
  Hideset *h = NULL;
  for (int i = 1; i >= 0; i--)
    if (i < n) { Hideset *x = calloc(1, sizeof(Hideset)); x->name = pool4[e[i]]; x->next = h; h = x; }
  return h;
}
static bool in4(int k, int q) {
  bool r = false;
  for (int i = 0; i < 2; i++) if (i < IN.hn[k] && IN.he[k][i] == q) r = true;
  return r;
}
void h_expand_hideset(void) {
  HAVOC_IN();
  __CPROVER_assume(IN.objlike <= 1);
  for (int k = 0; k < 3; k++) {
    __CPROVER_assume(IN.hn[k] <= 2);
    for (int i = 0; i < 2; i++) __CPROVER_assume(IN.he[k][i] <= 2);
  }
  static Macro m;
  __CPROVER_assume(IN.pbody <= 1);
  // replacement list: `b`, or `b ## c` (## is evaluated for object-like and function-like macros alike, also when the
  // function-like macro has an empty parameter list)
  mk(TK_IDENT, "b", 1, true);
  if (IN.pbody) { mk(TK_PUNCT, "##", 2, true); mk(TK_IDENT, "c", 1, true); }
  mk(TK_EOF, "", 0, false);
  m.name = "FM"; m.is_objlike = IN.objlike; m.body = take_list();
  hashmap_put(&macros, "FM", &m);
  Token *mt = mk(TK_IDENT, "FM", 2, false), *rp = NULL;
  if (!IN.objlike) { mk(TK_PUNCT, "(", 1, false); rp = mk(TK_PUNCT, ")", 1, false); }
  Token *z = mk(TK_IDENT, "z", 1, true);
  mk(TK_EOF, "", 0, false);
  Token *in = take_list();
  mt->hideset = mkhs4(IN.hn[0], IN.he[0]);
  if (rp) rp->hideset = mkhs4(IN.hn[1], IN.he[1]);
  z->hideset = mkhs4(IN.hn[2], IN.he[2]);
  Hideset *zhs = z->hideset;
  expect_no_diag = 1;
  Token *rest = NULL;
  bool expanded = false;
  TRY(expanded = expand_macro(&rest, in));
  if (verif_diag) return;
  VASSERT(expanded == !in4(0, 2), "a macro name is expanded unless it is in the hide set of its own token");
  if (!expanded) { VCOVER(); return; }
  VASSERT(rest && rest->val == verif_spell(IN.pbody ? "bc" : "b") && rest->next == z, "the expansion is the replacement list (with ## evaluated) followed by the token after the invocation");
  for (int q = 0; q < 3; q++) {
    bool want = q == 2 || (in4(0, q) && (IN.objlike || in4(1, q)));
    VASSERT(hideset_contains(rest->hideset, pool4[q], q == 2 ? 2 : 1) == want,
            "hide set of the expansion: HS(macro token) [intersected with HS(closing paren) for a function-like macro] plus the macro's name");
  }
  VASSERT(z->hideset == zhs, "the token after the invocation keeps its hide set");
  VCOVER();
}
