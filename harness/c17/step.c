// C17: hashmap.c, inductive step.  ONE public operation (put2 / get2 / delete2) or one rehash()
// from an ARBITRARY table state that satisfies the representation invariant INV:
//   I1  buckets != NULL, capacity is a power of two, used == number of non-NULL slots
//   I2  at least one slot is NULL (what the 70% load-factor trigger maintains)
//   I3  no two live slots hold keys with equal contents
//   I4  every live entry is reachable from its home slot (hash % capacity) without crossing NULL
// Asserted: INV holds again afterwards, the abstract dictionary (key contents -> value, obtained by
// scanning ALL slots, not by probing) is updated exactly (operated key: last write wins / deleted
// means absent; an arbitrary OTHER key X, present or not: untouched), unreachable()/assert() are
// not hit.  Because the start state is arbitrary, one step covers histories of any length.
//
// Keys: every slot s owns a key object KEYS[s] with symbolic bytes and symbolic length 1..KLEN; the
// operated key is one more object KEYS[CAP], the observer key X another (KEYS[CAP+1]); contents may
// coincide arbitrarily.  The real fnv_hash runs on them, so home slots, collisions and probe
// overlap are all symbolic.  Slot kinds are given in IN (0 NULL, 1 TOMBSTONE, 2 live) and the
// bucket array is built here (IN holds no pointers, so counterexamples replay natively).
#include "common.h"
#include "assert_hook.h"

#ifndef CAP
#define CAP 4            // capacity of the start state
#endif
#ifndef KLEN
#define KLEN 2           // max key length in bytes
#endif
#define MAXCAP (2 * CAP) // largest capacity rehash may choose from CAP (asserted)
#define NKEYS (CAP + 2)
#define KROW 4            // >= KLEN
#define OPK CAP          // index of the operated key
#define XK (CAP + 1)     // index of the observer key

// calloc contract stub: fresh zeroed storage, from a fixed arena (a cbmc dynamic object of
// symbolic size sent cbmc beyond 10 GB); requests are asserted to fit.
static int verif_unreachable;
static int verif_callocs;
static void *verif_calloc(size_t n, size_t sz);
#define calloc(n, sz) verif_calloc((n), (sz))
#include "hashmap.c"
#undef calloc
static HashEntry verif_arena0[MAXCAP], verif_arena1[MAXCAP];
static void *verif_calloc(size_t n, size_t sz) {
  VASSERT(verif_callocs < 2, "harness arena: at most two bucket arrays are allocated in one step");
  VASSERT(n <= MAXCAP && sz == sizeof(HashEntry), "harness arena: requested bucket array fits MAXCAP entries");
  return verif_callocs++ == 0 ? verif_arena0 : verif_arena1;
}

// environment of hashmap.c: unreachable() expands to error(); hashmap_test() uses format()
noreturn void error(char *fmt, ...) {
  verif_unreachable = 1;
  VASSERT(0, "unreachable()/error() reached inside hashmap.c");
  verif_exit(1);
}
char *format(char *fmt, ...) { return 0; }

struct IN_t {
  unsigned char kind[CAP];          // 0 NULL, 1 TOMBSTONE, 2 live
  unsigned char kb[NKEYS][KLEN];    // key bytes: slot keys, operated key, observer key
  unsigned char kl[NKEYS];          // key lengths 1..KLEN
  unsigned char sval[CAP];          // value stored in a non-NULL slot (opaque; small ints as pointers)
  int skl[CAP];                     // stale keylen left in a tombstone slot
  unsigned char opval;              // value passed to put
  // header of the over-loaded table h_put_trigger starts from (its slots are never read)
  int used1;
} IN;
struct IN_t nondet_IN(void);

#define V(x) ((void *)(uintptr_t)(x))

// one OBJECT per key (not rows of one 2-D array): cbmc then tells keys apart by the pointer's object
// field, which is also what kidx() tests; with a single array the link between "which key" and
// "which bytes memcmp reads" went through 64-bit offset arithmetic and capacity 8 did not finish.
static char KO0[KROW], KO1[KROW], KO2[KROW], KO3[KROW], KO4[KROW], KO5[KROW], KO6[KROW], KO7[KROW], KO8[KROW],
    KO9[KROW], KO10[KROW], KO11[KROW], KO12[KROW], KO13[KROW], KO14[KROW], KO15[KROW], KO16[KROW], KO17[KROW];
static char *const KEYS[18] = { KO0, KO1, KO2, KO3, KO4, KO5, KO6, KO7, KO8, KO9, KO10, KO11, KO12, KO13, KO14,
                                KO15, KO16, KO17 };
static int KL[NKEYS];
static uint64_t HV[NKEYS];           // fnv_hash of each key object, computed once (real fnv_hash)
static bool EQ[NKEYS][NKEYS];        // content equality of key objects
static HashEntry B[CAP];
static HashMap map;

static void build(void) {
  for (int p = 0; p < NKEYS; p++) {
    __CPROVER_assume(IN.kl[p] >= 1 && IN.kl[p] <= KLEN);
    KL[p] = IN.kl[p];
    for (int i = 0; i < KLEN; i++) KEYS[p][i] = IN.kb[p][i];
    HV[p] = fnv_hash(KEYS[p], KL[p]);
  }
  for (int p = 0; p < NKEYS; p++)
    for (int q = 0; q < NKEYS; q++) {
      bool e = KL[p] == KL[q];
      for (int i = 0; i < KLEN; i++)
        if (i < KL[p] && KEYS[p][i] != KEYS[q][i]) e = false;
      EQ[p][q] = e;
#ifndef NO_LEMMA
      // lemma handed to the solver (proved by h_fnv_congruence): equal contents => equal hash
      __CPROVER_assume(!e || HV[p] == HV[q]);
#endif
    }
  int used = 0;
  for (int s = 0; s < CAP; s++) {
    int x = IN.kind[s];
    __CPROVER_assume(x <= 2);
    if (x == 0) { B[s].key = NULL; B[s].keylen = 0; B[s].val = NULL; }
    else if (x == 1) { B[s].key = TOMBSTONE; B[s].keylen = IN.skl[s]; B[s].val = V(IN.sval[s]); used++; }
    else { B[s].key = KEYS[s]; B[s].keylen = KL[s]; B[s].val = V(IN.sval[s]); used++; }
  }
  map.buckets = B;
  map.capacity = CAP;
  map.used = used;
#ifdef MAXLIVE
  { int nl = 0; for (int s = 0; s < CAP; s++) if (IN.kind[s] == 2) nl++; __CPROVER_assume(nl <= MAXLIVE); }
#endif
}

// key-object index of a slot's key pointer: -1 NULL, -2 TOMBSTONE, -3 foreign
static int kidx(char *key) {
  if (key == NULL) return -1;
  if (key == TOMBSTONE) return -2;
  for (int p = 0; p < NKEYS; p++)
    if (key == KEYS[p]) return p;
  return -3;
}

// Representation invariant of *m.  Returns true iff it holds.
static bool inv(HashMap *m) {
  if (!m->buckets) return false;
  int cap = m->capacity;
  if (cap < 1 || cap > MAXCAP || (cap & (cap - 1))) return false;
  int idx[MAXCAP]; int home[MAXCAP];
  int nonnull = 0, nulls = 0;
  bool ok = true;
  for (int s = 0; s < MAXCAP; s++) {
    if (s >= cap) break;
    int x = kidx(m->buckets[s].key);
    idx[s] = x;
    if (x == -3) ok = false;
    if (x == -1) nulls++; else nonnull++;
    if (x >= 0) {
      if (m->buckets[s].keylen != KL[x]) ok = false;
      home[s] = (int)(HV[x] & (uint64_t)(cap - 1));  // == HV[x] % cap for a power of two (checked above)
    } else home[s] = 0;
  }
  if (m->used != nonnull) ok = false;     // I1
  if (nulls < 1) ok = false;              // I2
  for (int s = 0; s < MAXCAP; s++) {
    if (s >= cap) break;
    if (idx[s] < 0) continue;
    for (int t = 0; t < MAXCAP; t++) {
      if (t >= cap) break;
      if (t == s) continue;
      if (t > s && idx[t] >= 0 && EQ[idx[s]][idx[t]]) ok = false;           // I3
      // I4: a NULL slot t must not lie in the cyclic interval [home(s), s)
      if (idx[t] == -1 && ((t - home[s]) & (cap - 1)) < ((s - home[s]) & (cap - 1))) ok = false;
    }
  }
  return ok;
}

// Abstract dictionary, observed at key object q: is a key with q's contents live anywhere in the
// table, and with which value (scan of all slots; with I3 the entry is unique).
typedef struct { bool present; void *val; } Abs;
static Abs abs_at(HashMap *m, int q) {
  Abs a = { false, NULL };
  for (int s = 0; s < MAXCAP; s++) {
    if (s >= m->capacity) break;
    int x = kidx(m->buckets[s].key);
    if (x >= 0 && EQ[x][q]) { a.present = true; a.val = m->buckets[s].val; }
  }
  return a;
}
static int count_kind(HashMap *m, int kind) {   // kind: -1 NULL, -2 TOMBSTONE, 0 live
  int n = 0;
  for (int s = 0; s < MAXCAP; s++) {
    if (s >= m->capacity) break;
    int x = kidx(m->buckets[s].key);
    if (kind == 0 ? x >= 0 : x == kind) n++;
  }
  return n;
}

static void observer_untouched(Abs x0, Abs x1) {
  if (EQ[OPK][XK]) return;
  VASSERT(x1.present == x0.present, "a key other than the operated one changed presence");
  VASSERT(!x0.present || x1.val == x0.val, "a key other than the operated one changed value");
}

// ---- memcmp contract stub (cbmc only: --replace-calls memcmp:stub_memcmp_keys) ------------------
// hashmap.c calls memcmp only from match(), on two key objects and with n equal to both lengths.
// Those preconditions are ASSERTED here; under them memcmp's contract is "0 iff the first n bytes
// are equal", which is the definition of EQ[][] (h_memcmp_contract proves EQ[][] against cbmc's own
// memcmp model on the same objects).  Needed because with the byte-level memcmp on a symbolically
// selected key pointer the capacity-8 proofs did not finish (>250 s vs 3.5 s).  Native replay runs
// the real memcmp.
#ifdef NATIVE
static int nondet_int(void) { return 1; }   // stubs are not used natively
#else
int nondet_int(void);
#endif
int stub_memcmp_keys(const void *a, const void *b, size_t n) {
  int x = kidx((char *)a), y = kidx((char *)b);
  VASSERT(x >= 0 && y >= 0, "memcmp stub: both arguments are key objects");
  VASSERT(x < 0 || y < 0 || (n == (size_t)KL[x] && n == (size_t)KL[y]), "memcmp stub: n equals both key lengths");
  __CPROVER_assume(x >= 0 && y >= 0);
  if (EQ[x][y]) return 0;
  int r = nondet_int();
  __CPROVER_assume(r != 0);
  return r;
}
void h_memcmp_contract(void) {
  HAVOC_IN();
  build();
  for (int p = 0; p < NKEYS; p++)
    for (int q = 0; q < NKEYS; q++)
      if (KL[p] == KL[q])
        VASSERT((memcmp(KEYS[p], KEYS[q], KL[p]) == 0) == EQ[p][q], "EQ[p][q] is exactly memcmp(p,q,len)==0 for equal lengths");
      else
        VASSERT(!EQ[p][q], "keys of different length are different keys");
  VCOVER();
}

// ---- rehash stubs (selected per harness with goto-instrument --replace-calls) ----------------
void stub_rehash_never(HashMap *m) {
  VASSERT(0, "rehash() called although the table is below the 70% load trigger");
  __CPROVER_assume(0);
}

// Contract of rehash() as established by h_rehash_modular (+ h_put for each insertion) and, in the
// thorough tier, by h_rehash_real on the real code: afterwards the map is SOME valid tombstone-free
// table with load < 50% (holding the same dictionary).  h_put_trigger checks what
// get_or_insert_entry does around that call: the map it starts from only has to be at/above the
// trigger (`used` is overwritten with any value at/above 70%); the stub asserts it is called once, on the operated map, at
// >= 70% load, and swaps in an ARBITRARY table satisfying the contract (built by build() like any
// other start state); the insertion that follows is then checked against THAT table's dictionary.
// Dictionary(after put at trigger) = Dictionary(rehashed) + {key} = Dictionary(before) + {key}.
static int stub_rehash_calls;
static int stub_rehash_load;
static HashMap rehashed;
void stub_rehash_contract(HashMap *m) {
  VASSERT(m == &map, "rehash applied to the operated map");
  stub_rehash_calls++;
  stub_rehash_load = (m->used * 100) / m->capacity;
  *m = rehashed;
}

// fnv_hash is a function of (bytes, length): the lemma assumed in build()
void h_fnv_congruence(void) {
  HAVOC_IN();
  char a[KROW], b[KROW];
  __CPROVER_assume(IN.kl[0] >= 1 && IN.kl[0] <= KLEN);
  for (int i = 0; i < KLEN; i++) { a[i] = IN.kb[0][i]; b[i] = i < IN.kl[0] ? IN.kb[0][i] : IN.kb[1][i]; }
  VASSERT(fnv_hash(a, IN.kl[0]) == fnv_hash(b, IN.kl[0]), "fnv_hash depends only on the first len bytes");
  VCOVER();
}

// ---- put ------------------------------------------------------------------------------------
// h_put: states below the trigger (cbmc: rehash -> stub_rehash_never, so "no rehash below 70%" is
// itself asserted).  h_put_trigger: states at/above the trigger (cbmc: rehash -> contract stub).
// h_put_real: any state, everything real (thorough tier).
static void put_common(int mode) {
  HAVOC_IN();
  build();
  __CPROVER_assume(inv(&map));
  int load0 = (map.used * 100) / map.capacity;
  if (mode == 0) __CPROVER_assume(load0 < HIGH_WATERMARK);
  Abs k0 = abs_at(&map, OPK), x0 = abs_at(&map, XK);
  int live0 = count_kind(&map, 0), tombs0 = count_kind(&map, -2);
  if (mode == 1) {
    __CPROVER_assume(tombs0 == 0 && load0 < LOW_WATERMARK);    // rehash contract
    rehashed = map;
    // over-loaded header: same capacity, `used` anywhere at/above the trigger (slots are not read
    // before rehash is called; keeping buckets/capacity syntactically equal keeps cbmc's merge of
    // the two branches of the trigger test cheap)
    __CPROVER_assume(IN.used1 >= 0 && IN.used1 < CAP && (IN.used1 * 100) / CAP >= HIGH_WATERMARK);
    map.used = IN.used1;
  }

  hashmap_put2(&map, KEYS[OPK], KL[OPK], V(IN.opval));

  VASSERT(!verif_unreachable, "unreachable() not reached");
  VASSERT(inv(&map), "representation invariant preserved by hashmap_put2 (no duplicate key, all reachable, used, a NULL slot)");
  Abs k1 = abs_at(&map, OPK), x1 = abs_at(&map, XK);
  VASSERT(k1.present && k1.val == V(IN.opval), "put: key present afterwards, last write wins");
  observer_untouched(x0, x1);
  VASSERT(count_kind(&map, 0) == live0 + (k0.present ? 0 : 1), "put: number of live keys grows by one exactly for a new key");
  VASSERT(count_kind(&map, -2) <= tombs0, "put: creates no tombstone");
  if (mode == 1) {
    VASSERT(stub_rehash_calls == 1 && stub_rehash_load >= 70, "rehash called exactly once, at >=70% load");
    VASSERT(map.buckets == B && map.capacity == CAP, "after the rebuild the insertion does not rebuild again");
  } else if (load0 < 70) {
    VASSERT(map.buckets == B && map.capacity == CAP, "put below 70% load does not rebuild the table");
  } else {
    VASSERT(map.buckets != B, "put at >=70% load rebuilds the table");
    VASSERT(count_kind(&map, -2) == 0, "rebuilt table has no tombstones");
  }
  VASSERT(hashmap_get2(&map, KEYS[OPK], KL[OPK]) == V(IN.opval), "get2 after put2 returns the value put");
  VCOVER();
}
void h_put(void) { put_common(0); }
void h_put_trigger(void) { put_common(1); }
void h_put_real(void) { put_common(2); }

// ---- get ------------------------------------------------------------------------------------
void h_get(void) {
  HAVOC_IN();
  build();
  __CPROVER_assume(inv(&map));
  Abs k0 = abs_at(&map, OPK);
  HashEntry B0[CAP];
  for (int s = 0; s < CAP; s++) B0[s] = B[s];
  int used0 = map.used;

  void *r = hashmap_get2(&map, KEYS[OPK], KL[OPK]);

  VASSERT(!verif_unreachable, "unreachable() not reached");
  // (stated per slot: "the value of SOME live entry with these contents"; with I3 that entry is the
  // only one, and this form does not make the solver re-derive uniqueness)
  bool any = false, hit = false;
  for (int s = 0; s < CAP; s++)
    if (IN.kind[s] == 2 && EQ[s][OPK]) { any = true; if (r == B0[s].val) hit = true; }
  VASSERT(any == k0.present, "harness: scan agrees with abs_at");
  VASSERT(any ? hit : r == NULL, "get2 returns the stored value, or NULL for an absent key");
  VASSERT(map.buckets == B && map.capacity == CAP && map.used == used0, "get2 does not modify the map header");
  for (int s = 0; s < CAP; s++)
    VASSERT(B[s].key == B0[s].key && B[s].keylen == B0[s].keylen && B[s].val == B0[s].val, "get2 does not modify any slot");
  VCOVER();
}

// ---- delete ---------------------------------------------------------------------------------
void h_delete(void) {
  HAVOC_IN();
  build();
  __CPROVER_assume(inv(&map));
  Abs k0 = abs_at(&map, OPK), x0 = abs_at(&map, XK);
  int live0 = count_kind(&map, 0);

  hashmap_delete2(&map, KEYS[OPK], KL[OPK]);

  VASSERT(!verif_unreachable, "unreachable() not reached");
  VASSERT(map.buckets == B && map.capacity == CAP, "delete2 does not rebuild the table");
  VASSERT(inv(&map), "representation invariant preserved by hashmap_delete2");
  Abs k1 = abs_at(&map, OPK), x1 = abs_at(&map, XK);
  VASSERT(!k1.present, "delete: key absent afterwards");
  observer_untouched(x0, x1);
  VASSERT(count_kind(&map, 0) == live0 - (k0.present ? 1 : 0), "delete: exactly the deleted key disappears");
  VASSERT(hashmap_get2(&map, KEYS[OPK], KL[OPK]) == NULL, "get2 after delete2 returns NULL");
  VCOVER();
}

// ---- rehash, everything real ------------------------------------------------------------------
// rehash() from ANY valid state (whatever the load): dictionary preserved, tombstones gone,
// used == number of keys, load under 50%, and it never nests (cbmc: --unwindset rehash:0 makes a
// nested call an unwinding-assertion failure).
void h_rehash_real(void) {
  HAVOC_IN();
  build();
  __CPROVER_assume(inv(&map));
#ifdef MAXLIVE
  __CPROVER_assume(count_kind(&map, 0) <= MAXLIVE);
#endif
  Abs x0 = abs_at(&map, XK);
  int live0 = count_kind(&map, 0);

  rehash(&map);

  VASSERT(!verif_unreachable, "unreachable() not reached");
  VASSERT(!verif_assert_failed, "no assert() failed");
  VASSERT(map.buckets != B, "rehash builds a new bucket array");
  VASSERT(inv(&map), "representation invariant holds after rehash");
  Abs x1 = abs_at(&map, XK);
  VASSERT(x1.present == x0.present, "rehash preserves the key set");
  VASSERT(!x0.present || x1.val == x0.val, "rehash preserves values");
  VASSERT(count_kind(&map, -2) == 0, "rehash removes all tombstones");
  VASSERT(count_kind(&map, 0) == live0 && map.used == live0, "used == number of keys after rehash");
  VASSERT(map.capacity >= CAP, "rehash never shrinks");
  VASSERT((map.used * 100) / map.capacity < LOW_WATERMARK, "load under 50% after rehash");
  VCOVER();
}

// ---- rehash, modular: the real rehash() against the CONTRACT of hashmap_put2 -----------------
// cbmc: hashmap_put2 -> stub_put_contract.  The stub logs each call and performs what h_put proves
// about a put of a NEW key into a valid table below the trigger: used grows by one.  Asserted: the
// target is a fresh zeroed power-of-two table no smaller than the old one; every insertion happens
// below the 70% trigger (so the real put2 would not nest a rehash, and h_put applies to it); the
// inserted (key,len,val) triples are exactly the live entries of the old table, each once; the
// asserts inside rehash hold; *map becomes the new table.  With h_put (inductive step: each such
// insertion keeps INV, adds exactly that key, creates no tombstone) this yields the contract used
// by stub_rehash_contract.
static int plog_n;
static HashMap *plog_map;
static char *plog_key[CAP]; static int plog_len[CAP]; static void *plog_val[CAP];
void stub_put_contract(HashMap *m, char *key, int keylen, void *val) {
  if (plog_n == 0) {
    plog_map = m;
    VASSERT(m != &map && m->buckets != NULL && m->buckets != B, "rehash fills a new table");
    VASSERT(m->used == 0, "new table starts with used == 0");
    VASSERT(m->capacity >= CAP && m->capacity <= MAXCAP && !(m->capacity & (m->capacity - 1)), "new capacity is a power of two, not smaller than the old one");
    for (int t = 0; t < MAXCAP; t++)
      if (t < m->capacity) VASSERT(m->buckets[t].key == NULL, "new table starts all-NULL");
  }
  VASSERT(m == plog_map, "all insertions go to the same new table");
  VASSERT((m->used * 100) / m->capacity < HIGH_WATERMARK, "insertion during rehash happens below the 70% trigger (no nested rehash)");
  VASSERT(plog_n < CAP, "no more insertions than slots");
  if (plog_n < CAP) { plog_key[plog_n] = key; plog_len[plog_n] = keylen; plog_val[plog_n] = val; }
  plog_n++;
  m->used++;
}

void h_rehash_modular(void) {
  HAVOC_IN();
  build();
  __CPROVER_assume(inv(&map));
  int live0 = count_kind(&map, 0);

  rehash(&map);

  VASSERT(!verif_unreachable, "unreachable() not reached");
  VASSERT(!verif_assert_failed, "no assert() inside rehash failed");
  VASSERT(plog_n == live0, "rehash re-inserts as many entries as there were live keys");
  // live slots are visited in slot order: the j-th logged insertion is the j-th live slot
  int j = 0;
  for (int s = 0; s < CAP; s++) {
    if (IN.kind[s] != 2) continue;
    if (j < CAP) VASSERT(plog_key[j] == KEYS[s] && plog_len[j] == KL[s] && plog_val[j] == V(IN.sval[s]), "rehash re-inserts exactly the live entries (key, length, value)");
    j++;
  }
  VASSERT(map.buckets == verif_arena0 && map.used == live0, "map now is the new table, used == number of keys");
  VASSERT(map.capacity >= CAP && map.capacity <= MAXCAP && !(map.capacity & (map.capacity - 1)), "capacity is a power of two, not smaller");
  VASSERT((live0 * 100) / map.capacity < LOW_WATERMARK, "load under 50% after rehash");
  VASSERT(map.capacity == CAP || (live0 * 100) / (map.capacity / 2) >= LOW_WATERMARK, "capacity is the smallest doubling with load under 50%");
  VCOVER();
}
