// C17: hashmap.c, inductive step.  ONE public operation (put2 / get2 / delete2) or one rehash()
// from an ARBITRARY table state that satisfies the representation invariant INV:
//   I1  buckets != NULL, capacity is a power of two, used == number of non-NULL slots
//   I2  at least one slot is NULL (what the 70% load-factor trigger maintains)
//   I3  no two live slots hold keys with equal contents
//   I4  every live entry is reachable from its home slot (hash % capacity) without crossing NULL
// Asserted: INV holds again afterwards, the abstract dictionary (key contents -> value, obtained by
// scanning ALL slots, not by probing) is updated exactly, unreachable()/assert() are not hit.
// Because the start state is arbitrary, one step covers histories of any length.
//
// Keys come from a pool of NPOOL key objects with symbolic bytes and symbolic length 0..KLEN; the
// real fnv_hash runs on them, so home slots, collisions and probe overlap are all symbolic.  Slot
// contents are given in IN as pool indices (-1 NULL, -2 TOMBSTONE) and the bucket array is built
// here.  The operation key is pool key 0 (the pool is symmetric: every key has symbolic contents,
// any slot may hold any pool key, another pool key may have the same contents as key 0, and
// hashmap.c never compares key addresses except against NULL/TOMBSTONE).
#include "common.h"
#include "assert_hook.h"

#ifndef CAP
#define CAP 4          // capacity of the start state
#endif
#ifndef NPOOL
#define NPOOL 3        // key objects
#endif
#ifndef KLEN
#define KLEN 2         // max key length in bytes
#endif
#define MAXCAP (2 * CAP) // largest capacity rehash may choose here (asserted); post-state loops unwind to it

// calloc contract stub: fresh zeroed storage.  A fixed-size static arena instead of a cbmc dynamic
// object of symbolic size (which sent cbmc to >10 GB); requests are asserted to fit.
static int verif_unreachable;
static int verif_callocs;
static void *verif_calloc(size_t n, size_t sz);
#define calloc(n, sz) verif_calloc((n), (sz))
#include "hashmap.c"
#undef calloc
static HashEntry verif_arena[2][MAXCAP];
static void *verif_calloc(size_t n, size_t sz) {
  VASSERT(verif_callocs < 2, "harness arena: at most two bucket arrays are allocated in one step");
  VASSERT(n <= MAXCAP && sz == sizeof(HashEntry), "harness arena: requested bucket array fits MAXCAP entries");
  return verif_arena[verif_callocs++];
}

// environment of hashmap.c: unreachable() expands to error(); hashmap_test() uses format()
noreturn void error(char *fmt, ...) {
  verif_unreachable = 1;
  VASSERT(0, "unreachable()/error() reached inside hashmap.c");
  verif_exit(1);
}
char *format(char *fmt, ...) { return 0; }

struct IN_t {
  unsigned char kb[NPOOL][KLEN];   // key bytes
  unsigned char klen[NPOOL];       // key lengths 0..KLEN
  signed char slot[CAP];           // -1 NULL, -2 TOMBSTONE, p>=0 pool key p
  uint32_t sval[CAP];              // value stored in a non-NULL slot
  int skl[CAP];                    // stale keylen left in a tombstone slot
  uint32_t opval;                  // value passed to put
} IN;
struct IN_t nondet_IN(void);

#define V(x) ((void *)(uintptr_t)(x))

static char K[NPOOL][KLEN + 1];
static int KL[NPOOL];
static uint64_t HV[NPOOL];         // fnv_hash of each pool key, computed once
static bool EQ[NPOOL][NPOOL];      // content equality of pool keys
static HashEntry B[CAP];
static HashMap map;

static void build(void) {
  for (int p = 0; p < NPOOL; p++) {
    __CPROVER_assume(IN.klen[p] <= KLEN);
    KL[p] = IN.klen[p];
    for (int i = 0; i < KLEN; i++) K[p][i] = IN.kb[p][i];
    HV[p] = fnv_hash(K[p], KL[p]);
  }
  for (int p = 0; p < NPOOL; p++)
    for (int q = 0; q < NPOOL; q++) {
      bool e = KL[p] == KL[q];
      for (int i = 0; i < KLEN; i++)
        if (i < KL[p] && K[p][i] != K[q][i]) e = false;
      EQ[p][q] = e;
    }
  int used = 0;
  for (int s = 0; s < CAP; s++) {
    int x = IN.slot[s];
    __CPROVER_assume(x >= -2 && x < NPOOL);
    if (x == -1) { B[s].key = NULL; B[s].keylen = 0; B[s].val = NULL; }
    else if (x == -2) { B[s].key = TOMBSTONE; B[s].keylen = IN.skl[s]; B[s].val = V(IN.sval[s]); used++; }
    else { B[s].key = K[x]; B[s].keylen = KL[x]; B[s].val = V(IN.sval[s]); used++; }
  }
  map.buckets = B;
  map.capacity = CAP;
  map.used = used;
}

// pool index of a slot's key pointer: -1 NULL, -2 TOMBSTONE, -3 foreign
static int kidx(char *key) {
  if (key == NULL) return -1;
  if (key == TOMBSTONE) return -2;
  for (int p = 0; p < NPOOL; p++)
    if (key == K[p]) return p;
  return -3;
}

// Representation invariant of *m.  Returns true iff it holds.
static bool inv(HashMap *m) {
  if (!m->buckets) return false;
  int cap = m->capacity;
  if (cap < 1 || cap > MAXCAP || (cap & (cap - 1))) return false;
  int idx[MAXCAP]; int home[MAXCAP];
  int nonnull = 0, nulls = 0;
  bool ok = true;
  for (int s = 0; s < MAXCAP; s++) {
    if (s >= cap) break;
    int x = kidx(m->buckets[s].key);
    idx[s] = x;
    if (x == -3) ok = false;
    if (x == -1) nulls++; else nonnull++;
    if (x >= 0) {
      if (m->buckets[s].keylen != KL[x]) ok = false;
      home[s] = (int)(HV[x] % (uint64_t)cap);
    } else home[s] = 0;
  }
  if (m->used != nonnull) ok = false;     // I1
  if (nulls < 1) ok = false;              // I2
  for (int s = 0; s < MAXCAP; s++) {
    if (s >= cap) break;
    if (idx[s] < 0) continue;
    for (int t = 0; t < MAXCAP; t++) {
      if (t >= cap) break;
      if (t == s) continue;
      if (t > s && idx[t] >= 0 && EQ[idx[s]][idx[t]]) ok = false;           // I3
      // I4: a NULL slot t must not lie in the cyclic interval [home(s), s)
      if (idx[t] == -1 && ((t - home[s]) & (cap - 1)) < ((s - home[s]) & (cap - 1))) ok = false;
    }
  }
  return ok;
}

// Abstract dictionary: for each pool key p, is a key with p's contents live anywhere in the table,
// and with which value (scan of all slots; with I3 the entry is unique).
typedef struct { bool present[NPOOL]; void *val[NPOOL]; int live; int tombs; } Dict;
static Dict abs_dict(HashMap *m) {
  Dict d; d.live = 0; d.tombs = 0;
  for (int p = 0; p < NPOOL; p++) { d.present[p] = false; d.val[p] = NULL; }
  for (int s = 0; s < MAXCAP; s++) {
    if (s >= m->capacity) break;
    int x = kidx(m->buckets[s].key);
    if (x == -2) d.tombs++;
    if (x < 0) continue;
    d.live++;
    for (int p = 0; p < NPOOL; p++)
      if (EQ[x][p]) { d.present[p] = true; d.val[p] = m->buckets[s].val; }
  }
  return d;
}

static void others_untouched(Dict *d0, Dict *d1) {
  for (int p = 1; p < NPOOL; p++) {
    if (EQ[0][p]) continue;
    VASSERT(d1->present[p] == d0->present[p], "a key other than the operated one changed presence");
    VASSERT(!d0->present[p] || d1->val[p] == d0->val[p], "a key other than the operated one changed value");
  }
}

// ---- put ------------------------------------------------------------------------------------
void h_put(void) {
  HAVOC_IN();
  build();
  __CPROVER_assume(inv(&map));
#ifdef NO_REHASH   // cheaper variant: only states below the load-factor trigger
  __CPROVER_assume((map.used * 100) / map.capacity < HIGH_WATERMARK);
#endif
  Dict d0 = abs_dict(&map);
  int used0 = map.used;

  hashmap_put2(&map, K[0], KL[0], V(IN.opval));

  VASSERT(!verif_unreachable, "unreachable() not reached");
  VASSERT(inv(&map), "representation invariant preserved by hashmap_put2 (no duplicate key, reachable, used, a NULL slot)");
  Dict d1 = abs_dict(&map);
  for (int p = 0; p < NPOOL; p++)
    if (EQ[0][p]) {
      VASSERT(d1.present[p], "put: key present afterwards");
      VASSERT(d1.val[p] == V(IN.opval), "put: last write wins");
    }
  others_untouched(&d0, &d1);
  VASSERT(d1.live == d0.live + (d0.present[0] ? 0 : 1), "put: number of live keys grows by one only for a new key");
  // load-factor trigger, observed on the result: below 70% the table is not rebuilt; at or above
  // 70% it is rebuilt (no tombstones left, load back under 50% + the new key)
  if ((used0 * 100) / CAP < 70) {
    VASSERT(map.buckets == B && map.capacity == CAP, "put below 70% load does not rebuild the table");
  } else {
    VASSERT(map.buckets != B, "put at >=70% load rebuilds the table");
    VASSERT(d1.tombs == 0, "rebuilt table has no tombstones");
    VASSERT(((map.used - 1) * 100) / map.capacity < LOW_WATERMARK || d0.present[0], "rebuilt table is under 50% load before the insertion");
  }
  // public view: get2 returns the value
  VASSERT(hashmap_get2(&map, K[0], KL[0]) == V(IN.opval), "get2 after put2 returns the value put");
  VCOVER();
}

// ---- get ------------------------------------------------------------------------------------
void h_get(void) {
  HAVOC_IN();
  build();
  __CPROVER_assume(inv(&map));
  Dict d0 = abs_dict(&map);
  HashEntry B0[CAP];
  for (int s = 0; s < CAP; s++) B0[s] = B[s];
  int used0 = map.used;

  void *r = hashmap_get2(&map, K[0], KL[0]);

  VASSERT(!verif_unreachable, "unreachable() not reached");
  VASSERT(r == (d0.present[0] ? d0.val[0] : NULL), "get2 returns the stored value, or NULL for an absent key");
  VASSERT(map.buckets == B && map.capacity == CAP && map.used == used0, "get2 does not modify the map header");
  for (int s = 0; s < CAP; s++)
    VASSERT(B[s].key == B0[s].key && B[s].keylen == B0[s].keylen && B[s].val == B0[s].val, "get2 does not modify any slot");
  VCOVER();
}

// ---- delete ---------------------------------------------------------------------------------
void h_delete(void) {
  HAVOC_IN();
  build();
  __CPROVER_assume(inv(&map));
  Dict d0 = abs_dict(&map);

  hashmap_delete2(&map, K[0], KL[0]);

  VASSERT(!verif_unreachable, "unreachable() not reached");
  VASSERT(map.buckets == B && map.capacity == CAP, "delete2 does not rebuild the table");
  VASSERT(inv(&map), "representation invariant preserved by hashmap_delete2");
  Dict d1 = abs_dict(&map);
  for (int p = 0; p < NPOOL; p++)
    if (EQ[0][p]) VASSERT(!d1.present[p], "delete: key absent afterwards");
  others_untouched(&d0, &d1);
  VASSERT(d1.live == d0.live - (d0.present[0] ? 1 : 0), "delete: exactly the deleted key disappears");
  VASSERT(hashmap_get2(&map, K[0], KL[0]) == NULL, "get2 after delete2 returns NULL");
  VCOVER();
}

// ---- rehash ---------------------------------------------------------------------------------
// rehash() from ANY valid state (whatever the load): dictionary preserved, tombstones gone,
// used == number of keys, load under 50%, and it never nests (cbmc: --unwindset rehash:0 makes a
// nested call an unwinding-assertion failure; also implied by load < 50% at the end since `used`
// only grows while the new table is filled).
void h_rehash(void) {
  HAVOC_IN();
  build();
  __CPROVER_assume(inv(&map));
  Dict d0 = abs_dict(&map);

  rehash(&map);

  VASSERT(!verif_unreachable, "unreachable() not reached");
  VASSERT(!verif_assert_failed, "no assert() failed");
  VASSERT(map.buckets != B, "rehash builds a new bucket array");
  VASSERT(inv(&map), "representation invariant holds after rehash");
  Dict d1 = abs_dict(&map);
  for (int p = 0; p < NPOOL; p++) {
    VASSERT(d1.present[p] == d0.present[p], "rehash preserves the key set");
    VASSERT(!d0.present[p] || d1.val[p] == d0.val[p], "rehash preserves values");
  }
  VASSERT(d1.tombs == 0, "rehash removes all tombstones");
  VASSERT(d1.live == d0.live && map.used == d0.live, "used == number of keys after rehash");
  VASSERT(map.capacity >= CAP, "rehash never shrinks");
  VASSERT((map.used * 100) / map.capacity < LOW_WATERMARK, "load under 50% after rehash");
  VCOVER();
}
