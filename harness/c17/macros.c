// C17, macro table as a client of the dictionary: after ANY history of <= 4 operations over
//   { #define A b1, #define A b2 (function-like), #undef A, builtin A (a dynamic macro such as __COUNTER__),
//     -D style define_macro(A), #define B b3, #undef B }
// issued through the REAL add_macro / define_macro / undef_macro / add_builtin of preprocess.c, the REAL find_macro
// reports a name as defined exactly when its most recent operation was a definition, and then with THAT definition's
// replacement list, kind (object-/function-like) and handler (a redefinition of a builtin is an ordinary macro).
// The hash table itself is replaced by its specification (pp_env: association list; the real hashmap.c is decided
// by the step/* obligations of this property).
#define VERIF_PACKED_SPELLING 1
static int expect_no_diag = 1;
#define VERIF_ON_EXIT(code) VASSERT(!expect_no_diag, "no diagnostic from a macro-table operation")
#include "common.h"
#include "pp_env.h"
#include "preprocess.c"
#include "pp_env_impl.h"

#define NOPS 4
struct IN_t { unsigned char op[NOPS], n; } IN;
struct IN_t nondet_IN(void);

static Token body1 = {.kind = TK_EOF}, body2 = {.kind = TK_EOF}, body3 = {.kind = TK_EOF};
static Token *handler_stub(Token *t) { return t; }

typedef struct { bool defined; Token *body; bool objlike; bool builtin; bool from_text; } Want;

void h_macro_history(void) {
  HAVOC_IN();
  __CPROVER_assume(IN.n <= NOPS);
  Want a = {0}, b = {0};
  for (int i = 0; i < NOPS; i++) {
    __CPROVER_assume(IN.op[i] < 7);
    if (i >= IN.n) continue;
    switch (IN.op[i]) {
    case 0: add_macro("A", true, &body1); a = (Want){true, &body1, true, false, false}; break;
    case 1: add_macro("A", false, &body2); a = (Want){true, &body2, false, false, false}; break;
    case 2: undef_macro("A"); a = (Want){0}; break;
    case 3: add_builtin("A", handler_stub); a = (Want){true, NULL, true, true, false}; break;
    case 4: define_macro("A", "7"); a = (Want){true, NULL, true, false, true}; break;
    case 5: add_macro("B", true, &body3); b = (Want){true, &body3, true, false, false}; break;
    default: undef_macro("B"); b = (Want){0}; break;
    }
  }
  static Token ta = {.kind = TK_IDENT, .loc = "A", .len = 1}, tb = {.kind = TK_IDENT, .loc = "B", .len = 1};
  Macro *ma = find_macro(&ta), *mb = find_macro(&tb);
  VASSERT((ma != NULL) == a.defined, "A is defined exactly when its most recent operation was a definition");
  VASSERT((mb != NULL) == b.defined, "B is defined exactly when its most recent operation was a definition");
  if (ma && a.defined) {
    VASSERT(ma->is_objlike == a.objlike, "A has the kind (object-like / function-like) of its latest definition");
    VASSERT((ma->handler != NULL) == a.builtin, "A is a dynamic builtin exactly when its latest definition was one (a redefinition does not keep the handler)");
    if (a.from_text) VASSERT(ma->body != NULL && ma->body != &body1 && ma->body != &body2, "A has the replacement list of its latest definition (tokenized text)");
    else if (!a.builtin) VASSERT(ma->body == a.body, "A has the replacement list of its latest definition");
  }
  if (mb && b.defined) VASSERT(mb->body == &body3 && mb->handler == NULL, "B has its own replacement list");
  VCOVER();
}
