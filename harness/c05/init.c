// C05 (firm part): initializers.  The REAL write_gvar_data() (static storage: byte image) and the
// REAL create_lvar_init() (automatic storage: assignment chain) run on a symbolic Initializer tree
// over a fixed family of types.  The types are laid out by the REAL struct_decl()/union_decl()
// (token parsing cut as in c08/layout.c) and the tree is allocated by the REAL new_initializer().
// Symbolic: for every scalar leaf the literal's type (int/long) and ANY value of it.  Which leaves are
// present (expr != NULL) is a compile-time-constant pattern inside each sub-problem -- a symbolic
// NULL-or-node pointer makes cbmc explore every case of add_type()/eval2() on an "invalid object" --
// and the patterns are covered by a constant loop inside the same cbmc query (-DPATSET): 0 = every
// subset of the 7-leaf bit-field struct; 1 = none, all, each leaf alone, each leaf missing, two
// alternating patterns and every subset of the four bit-field leaves; 2 = the first six kinds only;
// 3 = none, all, each leaf missing, alternating; 4 = none, all, alternating.
// For the union every choice of initialised member (or none) is combined with every pattern.
// Decided:  static image == reference image (absent => zero, present => value truncated into the
//           member's bytes / bits at the psABI position), no relocation is produced;
//           the automatic assignment chain, applied to a zeroed object with C assignment semantics,
//           yields the same image and contains exactly one assignment per present leaf.
#include "common.h"

#define SUD_CAT_(n) SUD_##n
#define SUD_CAT(n) SUD_CAT_(n)
#define SUD_0 real_struct_union_decl
#define SUD_1 stub_struct_union_decl
#define SUD_2 stub_struct_union_decl
#define struct_union_decl(a, b) SUD_CAT(__COUNTER__)(a, b)
typedef struct Type Type_fwd;
typedef struct Token Token_fwd;
static Type_fwd *stub_struct_union_decl(Token_fwd **rest, Token_fwd *tok);
#include "parse.c"
#undef struct_union_decl
#include "penv.h"

#ifndef PATSET
#define PATSET 1
#endif
#ifndef SHAPE
#define SHAPE 1   // 1: struct with bit-fields  2: nested struct  3: array of struct  4: union
#endif

// ---- type descriptions (what struct_members() would leave behind)
typedef struct { Type *ty; int bf_width; } MSpec;     // bf_width 0: not a bit-field
static MSpec *cur_spec; static int cur_n;
static Token name_tok;
static Type *stub_struct_union_decl(Token **rest, Token *tok) {
  Type *ty = struct_type();
  Member head = {0};
  Member *cur = &head;
  for (int i = 0; i < cur_n; i++) {
    Member *mem = calloc(1, sizeof(Member));
    mem->ty = cur_spec[i].ty;
    mem->name = &name_tok;
    mem->idx = i;
    mem->align = mem->ty->align;
    if (cur_spec[i].bf_width) { mem->is_bitfield = true; mem->bit_width = cur_spec[i].bf_width; }
    cur = cur->next = mem;
  }
  ty->members = head.next;
  *rest = tok;
  return ty;
}
static Type *mk_struct(MSpec *spec, int n, bool is_union) {
  Token t0 = {0}; Token *rest;
  cur_spec = spec; cur_n = n;
  return is_union ? union_decl(&rest, &t0) : struct_decl(&rest, &t0);
}

// struct S1 { int a:3; int b:5; unsigned c:7; int d; char e; short f; long g:40; };
//   psABI: a bits 0-2, b bits 3-7, c bits 8-14 (unit at 0); d at 4; e at 8; f at 10; g: 40 bits at byte 16; size 24
#define S1_LEAVES 7
static Type *mk_S1(void) {
  static MSpec s[7];
  s[0] = (MSpec){ty_int, 3}; s[1] = (MSpec){ty_int, 5}; s[2] = (MSpec){ty_uint, 7}; s[3] = (MSpec){ty_int, 0};
  s[4] = (MSpec){ty_char, 0}; s[5] = (MSpec){ty_short, 0}; s[6] = (MSpec){ty_long, 40};
  return mk_struct(s, 7, false);
}
// reference positions (psABI, written by hand): {bit position from the start of S1, width in bits}
static const int S1_pos[S1_LEAVES][2] = {{0, 3}, {3, 5}, {8, 7}, {32, 32}, {64, 8}, {80, 16}, {128, 40}};
#define S1_SIZE 24

#define MAXLEAF 16
#define MAXSIZE 64
struct IN_t {
  struct { uint8_t is_long; int64_t val; } leaf[MAXLEAF];
} IN;
struct IN_t nondet_IN(void);

static int nleaf;
static int leaf_pos[MAXLEAF][2];     // reference bit position / width of leaf k
static Initializer *leaf_init[MAXLEAF];
static Node *leaf_node[MAXLEAF];     // what initializer2() would store: the assign() expression, here a literal
static int leaf_member[MAXLEAF];     // union: index of the member the leaf belongs to (else 0)
static int obj_size;
static Type *obj_ty;
static Initializer *obj_init;
static int cur_member;

static void add_leaf(Initializer *init, int bitpos, int width) {
  int k = nleaf++;
  leaf_pos[k][0] = bitpos; leaf_pos[k][1] = width;
  leaf_init[k] = init;
  leaf_member[k] = cur_member;
  __CPROVER_assume(IN.leaf[k].is_long <= 1);
  if (!IN.leaf[k].is_long) __CPROVER_assume(IN.leaf[k].val == (int32_t)IN.leaf[k].val);
  Node *n = new_num(IN.leaf[k].val, NULL);
  n->ty = IN.leaf[k].is_long ? ty_long : ty_int;
  leaf_node[k] = n;
}
static void fill_S1(Initializer *init, int base) {
  for (int i = 0; i < S1_LEAVES; i++)
    add_leaf(init->children[i], base + S1_pos[i][0], S1_pos[i][1]);
}

static void build(void) {
  Type *s1 = mk_S1();
  VASSERT(s1->size == S1_SIZE && s1->align == 8, "S1 layout: size/align as psABI");
#if SHAPE == 1
  obj_ty = s1;
  obj_init = new_initializer(obj_ty, false);
  fill_S1(obj_init, 0);
#elif SHAPE == 2
  // struct S2 { char x; struct S1 s; long y; short z[2]; };   x at 0, s at 8, y at 32, z at 40; size 48
  static MSpec s[4];
  s[0] = (MSpec){ty_char, 0}; s[1] = (MSpec){s1, 0}; s[2] = (MSpec){ty_long, 0}; s[3] = (MSpec){array_of(ty_short, 2), 0};
  obj_ty = mk_struct(s, 4, false);
  VASSERT(obj_ty->size == 48, "S2 layout: size as psABI");
  obj_init = new_initializer(obj_ty, false);
  fill_S1(obj_init->children[1], 64);          // leaves 0..6: the bit-field struct
  add_leaf(obj_init->children[0], 0, 8);
  add_leaf(obj_init->children[2], 256, 64);
  add_leaf(obj_init->children[3]->children[0], 320, 16);
  add_leaf(obj_init->children[3]->children[1], 336, 16);
#elif SHAPE == 3
  // struct S1 a[2];
  obj_ty = array_of(s1, 2);
  obj_init = new_initializer(obj_ty, false);
  fill_S1(obj_init->children[0], 0);
  fill_S1(obj_init->children[1], S1_SIZE * 8);
#else
  // union U { long l; struct S1 s; char c; short h[2]; };  size 24
  static MSpec s[4];
  s[0] = (MSpec){ty_long, 0}; s[1] = (MSpec){s1, 0}; s[2] = (MSpec){ty_char, 0}; s[3] = (MSpec){array_of(ty_short, 2), 0};
  obj_ty = mk_struct(s, 4, true);
  VASSERT(obj_ty->size == 24, "U layout: size as psABI");
  obj_init = new_initializer(obj_ty, false);
  cur_member = 1; fill_S1(obj_init->children[1], 0);   // leaves 0..6
  cur_member = 0; add_leaf(obj_init->children[0], 0, 64);
  cur_member = 2; add_leaf(obj_init->children[2], 0, 8);
  cur_member = 3; add_leaf(obj_init->children[3]->children[0], 0, 16);
                  add_leaf(obj_init->children[3]->children[1], 16, 16);
#endif
  obj_size = obj_ty->size;
}

// ---- presence patterns (compile-time constants at every use)
// basic set: none, all, each leaf alone, each leaf missing, two alternating patterns
#define NBASIC (2 + 2 * MAXLEAF + 2)
static unsigned basic_pattern(int j) {
  if (j == 0) return 0;
  if (j == 1) return ~0u;
  if (j < 2 + MAXLEAF) return 1u << (j - 2);
  if (j < 2 + 2 * MAXLEAF) return ~(1u << (j - 2 - MAXLEAF));
  return j == 2 + 2 * MAXLEAF ? 0x5555u : 0xAAAAu;
}
// leaves 0..6 are the first S1 group: a, b, c (bit-fields), d, e, f, g (bit-field)
#if PATSET == 0        // every subset of the S1 group (other leaves present)
#define NPAT 128
static unsigned pattern(int j) { return (unsigned)j | ~0x7fu; }
#elif PATSET == 1      // basic set + every subset of the four bit-fields a, b, c, g (other leaves present)
#define NPAT (NBASIC + 16)
static unsigned pattern(int j) {
  if (j < NBASIC) return basic_pattern(j);
  unsigned m = j - NBASIC;
  return (m & 7) | (m & 8) << 3 | ~0x47u;
}
#elif PATSET == 2      // basic set only
#define NPAT NBASIC
static unsigned pattern(int j) { return basic_pattern(j); }
#elif PATSET == 4      // none, all, two alternating patterns
#define NPAT 4
static unsigned pattern(int j) { return j < 2 ? basic_pattern(j) : j == 2 ? 0x5555u : 0xAAAAu; }
#else                  // none, all, each leaf missing, two alternating patterns
#define NPAT (4 + MAXLEAF)
static unsigned pattern(int j) {
  if (j < 2) return basic_pattern(j);
  if (j < 4) return j == 2 ? 0x5555u : 0xAAAAu;
  return ~(1u << (j - 4));
}
#endif
static unsigned cur_present;          // bit k: leaf k is present in the current sub-problem
// umem: union only: 0 = `{}` (no member recorded), k = member k-1 designated
static void set_presence(unsigned pat, int umem) {
  cur_present = 0;
  for (int k = 0; k < MAXLEAF; k++) {
    if (k >= nleaf) break;
    bool p = pat >> k & 1;
#if SHAPE == 4
    // the parser fills only the designated member; with `{}` nothing is present
    if (umem == 0 || leaf_member[k] != umem - 1) p = false;
#endif
    leaf_init[k]->expr = p ? leaf_node[k] : NULL;
    if (p) cur_present |= 1u << k;
  }
#if SHAPE == 4
  obj_init->mem = NULL;
  Member *m = obj_ty->members;
  for (int i = 0; i < 4; i++, m = m->next)
    if (umem == i + 1) obj_init->mem = m;     // as union_initializer() records it
#endif
}
#if SHAPE == 4
#define NUMEM 5
#else
#define NUMEM 1
#endif

// ---- reference image, kept as little-endian 64-bit words.  Under the psABI no scalar or bit-field
// straddles an aligned 8-byte unit, so a store touches exactly one word (asserted).
#define MAXWORDS (MAXSIZE / 8)
static void ref_store(uint64_t *img, int bitpos, int width, uint64_t val) {
  int w = bitpos >> 6, sh = bitpos & 63;
  VASSERT(width >= 1 && width <= 64 && sh + width <= 64 && w < MAXWORDS, "store lies inside one 8-byte unit");
  uint64_t mask = width == 64 ? ~0ULL : (1ULL << width) - 1;
  img[w] = (img[w] & ~(mask << sh)) | ((val & mask) << sh);
}
static void ref_image(uint64_t *img) {
  for (int i = 0; i < MAXWORDS; i++) img[i] = 0;
  for (int k = 0; k < MAXLEAF; k++)
    if (k < nleaf && (cur_present >> k & 1))
      ref_store(img, leaf_pos[k][0], leaf_pos[k][1], (uint64_t)IN.leaf[k].val);
}
static uint64_t word_of(const char *buf, int w) {        // little-endian read of 8 bytes
  uint64_t v = 0;
  for (int j = 0; j < 8; j++) v |= (uint64_t)(unsigned char)buf[w * 8 + j] << (8 * j);
  return v;
}

// ---- interpretation of the automatic-storage assignment chain
static int n_assign;
static uint64_t auto_img[MAXWORDS];
static long lval_addr(Node *n, Member **bf);
static long rval_ptr(Node *n) {            // value of a pointer-typed expression made by init_desg_expr
  if (n->kind == ND_ADD) return rval_ptr(n->lhs) + eval(n->rhs);
  Member *bf = NULL;
  return lval_addr(n, &bf);                // an array lvalue decays to its address
}
static long lval_addr(Node *n, Member **bf) {
  if (n->kind == ND_VAR) return 0;
  if (n->kind == ND_MEMBER) {
    Member *dummy = NULL;
    long a = lval_addr(n->lhs, &dummy) + n->member->offset;
    if (n->member->is_bitfield) *bf = n->member;
    return a;
  }
  VASSERT(n->kind == ND_DEREF, "designator expression is VAR / MEMBER / DEREF(ADD)");
  return rval_ptr(n->lhs);
}
static Type *lval_type(Node *n) {
  if (n->kind == ND_VAR) return n->var->ty;
  if (n->kind == ND_MEMBER) return n->member->ty;
  return lval_type(n->lhs->lhs)->base;     // DEREF(ADD(array lvalue, index)): the element type
}
static void run_chain(Node *n) {
  if (n->kind == ND_COMMA) { run_chain(n->lhs); run_chain(n->rhs); return; }
  if (n->kind == ND_NULL_EXPR) return;
  VASSERT(n->kind == ND_ASSIGN, "chain consists of COMMA / NULL_EXPR / ASSIGN nodes");
  Member *bf = NULL;
  long addr = lval_addr(n->lhs, &bf);
  Type *lt = lval_type(n->lhs);
  VASSERT(n->rhs && n->rhs->kind == ND_NUM, "the assigned expression is the leaf's expression");
  // C assignment: the value is converted to the type of the lvalue (bit-field: to its width) and stored
  int64_t v = n->rhs->val;
  n_assign++;
  VASSERT(addr >= 0 && addr + lt->size <= obj_size, "assignment target inside the object");
  if (bf) ref_store(auto_img, addr * 8 + bf->bit_offset, bf->bit_width, (uint64_t)v);
  else ref_store(auto_img, addr * 8, lt->size * 8, (uint64_t)v);
}

// eval2() hands floating-typed nodes to eval_double(); none exist here (cut, asserted unreachable)
long double cut_eval_double(Node *node) {
  VASSERT(0, "eval_double reached on an integer-only initializer");
  __CPROVER_assume(0);
  return 0;
}

static char sbuf[MAXSIZE];
void h_static(void) {
  HAVOC_IN();
  build();
  for (int um = 0; um < NUMEM; um++)
    for (int j = 0; j < NPAT; j++) {
      set_presence(pattern(j), um);
      uint64_t want[MAXWORDS];
      ref_image(want);
      Relocation head = {0};
      for (int i = 0; i < MAXSIZE; i++) sbuf[i] = 0;             // gvar_initializer(): calloc(1, size)
      Relocation *end = write_gvar_data(&head, obj_init, obj_ty, sbuf, 0);
      VASSERT(end == &head && head.next == NULL, "no relocation for integer constants");
      for (int w = 0; w < MAXWORDS; w++)
        if (w * 8 < obj_size)
          VASSERT(word_of(sbuf, w) == want[w], "static byte image equals reference image");
    }
  VCOVER();
}

void h_auto(void) {
  HAVOC_IN();
  build();
  Obj var = {0};
  var.ty = obj_ty; var.is_local = true;
  for (int um = 0; um < NUMEM; um++)
    for (int j = 0; j < NPAT; j++) {
      set_presence(pattern(j), um);
      uint64_t want[MAXWORDS];
      ref_image(want);
      InitDesg desg = {NULL, 0, NULL, &var};                     // as lvar_initializer() does
      Node *chain = create_lvar_init(obj_init, obj_ty, &desg, NULL);
      for (int i = 0; i < MAXWORDS; i++) auto_img[i] = 0;        // ND_MEMZERO
      n_assign = 0;
      run_chain(chain);
      int n_present = 0;
      for (int k = 0; k < MAXLEAF; k++)
        if (cur_present >> k & 1) n_present++;
      VASSERT(n_assign == n_present, "exactly one assignment per present leaf");
      for (int w = 0; w < MAXWORDS; w++)
        if (w * 8 < obj_size)
          VASSERT(auto_img[w] == want[w], "automatic-storage image equals reference image");
    }
  VCOVER();
}
