// assert() in the code under test must be a checked property (cbmc is run with
// --no-built-in-assertions, which would otherwise silence glibc's __assert_fail model; natively a
// failing assert must be reported as ASSERT-FAILED, not lost).  chibicc.h has no include guard and
// re-includes <assert.h>, so the macro cannot be overridden; instead the function glibc's assert
// expands to is defined here.  Include AFTER common.h.
#ifndef VERIF_ASSERT_HOOK_H
#define VERIF_ASSERT_HOOK_H
static int verif_assert_failed;
void __assert_fail(const char *expr, const char *file, unsigned int line, const char *func) {
  verif_assert_failed = 1;
  VASSERT(0, "assert() inside the code under test failed (the compiler would abort)");
  verif_exit(134);
}
#endif
