// Environment of parse.c for E1 harnesses that `#include "parse.c"` and link the real
// /repo/type.c (and, natively, /repo/hashmap.c) as separate translation units.
// Everything here is a STUB of another unit's function (listed in chk.assumptions):
//   error/error_at/error_tok  -> diagnostic path: sets verif_diag and ends the path
//   warn_tok                  -> no-op
//   equal/skip/consume        -> specification of tokenize.c's three helpers (token spelling
//                                equals the C string), written without the real memcmp
//                                over-read so cbmc's bounds checks stay meaningful
//   align_to                  -> specification of codegen.c's align_to (least multiple of
//                                `align` that is >= n, for align a power of two and n > -align;
//                                the precondition is asserted, not assumed); the real
//                                align_to is proved equal to this in c08/align_to.c
//   format / strarray_push / struct_in_memory -> never reached by the harnesses; dummy bodies so that the
//                                native replay links
// Include AFTER common.h and AFTER parse.c (chibicc.h has no include guard).
#ifndef VERIF_PENV_H
#define VERIF_PENV_H

static Token *verif_diag_tok;   // token handed to the last error_tok()

noreturn void error(char *fmt, ...) { verif_exit(1); }
noreturn void error_at(char *loc, char *fmt, ...) { verif_exit(1); }
noreturn void error_tok(Token *tok, char *fmt, ...) { verif_diag_tok = tok; verif_exit(1); }
void warn_tok(Token *tok, char *fmt, ...) {}

#ifndef PENV_CUSTOM_EQUAL
bool equal(Token *tok, char *op) {
  // iterate over `op` (a string literal at every call site, so the bound is concrete for cbmc)
  int i = 0;
  for (; op[i] != '\0'; i++)
    if (i >= tok->len || op[i] != tok->loc[i])
      return false;
  return tok->len == i;
}
#endif

Token *skip(Token *tok, char *op) {
  if (!equal(tok, op))
    error_tok(tok, "expected '%s'", op);
  return tok->next;
}

bool consume(Token **rest, Token *tok, char *str) {
  if (equal(tok, str)) {
    *rest = tok->next;
    return true;
  }
  *rest = tok;
  return false;
}

int align_to(int n, int align) {
  VASSERT(align > 0 && (align & (align - 1)) == 0 && n > -align,
          "align_to precondition: align is a power of two and n > -align");
  if (n <= 0)
    return 0;
  return (n + align - 1) & ~(align - 1);
}

char *format(char *fmt, ...) { static char buf[8] = ".L..0"; return buf; }
void strarray_push(StringArray *arr, char *s) {}
bool struct_in_memory(Type *ty) { VASSERT(0, "codegen.c struct_in_memory reached (not stubbed faithfully)"); return false; }
bool struct_ret_in_memory(Type *ty) { VASSERT(0, "codegen.c struct_ret_in_memory reached (not stubbed faithfully)"); return false; }
int struct_reg_class(Type *ty) { VASSERT(0, "codegen.c struct_reg_class reached (not stubbed faithfully)"); return 2; }

#endif
