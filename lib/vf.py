# Common machinery for all checks: scratch dirs, building chibicc from /repo's
# current working tree, running goto-cc/cbmc, collecting obligations, evidence,
# known findings, replay files.
import os, sys, json, time, subprocess, tempfile, shutil, hashlib, atexit, re, resource
import concurrent.futures as cf

VERIF = os.path.dirname(os.path.dirname(os.path.abspath(__file__)))
REPO = os.environ.get("VERIF_REPO", "/repo")
GUARD = "CHIBICC_VERIF"
NCPU = min(16, os.cpu_count() or 4)

_scratch = None


def scratch():
    """Per-process scratch directory outside /repo and /verif, removed at exit."""
    global _scratch
    if _scratch is None:
        _scratch = tempfile.mkdtemp(prefix="chibicc-verif-")
        atexit.register(lambda: shutil.rmtree(_scratch, ignore_errors=True))
    return _scratch


def subdir(name):
    d = os.path.join(scratch(), name)
    os.makedirs(d, exist_ok=True)
    return d


def repo_sources():
    out = []
    for f in sorted(os.listdir(REPO)):
        if f.endswith(".c") or f.endswith(".h"):
            out.append(os.path.join(REPO, f))
    inc = os.path.join(REPO, "include")
    for f in sorted(os.listdir(inc)):
        out.append(os.path.join(inc, f))
    return out


def repo_hash():
    h = hashlib.sha256()
    for p in repo_sources():
        h.update(p.encode())
        with open(p, "rb") as fh:
            h.update(fh.read())
    return h.hexdigest()[:16]


def run(cmd, timeout=None, cwd=None, input=None, env=None):
    """Run a command, return (rc, stdout, stderr, secs, maxrss_kb). rc None = timeout."""
    t0 = time.time()
    try:
        p = subprocess.run(cmd, stdout=subprocess.PIPE, stderr=subprocess.PIPE, cwd=cwd,
                           timeout=timeout, input=input, env=env)
        rc, out, err = p.returncode, p.stdout, p.stderr
    except subprocess.TimeoutExpired as e:
        rc, out, err = None, e.stdout or b"", e.stderr or b""
    return rc, out.decode("utf-8", "replace"), err.decode("utf-8", "replace"), time.time() - t0


def build_chibicc():
    """Build chibicc from /repo's current working tree (copy, never in place).
    Returns path to a directory containing ./chibicc and ./include. The build is keyed by a
    hash of the sources, so concurrent checks on the same tree share one build; any edit to
    /repo gives a new key and a fresh build."""
    key = repo_hash()
    cache = os.path.join(VERIF, ".cache", "build-" + key)
    exe = os.path.join(cache, "chibicc")
    if os.path.exists(exe):
        return cache
    tmp = tempfile.mkdtemp(prefix="chibicc-build-")
    try:
        for f in os.listdir(REPO):
            if f.endswith(".c") or f.endswith(".h"):
                shutil.copy(os.path.join(REPO, f), tmp)
        shutil.copytree(os.path.join(REPO, "include"), os.path.join(tmp, "include"))
        srcs = sorted(f for f in os.listdir(tmp) if f.endswith(".c"))
        rc, out, err, _ = run(["gcc", "-std=c11", "-g", "-O1", "-fno-common", "-D" + GUARD, "-w",
                               "-o", "chibicc"] + srcs, cwd=tmp, timeout=300)
        if rc != 0:
            raise RuntimeError("building chibicc from %s failed:\n%s" % (REPO, err[-4000:]))
        os.makedirs(os.path.dirname(cache), exist_ok=True)
        # prune old builds (disk discipline)
        cdir = os.path.dirname(cache)
        old = sorted((os.path.getmtime(os.path.join(cdir, d)), d) for d in os.listdir(cdir)
                     if d.startswith("build-"))
        for _, d in old[:-3]:
            shutil.rmtree(os.path.join(cdir, d), ignore_errors=True)
        final_tmp = cache + ".tmp%d" % os.getpid()
        shutil.rmtree(final_tmp, ignore_errors=True)
        os.makedirs(final_tmp)
        shutil.copy(os.path.join(tmp, "chibicc"), final_tmp)
        shutil.copytree(os.path.join(tmp, "include"), os.path.join(final_tmp, "include"))
        try:
            os.rename(final_tmp, cache)
        except OSError:
            shutil.rmtree(final_tmp, ignore_errors=True)
    finally:
        shutil.rmtree(tmp, ignore_errors=True)
    return cache


def chibicc_S(src_text, name="t", extra=(), builddir=None, want_rc=False):
    """Compile C text to assembly with the freshly built chibicc (-cc1 directly so that
    signals are visible). Returns assembly text (or (rc, asm, stderr) if want_rc)."""
    b = builddir or build_chibicc()
    d = subdir("cc")
    cpath = os.path.join(d, name + ".c")
    spath = os.path.join(d, name + ".s")
    with open(cpath, "w") as fh:
        fh.write(src_text)
    cmd = [os.path.join(b, "chibicc"), "-cc1", "-cc1-input", cpath, "-cc1-output", spath,
           "-I" + os.path.join(b, "include")] + list(extra) + [cpath]
    rc, out, err, _ = run(cmd, timeout=120)
    asm = ""
    if rc == 0 and os.path.exists(spath):
        with open(spath) as fh:
            asm = fh.read()
    for p in (cpath, spath):
        try:
            os.remove(p)
        except OSError:
            pass
    if want_rc:
        return rc, asm, err
    if rc != 0:
        raise RuntimeError("chibicc -cc1 failed (rc=%s) on %s:\n%s" % (rc, name, err[-2000:]))
    return asm


# ----------------------------------------------------------------------------------------
# CBMC
# ----------------------------------------------------------------------------------------
CBMC_STD = ["--unwinding-assertions", "--signed-overflow-check", "--undefined-shift-check",
            "--div-by-zero-check", "--drop-unused-functions", "--no-malloc-may-fail"]


class CbmcResult:
    def __init__(self):
        self.status = "inconclusive"  # proved | violated | inconclusive
        self.failed = []              # list of (property name, description, location)
        self.trace = None             # list of assignments for first failing property
        self.nprops = 0
        self.secs = 0.0
        self.detail = ""
        self.cmd = ""
        self.unwind_failed = False

    def trace_values(self):
        """dict lhs -> last value (str) from the counterexample trace."""
        vals = {}
        for st in self.trace or []:
            if st.get("stepType") == "assignment" and "lhs" in st:
                v = st.get("value", {})
                vals[st["lhs"]] = v.get("data", v.get("name"))
        return vals

    def trace_series(self):
        out = []
        for st in self.trace or []:
            if st.get("stepType") == "assignment" and "lhs" in st:
                v = st.get("value", {})
                out.append((st["lhs"], v.get("data", v.get("name")), v.get("binary")))
        return out


def goto_cc(sources, out, defines=(), includes=(), timeout=300):
    # __NO_CTYPE: glibc's isdigit()/isalnum()/... macros expand to (*__ctype_b_loc())[c], which has no body under
    # cbmc (character classification would be nondeterministic); without the macros cbmc's own models are used
    cmd = ["goto-cc", "-o", out, "-I", REPO, "-D" + GUARD, "-D__CPROVER_VERIF__", "-D__NO_CTYPE"]
    for d in defines:
        cmd.append("-D" + d)
    for i in includes:
        cmd += ["-I", i]
    cmd += list(sources)
    rc, o, e, s = run(cmd, timeout=timeout)
    if rc != 0:
        raise RuntimeError("goto-cc failed: %s\n%s" % (" ".join(cmd), (o + e)[-4000:]))
    return out


def cbmc(gb, function, unwind=None, unwindset=(), flags=(), timeout=600, std=True,
         replace_calls=(), trace=True, mem_gb=24, object_bits=None, instrument=()):
    """Run cbmc on a goto binary. Returns CbmcResult. Timeout/oom/solver error = inconclusive.
    instrument: extra goto-instrument arguments applied (after --replace-calls) in a separate pass, e.g.
    ("--unwindset", "tokenize.2:1", "--partial-loops") to cut one loop to a single iteration (inductive step)."""
    r = CbmcResult()
    work = gb
    if replace_calls or instrument:
        import threading
        work = "%s.%s.%x.rc.gb" % (gb, re.sub(r"\W", "_", function), threading.get_ident() & 0xffffff)
        src = gb
        if replace_calls:
            cmd = ["goto-instrument"]
            for rc_ in replace_calls:
                cmd += ["--replace-calls", rc_]
            cmd += [src, work]
            rc, o, e, s = run(cmd, timeout=300)
            if rc != 0:
                r.detail = "goto-instrument failed: " + (o + e)[-2000:]
                return r
            src = work
        if instrument:
            rc, o, e, s = run(["goto-instrument"] + list(instrument) + [src, work], timeout=300)
            if rc != 0:
                r.detail = "goto-instrument failed: " + (o + e)[-2000:]
                return r
    cmd = ["cbmc", work, "--function", function, "--json-ui"]
    if std:
        cmd += CBMC_STD
    if unwind is not None:
        cmd += ["--unwind", str(unwind)]
    if unwindset:
        cmd += ["--unwindset", ",".join(unwindset)]
    if trace:
        cmd += ["--trace"]
    if object_bits:
        cmd += ["--object-bits", str(object_bits)]
    cmd += list(flags)
    r.cmd = " ".join(cmd)
    pre = "ulimit -v %d; exec " % (mem_gb * 1024 * 1024)
    rc, o, e, s = run(["bash", "-c", pre + " ".join("'%s'" % c for c in cmd)], timeout=timeout)
    r.secs = s
    if rc is None:
        r.detail = "timeout after %ds" % timeout
        return r
    try:
        msgs = json.loads(o)
    except Exception:
        r.detail = "unparseable cbmc output rc=%s: %s" % (rc, (o + e)[-1500:])
        return r
    result = None
    cprover_status = None
    errors = []
    for m in msgs:
        if not isinstance(m, dict):
            continue
        if "result" in m:
            result = m["result"]
        if "cProverStatus" in m:
            cprover_status = m["cProverStatus"]
        if m.get("messageType") == "ERROR":
            errors.append(m.get("messageText", ""))
    if replace_calls or instrument:
        try:
            os.remove(work)
        except OSError:
            pass
    if result is None:
        r.detail = "no result (rc=%s): %s" % (rc, " | ".join(errors)[-1500:] or (o + e)[-800:])
        return r
    r.nprops = len(result)
    for p in result:
        if p.get("status") == "FAILURE":
            r.failed.append((p.get("property"), p.get("description"),
                             p.get("sourceLocation", {})))
            if r.trace is None and "trace" in p:
                r.trace = p["trace"]
            if "unwind" in (p.get("property") or "") or "unwinding" in (p.get("description") or ""):
                r.unwind_failed = True
        elif p.get("status") not in ("SUCCESS",):
            r.detail += " prop %s status %s;" % (p.get("property"), p.get("status"))
    if r.failed:
        r.status = "violated"
    elif cprover_status == "success" and not r.detail:
        r.status = "proved"
    return r


def pmap(fn, items, workers=NCPU):
    with cf.ThreadPoolExecutor(max_workers=workers) as ex:
        return list(ex.map(fn, items))


# ----------------------------------------------------------------------------------------
# Known findings
# ----------------------------------------------------------------------------------------
def load_known():
    p = os.path.join(VERIF, "known_findings.json")
    if not os.path.exists(p):
        return {}
    with open(p) as fh:
        data = json.load(fh)
    known = KnownFindings()
    for f in data.get("findings", []):
        if f.get("status") == "open":
            if "key_regex" in f:
                known.regex.append((f["property"], re.compile(f["key_regex"]), f))
            else:
                known[(f["property"], f["key"])] = f
    return known


class KnownFindings(dict):
    """(property, obligation key) -> finding; an entry may instead carry key_regex naming one family of
    failing inputs (e.g. the same defect seen at every position of a signature sweep)."""

    def __init__(self):
        super().__init__()
        self.regex = []

    def __contains__(self, pk):
        if dict.__contains__(self, pk):
            return True
        return any(p == pk[0] and r.match(pk[1]) for p, r, f in self.regex)

    def __getitem__(self, pk):
        if dict.__contains__(self, pk):
            return dict.__getitem__(self, pk)
        for p, r, f in self.regex:
            if p == pk[0] and r.match(pk[1]):
                return f
        raise KeyError(pk)


# ----------------------------------------------------------------------------------------
# A check run
# ----------------------------------------------------------------------------------------
class Check:
    """Collects obligations (one per solver query / cbmc run) and writes evidence.

    Obligation status:
      proved        solver says unsat / cbmc SUCCESS with unwinding assertions passing
      violated      sat + counterexample reproduced against the real build
      mismatch      sat but the counterexample did NOT reproduce natively (encoding bug) -> exit 2
      inconclusive  timeout / unknown / unmodelled instruction / tool error -> exit 2
    """

    def __init__(self, pid, tier, level="model_checking"):
        self.pid = pid
        self.tier = tier
        self.level = level
        self.t0 = time.time()
        self.obl = []
        self.samples = []
        self.functions = set()
        self.bounds = []
        self.assumptions = []
        self.outside = []
        self.solver_secs = 0.0
        self.witnesses = 0
        self.extra = {}
        self.seed = int(os.environ.get("VERIF_SEED", "0") or 0)
        self.known = load_known()
        self.replay_dir = os.path.join(VERIF, "replays", pid)

    def add(self, key, status, detail="", secs=0.0, replay=None, family=None):
        self.obl.append(dict(key=key, status=status, detail=detail, secs=secs, replay=replay,
                             family=family or key.split("/")[0]))
        self.solver_secs += secs

    def sample(self, s):
        if len(self.samples) < 12:
            self.samples.append(s)

    def write_replay(self, key, text, ext=".c"):
        os.makedirs(self.replay_dir, exist_ok=True)
        fn = re.sub(r"[^A-Za-z0-9_.+-]", "_", key)[:120] + ext
        p = os.path.join(self.replay_dir, fn)
        with open(p, "w") as fh:
            fh.write(text)
        return p

    def finish(self):
        viol, known_hit, inconc, mism = [], [], [], []
        for o in self.obl:
            if o["status"] == "violated":
                if (self.pid, o["key"]) in self.known:
                    known_hit.append(o)
                else:
                    viol.append(o)
            elif o["status"] == "inconclusive":
                inconc.append(o)
            elif o["status"] == "mismatch":
                mism.append(o)
        proved = [o for o in self.obl if o["status"] == "proved"]
        seen_f = {}
        for o in known_hit:
            f = self.known[(self.pid, o["key"])]
            seen_f.setdefault(id(f), (f, []))[1].append(o["key"])
        for f, keys in seen_f.values():
            print("KNOWN-FINDING: property=%s %s [%s%s]" % (self.pid, f.get("what", ""), keys[0],
                                                            " and %d more queries of this family" % (len(keys) - 1) if len(keys) > 1 else ""))
        for o in viol:
            print("VIOLATION property=%s replay=%s  # %s: %s" % (self.pid, o.get("replay") or "-",
                                                                  o["key"], o["detail"][:300]))
        for o in mism:
            print("ENCODING-MISMATCH property=%s %s: %s" % (self.pid, o["key"], o["detail"][:300]))
        for o in inconc[:20]:
            print("INCONCLUSIVE property=%s %s: %s" % (self.pid, o["key"], o["detail"][:300]))
        fams = {}
        for o in self.obl:
            fams.setdefault(o["family"], [0, 0])
            fams[o["family"]][0] += 1
            if o["status"] == "proved":
                fams[o["family"]][1] += 1
        wall = time.time() - self.t0
        cov = dict(
            obligations=len(self.obl), discharged=len(proved),
            evaluations=max(1, len(self.obl)),
            distinct_nontrivial=len(set(o["key"] for o in self.obl)),
            rule="one obligation = one solver query (SMT query over emitted assembly, or one cbmc "
                 "run over a harness including the real translation unit); distinct by key; "
                 "non-trivial = the query's vacuity witness is satisfiable / reaches the assertion",
            states=max(1, len(self.obl)), transitions=max(1, len(self.obl)),
            traces_validated_against_impl=self.extra.get("validated", 0),
            samples=self.samples or [o["key"] for o in self.obl[:8]] or ["none"],
            checker_cmd="./check %s --tier %s" % (self.pid, self.tier),
            trusted_base=["cbmc 6.11.0", "z3 (python3-vt bindings)", "gcc (native replay/oracle validation)"],
            functions_encoded=sorted(self.functions),
            bounds=self.bounds, outside_claim=self.outside,
            families={k: dict(queries=v[0], proved=v[1]) for k, v in sorted(fams.items())},
            solver_secs=round(self.solver_secs, 2),
            vacuity_witnesses_ok=self.witnesses,
            slowest=[dict(key=o["key"], secs=round(o["secs"], 2)) for o in sorted(self.obl, key=lambda o: -o["secs"])[:5]],
            known_findings_hit=[o["key"] for o in known_hit],
            inconclusive=[o["key"] for o in inconc], mismatches=[o["key"] for o in mism],
            explanation="bounded symbolic checking; see bounds/outside_claim",
            exhaustive=False,
        )
        cov.update(self.extra)
        ev = dict(property_id=self.pid, tier=self.tier, seed=self.seed, level=self.level,
                  coverage=cov, assumptions=self.assumptions, wall_s=round(wall, 2),
                  violations=len(viol))
        os.makedirs(os.path.join(VERIF, "evidence"), exist_ok=True)
        with open(os.path.join(VERIF, "evidence", self.pid + ".json"), "w") as fh:
            json.dump(ev, fh, indent=1)
        print("%s %s: %d obligations, %d proved, %d known-finding, %d violated, %d inconclusive, "
              "%d mismatch, %.1fs wall, %.1fs solver" % (self.pid, self.tier, len(self.obl), len(proved),
                                                         len(known_hit), len(viol), len(inconc),
                                                         len(mism), wall, self.solver_secs))
        if viol:
            return 1
        if inconc or mism or not self.obl:
            return 2
        return 0


def generic_replay(path):
    """Replay a counterexample file against /repo's current tree. .c = native harness replay
    (E1), .sh = script (E2/driver). Exit 1 when the violation reproduces, 0 when it does not."""
    d = subdir("replay")
    if path.endswith(".sh"):
        b = build_chibicc()
        env = dict(os.environ, CHIBICC=os.path.join(b, "chibicc"), CHIBICC_INCLUDE=os.path.join(b, "include"),
                   WORK=d)
        rc, o, e, _ = run(["bash", path], timeout=300, env=env)
        print(o + e)
        return 1 if rc != 0 else 0
    exe = os.path.join(d, "replay.exe")
    rc, o, e, _ = run(["gcc", "-w", "-O0", "-I", REPO, "-I", os.path.join(VERIF, "harness"), "-o", exe, path],
                      timeout=120)
    if rc != 0:
        print("replay build failed:\n" + e[-2000:])
        return 2
    rc, o, e, _ = run([exe], timeout=60)
    print(o + e)
    if rc == 0:
        print("replay: property held on this input (not reproduced)")
        return 0
    print("replay: reproduced (rc=%s)" % rc)
    return 1
