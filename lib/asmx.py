# E2 `asm-smt`: symbolic execution of chibicc-emitted x86-64 AT&T assembly in z3.
#
# The instruction vocabulary is CLOSED: it is exactly what /repo/codegen.c can print. Any
# other mnemonic/operand form raises Unmodelled, and the query is reported inconclusive.
#
# State: 16 GPRs (BV64), xmm0-15 (BV64 = low lane; chibicc only uses scalar ops), an x87
# register stack of FP(15,64) values + control word, lazily-defined flags (a flag that an
# instruction leaves undefined, or that this model does not compute, becomes a FRESH boolean:
# a proof can never depend on it), byte-addressed memory.
#
# Memory: accesses whose address is (RSP0 + constant) live in a per-offset `frame` map;
# everything else is a z3 Array (`heap`).  The first time an rsp-derived address with a
# non-constant offset is seen, the frame map is spilled into the array and everything goes
# through the array from then on (sound fallback).  Assumption (stated in evidence): pointers
# not derived from rsp/rbp do not point into this function's own frame or its incoming
# argument area.
#
# Control flow: path exploration. Conditional branches fork (infeasible sides are pruned by
# the solver); loops are unrolled up to `max_visits` per branch instruction per path; a path
# exceeding the bound is reported as bound-exceeded (never silently dropped).
import re
import z3

X87 = z3.FPSort(15, 64)
F32 = z3.Float32()
F64 = z3.Float64()
RNE = z3.RNE()
RTZ = z3.RTZ()


class Unmodelled(Exception):
    pass


class BoundExceeded(Exception):
    pass


class X87Overflow(Unmodelled):
    """More than 8 values pending on the x87 register stack: the next load yields the indefinite NaN."""
    pass


class X87Underflow(Unmodelled):
    """The code pops an x87 value it never produced (a consumed/duplicated-value accounting bug)."""
    pass


GPR64 = ["rax", "rbx", "rcx", "rdx", "rsi", "rdi", "rbp", "rsp", "r8", "r9", "r10", "r11", "r12",
         "r13", "r14", "r15"]
REGMAP = {}
for r in GPR64:
    REGMAP[r] = (r, 64, 0)
for r, e, w, b in [("rax", "eax", "ax", "al"), ("rbx", "ebx", "bx", "bl"), ("rcx", "ecx", "cx", "cl"),
                   ("rdx", "edx", "dx", "dl"), ("rsi", "esi", "si", "sil"), ("rdi", "edi", "di", "dil"),
                   ("rbp", "ebp", "bp", "bpl"), ("rsp", "esp", "sp", "spl")]:
    REGMAP[e] = (r, 32, 0)
    REGMAP[w] = (r, 16, 0)
    REGMAP[b] = (r, 8, 0)
for r, h in [("rax", "ah"), ("rbx", "bh"), ("rcx", "ch"), ("rdx", "dh")]:
    REGMAP[h] = (r, 8, 8)
for i in range(8, 16):
    REGMAP["r%dd" % i] = ("r%d" % i, 32, 0)
    REGMAP["r%dw" % i] = ("r%d" % i, 16, 0)
    REGMAP["r%db" % i] = ("r%d" % i, 8, 0)


class Op:
    __slots__ = ("kind", "reg", "size", "shift", "imm", "sym", "disp", "base", "index", "scale", "label",
                 "indirect", "seg", "mod")

    def __init__(self, kind, **kw):
        self.kind = kind
        for s in self.__slots__[1:]:
            setattr(self, s, kw.get(s))

    def __repr__(self):
        return "Op(%s)" % ",".join("%s=%r" % (s, getattr(self, s)) for s in self.__slots__ if getattr(self, s) is not None)


def _int(s):
    s = s.strip()
    neg = s.startswith("-")
    if neg:
        s = s[1:]
    if s.startswith("+"):
        s = s[1:]
    v = int(s, 0)
    return -v if neg else v


def parse_operand(s):
    s = s.strip()
    if s.startswith("*"):
        o = parse_operand(s[1:])
        o.indirect = True
        return o
    if s.startswith("$"):
        body = s[1:]
        try:
            return Op("imm", imm=_int(body))
        except ValueError:
            m = re.match(r"^([A-Za-z_.][\w.$]*)(@\w+)?$", body)
            if not m:
                raise Unmodelled("immediate " + s)
            return Op("imm", sym=m.group(1), mod=m.group(2), imm=0)
    if s.startswith("%"):
        if s.startswith("%fs:"):
            return Op("mem", seg="fs", disp=_int(s[4:]))
        name = s[1:]
        m = re.match(r"^st\((\d)\)$", name)
        if m:
            return Op("st", reg=int(m.group(1)))
        if name == "st":
            return Op("st", reg=0)
        m = re.match(r"^xmm(\d+)$", name)
        if m:
            return Op("xmm", reg=int(m.group(1)))
        if name in REGMAP:
            r, sz, sh = REGMAP[name]
            return Op("reg", reg=r, size=sz, shift=sh)
        raise Unmodelled("register " + s)
    m = re.match(r"^([^()]*)\(([^()]*)\)$", s)
    if m:
        dispstr, inner = m.group(1).strip(), m.group(2)
        parts = [p.strip() for p in inner.split(",")]
        base = parts[0][1:] if parts[0] else None
        index = parts[1][1:] if len(parts) > 1 and parts[1] else None
        scale = int(parts[2]) if len(parts) > 2 and parts[2] else 1
        sym = mod = None
        disp = 0
        if dispstr:
            try:
                disp = _int(dispstr)
            except ValueError:
                mm = re.match(r"^([A-Za-z_.][\w.$]*)(@\w+)?([+-]\d+)?$", dispstr)
                if not mm:
                    raise Unmodelled("displacement " + s)
                sym, mod = mm.group(1), mm.group(2)
                disp = _int(mm.group(3)) if mm.group(3) else 0
        if base is not None and base != "rip" and base not in GPR64:
            raise Unmodelled("base register " + s)
        if index is not None and index not in GPR64:
            raise Unmodelled("index register " + s)
        return Op("mem", disp=disp, base=base, index=index, scale=scale, sym=sym, mod=mod)
    # bare label / symbol (jump or call target)
    if re.match(r"^[A-Za-z_.\d][\w.$@]*$", s):
        return Op("label", label=s)
    raise Unmodelled("operand " + s)


def split_operands(s):
    out, depth, cur = [], 0, ""
    for ch in s:
        if ch == "(":
            depth += 1
        elif ch == ")":
            depth -= 1
        if ch == "," and depth == 0:
            out.append(cur)
            cur = ""
        else:
            cur += ch
    if cur.strip():
        out.append(cur)
    return [o.strip() for o in out]


class Insn:
    __slots__ = ("mn", "ops", "raw", "line", "prefix")

    def __init__(self, mn, ops, raw, line, prefix=None):
        self.mn, self.ops, self.raw, self.line, self.prefix = mn, ops, raw, line, prefix

    def __repr__(self):
        return self.raw


class Program:
    def __init__(self, text, comm_zero=False):
        self.comm_zero = comm_zero      # treat `.comm sym, n` as n zero bytes (program start of a single-unit program)
        self.insns = []
        self.labels = {}        # name -> index (for numeric labels: list of indices)
        self.numeric = {}       # "1" -> [indices]
        self.funcs = {}
        self.data = {}          # symbol -> list of ("byte", v) | ("quad", sym, addend) | ("zero", n)
        self.directives = []    # (section, directive text) for symbol-emission checks
        self.asm_lines = 0
        self._parse(text)

    def _parse(self, text):
        section = "text"
        cur_data = None
        for ln, line in enumerate(text.split("\n"), 1):
            line = line.split("#", 1)[0].rstrip()
            if not line.strip():
                continue
            for piece in line.split(";"):
                piece = piece.strip()
                while True:
                    m = re.match(r"^([A-Za-z_.$\d][\w.$]*):\s*(.*)$", piece)
                    if not m:
                        break
                    name, piece = m.group(1), m.group(2).strip()
                    if section == "text":
                        if name.isdigit():
                            self.numeric.setdefault(name, []).append(len(self.insns))
                        else:
                            self.labels[name] = len(self.insns)
                    else:
                        cur_data = name
                        self.data[name] = []
                if not piece:
                    continue
                if piece.startswith("."):
                    d = piece.split()
                    self.directives.append((section, piece))
                    if d[0] == ".text":
                        section = "text"
                    elif d[0] in (".data", ".bss"):
                        section = d[0][1:]
                    elif d[0] == ".section":
                        section = d[1].split(",")[0]
                    elif d[0] == ".type" and "@function" in piece:
                        self.funcs[d[1].rstrip(",")] = None
                    elif d[0] == ".comm":
                        if self.comm_zero:
                            self.data[d[1].rstrip(",")] = [("zero", _int(d[2].rstrip(",")))]
                    elif section != "text" and cur_data is not None:
                        if d[0] == ".byte":
                            self.data[cur_data].append(("byte", _int(d[1])))
                        elif d[0] == ".zero":
                            self.data[cur_data].append(("zero", _int(d[1])))
                        elif d[0] == ".quad":
                            mm = re.match(r"^([A-Za-z_.][\w.$]*)([+-]\d+)?$", d[1])
                            if mm:
                                self.data[cur_data].append(("quad", mm.group(1), _int(mm.group(2) or "0")))
                            else:
                                self.data[cur_data].append(("quadv", _int(d[1])))
                    elif section == "text" and d[0] == ".value":
                        self.insns.append(Insn(".value", [], piece, ln))
                    continue
                if section != "text":
                    continue
                self.asm_lines += 1
                parts = piece.split(None, 1)
                mn = parts[0]
                prefix = None
                if mn in ("lock", "rep", "data16") and len(parts) > 1:
                    prefix = mn
                    parts = parts[1].split(None, 1)
                    mn = parts[0]
                opstr = parts[1] if len(parts) > 1 else ""
                ops = [parse_operand(o) for o in split_operands(opstr)] if opstr else []
                self.insns.append(Insn(mn, ops, piece, ln, prefix))
        for f in list(self.funcs):
            if f in self.labels:
                self.funcs[f] = self.labels[f]

    def resolve(self, label, at):
        m = re.match(r"^(\d+)([fb])$", label)
        if m:
            idxs = self.numeric.get(m.group(1), [])
            if m.group(2) == "f":
                c = [i for i in idxs if i > at]
                if not c:
                    raise Unmodelled("label " + label)
                return min(c)
            c = [i for i in idxs if i <= at]
            if not c:
                raise Unmodelled("label " + label)
            return max(c)
        if label in self.labels:
            return self.labels[label]
        return None


def bv(v, n=64):
    return z3.BitVecVal(v, n)


def simp(e):
    return z3.simplify(e, elim_sign_ext=False)


_PROV = {}     # ast id of an extracted byte -> (word, byte index, keepalive)


class Event:
    """A call/observation point recorded on a path."""

    def __init__(self, kind, **kw):
        self.kind = kind
        self.__dict__.update(kw)


class State:
    def __init__(self, m):
        self.m = m                      # Machine
        self.regs = {}
        self.xmm = {}
        self.st = []                    # x87 stack, top = last
        self.cw = bv(0x037F, 16)
        self.flags = {}                 # name -> Bool or None (undefined)
        self.regions = {}               # region key -> {offset -> (word, byte index)}
        self.owned = set()              # regions whose map is private to this state (copy-on-write)
        self.dyn_bases = []             # [(region name, base expr, upper offset limit)] : stack bases created by alloca/VLA
        self.in_atomic = None           # set while a locked read-modify-write instruction accesses memory
        self.base_arr = None            # array giving unwritten bytes of symbol regions (M0 until an external call)
        self.spilled_regions = frozenset()
        self.heap = None                # z3 Array
        self.hlog = []                  # recent heap stores (addr, word, nbytes) for exact re-loads
        self.pc = []                    # path condition (list of Bool)
        self.ip = 0
        self.visits = {}
        self.events = []
        self.traps = []                 # Bool conditions under which the CPU would fault (#DE)
        self.callstack = []
        self.done = False
        self.steps = 0
        self.dead = False
        self.cut = False
        self.stopped = False
        self.wild = False
        self.x87_overflowed = False

    def copy(self):
        s = State(self.m)
        s.regs = dict(self.regs)
        s.xmm = dict(self.xmm)
        s.st = list(self.st)
        s.cw = self.cw
        s.flags = dict(self.flags)
        s.regions = dict(self.regions)
        s.owned = set()
        self.owned = set()
        s.spilled_regions = self.spilled_regions
        s.base_arr = self.base_arr
        s.dyn_bases = list(self.dyn_bases)
        s.heap = self.heap
        s.hlog = list(self.hlog)
        s.pc = list(self.pc)
        s.ip = self.ip
        s.visits = dict(self.visits)
        s.events = list(self.events)
        s.traps = list(self.traps)
        s.callstack = list(self.callstack)
        s.steps = self.steps
        s.x87_overflowed = self.x87_overflowed
        return s

    # ---- registers -------------------------------------------------------------------
    def get(self, op):
        v = self.regs[op.reg]
        if op.size == 64:
            return v
        return simp(z3.Extract(op.shift + op.size - 1, op.shift, v))

    def set(self, op, val):
        old = self.regs[op.reg]
        if op.size == 64:
            new = val
        elif op.size == 32:
            new = z3.ZeroExt(32, val)
        elif op.size == 16:
            new = z3.Concat(z3.Extract(63, 16, old), val)
        elif op.shift == 8:
            new = z3.Concat(z3.Extract(63, 16, old), val, z3.Extract(7, 0, old))
        else:
            new = z3.Concat(z3.Extract(63, 8, old), val)
        self.regs[op.reg] = simp(new)

    # ---- memory ----------------------------------------------------------------------
    # Regions: "RSP" (this function's stack, addresses RSP0+const) and one per extern symbol
    # (&sym+const). Region bytes live in per-region maps (no aliasing reasoning needed: distinct
    # symbols name disjoint objects, and none of them overlaps the stack). Any other address goes
    # to the z3 Array `heap`. An address that mentions a region base but is not base+const
    # (symbolic index) makes that region "spilled": its bytes are moved into the array and all
    # later accesses to it go through the array (sound fallback).
    def _decompose(self, addr):
        """addr (simplified) -> (region key, int offset) or (None, None)"""
        if addr.eq(self.m.RSP0):
            return "RSP", 0
        if z3.is_const(addr) and addr.decl().kind() == z3.Z3_OP_UNINTERPRETED:
            n = addr.decl().name()
            if n.startswith("&"):
                return n, 0
            return None, None
        if z3.is_app_of(addr, z3.Z3_OP_BADD) and addr.num_args() == 2:
            a, b = addr.arg(0), addr.arg(1)
            if z3.is_bv_value(b):
                a, b = b, a
            if z3.is_bv_value(a):
                k, o = self._decompose(b)
                if k is not None and o == 0:
                    v = a.as_signed_long()
                    if -(1 << 24) < v < (1 << 24):
                        return k, v
        # dynamic stack bases (rsp after alloca / a VLA): B + const with const below the relocated temporary area
        for name, B, limit in reversed(self.dyn_bases):
            d = simp(addr - B)
            if z3.is_bv_value(d):
                v = d.as_signed_long()
                if -(1 << 20) < v < limit:
                    return name, v
                return None, None
        return None, None

    def _stack_off(self, addr):
        k, o = self._decompose(simp(addr))
        return o if k == "RSP" else None

    def _bases(self, addr):
        """region bases mentioned arithmetically in addr (values loaded from memory are opaque)"""
        seen, todo, out = set(), [addr], set()
        while todo:
            e = todo.pop()
            i = e.get_id()
            if i in seen:
                continue
            seen.add(i)
            if e.eq(self.m.RSP0):
                out.add("RSP")
                continue
            if z3.is_const(e) and e.decl().kind() == z3.Z3_OP_UNINTERPRETED and e.decl().name().startswith("&"):
                out.add(e.decl().name())
                continue
            if z3.is_app_of(e, z3.Z3_OP_SELECT):
                continue
            todo.extend(e.children())
        return out

    def _base_addr(self, key):
        if key == "RSP":
            return self.m.RSP0
        if key.startswith("DYN"):
            return [B for n, B, l in self.dyn_bases if n == key][0]
        return self.m.syms[key[1:]]

    def _rbyte(self, key, reg, off):
        ent = reg.get(off)
        if ent is None:
            if key.startswith("&") and self.base_arr is None:
                init = self.m.data_byte(key[1:], off)       # statically initialised object defined in this file
                if init is not None:
                    return init
            arr = self.m.M0 if key == "RSP" or key.startswith("DYN") or self.base_arr is None else self.base_arr
            return z3.Select(arr, simp(self._base_addr(key) + bv(off)))
        w, i = ent
        if w.size() == 8:
            return w
        e = simp(z3.Extract(8 * i + 7, 8 * i, w))
        _PROV[e.get_id()] = (w, i, e)      # remember which word this byte came from (bytewise copies)
        return e

    def _spill_region(self, key):
        if key in self.spilled_regions:
            return
        reg = self.regions.get(key, {})
        h = self.heap
        base = self._base_addr(key)
        for off in sorted(reg):
            h = z3.Store(h, simp(base + bv(off)), self._rbyte(key, reg, off))
        self.heap = h
        self.regions[key] = {}
        self.hlog = []
        self.spilled_regions = self.spilled_regions | {key}

    @property
    def spilled(self):
        return "RSP" in self.spilled_regions

    def _route(self, addr):
        """-> (key, off) for a region access, or (None, None) for the array"""
        k, o = self._decompose(addr)
        if k is not None and k not in self.spilled_regions:
            return k, o
        if k is None:
            bases = self._bases(addr)
            if bases == {"RSP"} and "RSP" not in self.spilled_regions:
                c = self.m.semantic_rsp_offset(addr, self.pc)
                if c is not None:
                    return "RSP", c
            for b in bases:
                self._spill_region(b)
        return None, None

    def load(self, addr, nbytes):
        addr = simp(addr)
        k, off = self._route(addr)
        if k is not None and k in self.m.volatile:
            # a shared cell: other threads may have changed it since the last access, every read is a fresh value
            v = self.m.fresh_bv("shared_%s_%d" % (k[1:], off), 8 * nbytes)
            self.events.append(Event("vload", region=k, off=off, size=nbytes, value=v))
            return v
        if k is not None:
            reg = self.regions.get(k)
            if reg is None:
                reg = self.regions[k] = {}
            e0 = reg.get(off)
            if e0 is not None and e0[0].size() >= 8 * (e0[1] + nbytes):
                w, k0 = e0
                if all((lambda e: e is not None and e[1] == k0 + i and (e[0] is w or e[0].eq(w)))(reg.get(off + i)) for i in range(1, nbytes)):
                    if k0 == 0 and w.size() == 8 * nbytes:
                        return w
                    e = simp(z3.Extract(8 * (k0 + nbytes) - 1, 8 * k0, w))
                    if nbytes == 1:
                        _PROV[e.get_id()] = (w, k0, e)
                    return e
            if nbytes == 8 and k.startswith("&") and self.base_arr is None and all(reg.get(off + i) is None for i in range(8)):
                a = self.m.data_reloc(k[1:], off)
                if a is not None:
                    return a
            bs = [self._rbyte(k, reg, off + i) for i in range(nbytes)]
            return simp(z3.Concat(*reversed(bs))) if nbytes > 1 else bs[0]
        # recent-store log: exact hit on the same address/size with only provably disjoint stores since
        for a2, w2, n2 in reversed(self.hlog):
            d = simp(addr - a2)
            if not z3.is_bv_value(d):
                break
            dv = d.as_signed_long()
            if dv == 0 and n2 == nbytes:
                return w2
            if dv >= n2 or dv <= -nbytes:
                continue
            break
        bs = [z3.Select(self.heap, simp(addr + bv(i))) for i in range(nbytes)]
        return simp(z3.Concat(*reversed(bs))) if nbytes > 1 else simp(bs[0])

    def store(self, addr, val, nbytes):
        addr = simp(addr)
        val = simp(val)
        k, off = self._route(addr)
        if k is not None and k in self.m.volatile:
            self.events.append(Event("vstore", region=k, off=off, size=nbytes, value=val, atomic=self.in_atomic))
            return
        if k is not None:
            reg = self.regions.get(k)
            if reg is None:
                reg = self.regions[k] = {}
            elif k not in self.owned:
                reg = self.regions[k] = dict(reg)
            self.owned.add(k)
            if nbytes == 1:
                hit = _PROV.get(val.get_id())
                if hit is not None:
                    reg[off] = (hit[0], hit[1])     # a byte copied out of a larger word keeps its provenance
                    return
            for i in range(nbytes):
                reg[off + i] = (val, i)
            return
        h = self.heap
        for i in range(nbytes):
            h = z3.Store(h, simp(addr + bv(i)), simp(z3.Extract(8 * i + 7, 8 * i, val)) if nbytes > 1 else val)
        self.heap = h
        self.hlog.append((addr, val, nbytes))
        if len(self.hlog) > 64:
            self.hlog = self.hlog[-64:]

    def ea(self, op):
        if op.seg == "fs":
            return simp(z3.Select(self.m.FSMEM, bv(op.disp)))  # %fs:0 -> thread pointer (opaque)
        a = bv(op.disp or 0)
        if op.sym:
            a = a + self.m.symaddr(op.sym, op.mod)
        if op.base and op.base != "rip":
            a = a + self.regs[op.base]
        if op.index:
            a = a + self.regs[op.index] * bv(op.scale or 1)
        return simp(a)

    # ---- generic operand access ------------------------------------------------------
    def read(self, op, size):
        if op.kind == "reg":
            if op.size != size:
                raise Unmodelled("operand size mismatch")
            return self.get(op)
        if op.kind == "imm":
            v = bv(op.imm, size) if op.sym is None else z3.Extract(size - 1, 0, self.m.symaddr(op.sym, op.mod) + bv(op.imm))
            return v
        if op.kind == "mem":
            if op.sym and op.mod == "@GOTPCREL":
                # GOT slot: contains the address of sym
                return self.m.symaddr(op.sym, None) if size == 64 else z3.Extract(size - 1, 0, self.m.symaddr(op.sym, None))
            if op.seg == "fs":
                return self.m.TP if size == 64 else z3.Extract(size - 1, 0, self.m.TP)
            return self.load(self.ea(op), size // 8)
        raise Unmodelled("read of " + repr(op))

    def write(self, op, val, size):
        if op.kind == "reg":
            if op.size != size:
                raise Unmodelled("operand size mismatch")
            self.set(op, val)
        elif op.kind == "mem":
            self.store(self.ea(op), val, size // 8)
        else:
            raise Unmodelled("write of " + repr(op))

    # ---- flags -----------------------------------------------------------------------
    def flag(self, name):
        f = self.flags.get(name)
        if f is None:
            f = self.m.fresh_bool("undef_" + name)
            self.flags[name] = f
        return f

    def undef_flags(self, names=("ZF", "SF", "CF", "OF", "PF")):
        for n in names:
            self.flags[n] = None

    def set_result_flags(self, res, size):
        self.flags["ZF"] = simp(res == bv(0, size))
        self.flags["SF"] = simp(z3.Extract(size - 1, size - 1, res) == bv(1, 1))
        lo = z3.Extract(7, 0, res)
        par = z3.Extract(0, 0, lo)
        for i in range(1, 8):
            par = par ^ z3.Extract(i, i, lo)
        self.flags["PF"] = simp(par == bv(0, 1))

    def cond(self, cc):
        F = self.flag
        if cc in ("e", "z"):
            return F("ZF")
        if cc in ("ne", "nz"):
            return z3.Not(F("ZF"))
        if cc == "l":
            return F("SF") != F("OF")
        if cc == "ge":
            return F("SF") == F("OF")
        if cc == "le":
            return z3.Or(F("ZF"), F("SF") != F("OF"))
        if cc == "g":
            return z3.And(z3.Not(F("ZF")), F("SF") == F("OF"))
        if cc in ("b", "c"):
            return F("CF")
        if cc in ("ae", "nc"):
            return z3.Not(F("CF"))
        if cc == "be":
            return z3.Or(F("CF"), F("ZF"))
        if cc == "a":
            return z3.And(z3.Not(F("CF")), z3.Not(F("ZF")))
        if cc == "s":
            return F("SF")
        if cc == "ns":
            return z3.Not(F("SF"))
        if cc == "p":
            return F("PF")
        if cc == "np":
            return z3.Not(F("PF"))
        raise Unmodelled("condition " + cc)


ALU = {"add", "sub", "and", "or", "xor", "cmp", "test"}
SUFFIX = {"b": 8, "w": 16, "l": 32, "q": 64}
JCC = {"je", "jne", "jz", "jnz", "jl", "jle", "jg", "jge", "jb", "jbe", "ja", "jae", "js", "jns", "jp", "jnp"}
SETCC = {"sete", "setne", "setl", "setle", "setg", "setge", "setb", "setbe", "seta", "setae", "setp", "setnp",
         "setz", "setnz"}


_FPBITS = {}     # ast id of a bit-vector term -> (FP term it is the IEEE/x87 image of, keepalive)


def fp2bv(v):
    """IEEE image of an FP term, remembered so that bv2fp() gives the same FP term back
    (z3 does not rewrite to_fp(to_ieee_bv(x)) to x, although it is valid for every x incl. NaN)."""
    b = simp(z3.fpToIEEEBV(v))
    _FPBITS[b.get_id()] = (v, b)
    return b


def bv2fp(b, sort):
    b = simp(b)
    hit = _FPBITS.get(b.get_id())
    if hit is not None and hit[0].sort() == sort:
        return hit[0]
    return z3.fpBVToFP(b, sort)


def strip_ext(v):
    """v (BV) -> (narrow, signed) such that v is the sign- (signed=True) or zero-extension of narrow."""
    v = simp(v)
    if z3.is_app_of(v, z3.Z3_OP_SIGN_EXT):
        return v.arg(0), True
    if z3.is_app_of(v, z3.Z3_OP_ZERO_EXT):
        return v.arg(0), False
    if z3.is_app_of(v, z3.Z3_OP_CONCAT) and v.num_args() == 2 and z3.is_bv_value(v.arg(0)) and v.arg(0).as_long() == 0:
        return v.arg(1), False
    return v, True


def int2fp_signed(v, sort):
    """signed integer -> FP (round to nearest), canonicalised on the narrowest source term"""
    n, sg = strip_ext(v)
    if n.size() == v.size():
        return z3.fpSignedToFP(RNE, v, sort)
    return z3.fpSignedToFP(RNE, n, sort) if sg else z3.fpUnsignedToFP(RNE, n, sort)


def x87_from_bits(b80):
    """80-bit memory image -> FP(15,64) value (assumes canonical encoding: integer bit = (exp != 0))."""
    b80 = simp(b80)
    hit = _FPBITS.get(b80.get_id())
    if hit is not None and hit[0].sort() == X87:
        return hit[0]
    s = z3.Extract(79, 79, b80)
    e = z3.Extract(78, 64, b80)
    f = z3.Extract(62, 0, b80)
    return z3.fpBVToFP(z3.Concat(s, e, f), X87)


def x87_to_bits(v):
    b = z3.fpToIEEEBV(v)
    s = z3.Extract(78, 78, b)
    e = z3.Extract(77, 63, b)
    f = z3.Extract(62, 0, b)
    j = z3.If(e == bv(0, 15), bv(0, 1), bv(1, 1))
    r = simp(z3.Concat(s, e, j, f))
    _FPBITS[r.get_id()] = (v, r)
    return r


def x87_canonical(b80):
    e = z3.Extract(78, 64, b80)
    j = z3.Extract(63, 63, b80)
    return j == z3.If(e == bv(0, 15), bv(0, 1), bv(1, 1))


def rm_from_cw(cw):
    rc = simp(z3.Extract(11, 10, cw))
    if z3.is_bv_value(rc):
        return [z3.RNE(), z3.RTN(), z3.RTP(), z3.RTZ()][rc.as_long()]
    return None


def fp_to_int(rm, x, nbits, srcsort):
    """x86 float->signed int conversion: out of range / NaN -> 'integer indefinite' (0x80..0)."""
    lo = z3.fpToFP(RNE, bv(-(1 << (nbits - 1)), nbits), srcsort) if True else None
    lo = z3.fpSignedToFP(RNE, bv(-(1 << (nbits - 1)), nbits), srcsort)
    r = z3.fpRoundToIntegral(rm, x)
    # in range iff -2^(n-1) <= r < 2^(n-1); 2^(n-1) is exactly representable in all source formats
    hi = z3.fpNeg(lo)
    ok = z3.And(z3.Not(z3.fpIsNaN(x)), z3.Not(z3.fpIsInf(x)), z3.fpGEQ(r, lo), z3.fpLT(r, hi))
    return z3.If(ok, z3.fpToSBV(rm, x, z3.BitVecSort(nbits)), bv(1 << (nbits - 1), nbits))


class Machine:
    def __init__(self, prog, max_visits=4, max_steps=20000, solver_timeout_ms=20000, extern_ret=None):
        self.prog = prog
        self.max_visits = max_visits
        self.max_steps = max_steps
        self.rsp_tag = "RSP0!"
        self.RSP0 = z3.BitVec(self.rsp_tag, 64)
        self.M0 = z3.Array("M0", z3.BitVecSort(64), z3.BitVecSort(8))
        self.FSMEM = z3.Array("FSMEM", z3.BitVecSort(64), z3.BitVecSort(64))      # %fs:disp -> 64-bit word (disp 0: the thread pointer)
        self.TP = z3.BitVec("TP", 64)
        self.syms = {}
        self.nfresh = 0
        self.extern_ret = extern_ret or {}   # name -> 'int'|'sse32'|'sse64'|'x87'|'void'|callable
        self.assumes = []                    # global assumptions (symbol distinctness etc.)
        self.solver_timeout_ms = solver_timeout_ms
        self.insn_count = {}
        self.solver_checks = 0
        self._sem_cache = {}
        self._data_img = {}
        self._data_reloc = {}
        self.volatile = set()             # region keys ("&sym") of shared cells: reads are fresh, writes are events
        self.cut_loops = False            # True: a path that exceeds the unrolling bound is cut (marked), not an error

    def semantic_rsp_offset(self, addr, pc):
        """addr mentions RSP0 but is not syntactically RSP0+const (e.g. ((RSP0+31)/8)*8). With the psABI
        entry alignment RSP0 = 8 (mod 16) it may still be a constant offset: guess it by evaluating at one
        aligned value and let the solver confirm it for all aligned values."""
        key = addr.get_id()
        if key in self._sem_cache:
            return self._sem_cache[key][0]
        res = None
        try:
            probe = bv(0x00007ffd12345008)
            v = simp(z3.substitute(addr, (self.RSP0, probe)))
            if z3.is_bv_value(v):
                c = (v.as_long() - probe.as_long()) & ((1 << 64) - 1)
                if c >= 1 << 63:
                    c -= 1 << 64
                if -(1 << 24) < c < (1 << 24):
                    sol = z3.Solver()
                    sol.set("timeout", 5000)
                    sol.add(z3.Extract(3, 0, self.RSP0) == bv(8, 4))
                    sol.add(addr != self.RSP0 + bv(c))
                    self.solver_checks += 1
                    if sol.check() == z3.unsat:
                        res = c
        except Exception:
            res = None
        self._sem_cache[key] = (res, addr)
        return res

    def data_byte(self, sym, off):
        """initial value of byte `off` of a data object defined in this translation unit (None if unknown)"""
        if sym not in self.prog.data:
            return None
        img = self._data_img.get(sym)
        if img is None:
            img = []
            for it in self.prog.data[sym]:
                if it[0] == "byte":
                    img.append(bv(it[1] & 0xff, 8))
                elif it[0] == "zero":
                    img.extend([bv(0, 8)] * it[1])
                elif it[0] == "quadv":
                    img.extend([bv((it[1] >> (8 * i)) & 0xff, 8) for i in range(8)])
                elif it[0] == "quad":
                    a = simp(self.symaddr(it[1]) + bv(it[2]))
                    self._data_reloc.setdefault(sym, {})[len(img)] = a      # an address constant is loaded as a whole
                    img.extend([simp(z3.Extract(8 * i + 7, 8 * i, a)) for i in range(8)])
            self._data_img[sym] = img
        if 0 <= off < len(img):
            return img[off]
        return None

    def data_reloc(self, sym, off):
        """the address constant (`.quad label+addend`) stored at byte offset `off` of data object `sym`, or None"""
        if self.data_byte(sym, off) is None:
            return None
        return self._data_reloc.get(sym, {}).get(off)

    def static_frame_size(self, s):
        """N of the prologue's `sub $N, %rsp` of the function being executed"""
        name = s.callstack[-1][0] if s.callstack else None
        start = self.prog.funcs.get(self.entry_func)
        if start is None:
            return None
        for ins in self.prog.insns[start:start + 4]:
            if ins.mn == "sub" and len(ins.ops) == 2 and ins.ops[0].kind == "imm" and ins.ops[1].kind == "reg" and ins.ops[1].reg == "rsp":
                return ins.ops[0].imm
        return None

    def fresh_bool(self, tag):
        self.nfresh += 1
        return z3.Bool("%s!%d" % (tag, self.nfresh))

    def fresh_bv(self, tag, n=64):
        self.nfresh += 1
        return z3.BitVec("%s!%d" % (tag, self.nfresh), n)

    def symaddr(self, sym, mod=None):
        key = sym + (mod or "") if mod in ("@tpoff", "@tlsgd") else sym
        if key not in self.syms:
            self.syms[key] = z3.BitVec("&" + key, 64)
        return self.syms[key]

    def initial_state(self, func):
        s = State(self)
        for r in GPR64:
            s.regs[r] = z3.BitVec("in_" + r, 64)
        s.regs["rsp"] = self.RSP0
        for i in range(16):
            s.xmm[i] = z3.BitVec("in_xmm%d" % i, 64)
        s.heap = self.M0
        s.ip = self.prog.funcs[func] if self.prog.funcs.get(func) is not None else self.prog.labels[func]
        s.callstack = [("<entry>", None)]
        # return address slot content is opaque
        return s

    # ------------------------------------------------------------------------------------
    def feasible(self, conds):
        c = simp(z3.And(*conds)) if conds else z3.BoolVal(True)
        if z3.is_true(c):
            return True
        if z3.is_false(c):
            return False
        sol = z3.Solver()
        sol.set("timeout", self.solver_timeout_ms)
        sol.add(*self.assumes)
        sol.add(c)
        self.solver_checks += 1
        r = sol.check()
        if r == z3.unsat:
            return False
        return True  # sat or unknown: keep the path (sound)

    def run(self, func, init=None, stop_at_events=None):
        """Explore all paths from the entry of `func`. Returns list of final States
        (at the function's own `ret`)."""
        self.entry_func = func
        s0 = self.initial_state(func)
        if init:
            init(s0)
        work = [s0]
        finals = []
        while work:
            s = work.pop()
            while not s.done:
                if s.steps > self.max_steps:
                    raise BoundExceeded("step bound %d exceeded" % self.max_steps)
                s.steps += 1
                if s.ip >= len(self.prog.insns):
                    raise Unmodelled("fell off the end of the text section")
                ins = self.prog.insns[s.ip]
                forks = self.step(s, ins)
                if forks:
                    work.extend(forks)
            finals.append(s)
        return finals

    # ------------------------------------------------------------------------------------
    def branch(self, s, ins, cond, target):
        """Conditional branch: returns list of forked states (s continues as fallthrough or taken)."""
        cond = simp(cond)
        key = s.ip
        if z3.is_true(cond):
            s.visits[key] = s.visits.get(key, 0) + 1
            if s.visits[key] > self.max_visits * 8:
                raise BoundExceeded("concrete loop bound exceeded at `%s`" % ins.raw)
            s.ip = target
            return []
        if z3.is_false(cond):
            s.ip += 1
            return []
        s.visits[key] = s.visits.get(key, 0) + 1
        if s.visits[key] > self.max_visits:
            if self.cut_loops:
                s.done = True
                s.cut = True
                return []
            raise BoundExceeded("loop unrolling bound %d exceeded at `%s` (line %d)" % (self.max_visits, ins.raw, ins.line))
        t_ok = self.feasible(s.pc + [cond])
        f_ok = self.feasible(s.pc + [z3.Not(cond)])
        forks = []
        if t_ok and f_ok:
            t = s.copy()
            t.pc.append(cond)
            t.ip = target
            forks.append(t)
            s.pc.append(simp(z3.Not(cond)))
            s.ip += 1
        elif t_ok:
            s.pc.append(cond)
            s.ip = target
        elif f_ok:
            s.pc.append(simp(z3.Not(cond)))
            s.ip += 1
        else:
            s.done = True
            s.dead = True
        return forks

    def step(self, s, ins):
        mn, ops = ins.mn, ins.ops
        self.insn_count[mn] = self.insn_count.get(mn, 0) + 1
        h = getattr(self, "i_" + mn.replace(".", "_"), None)
        if h is not None:
            r = h(s, ins)
            return r or []
        # suffix forms / families
        if mn in JCC:
            tgt = self.prog.resolve(ops[0].label, s.ip)
            if tgt is None:
                raise Unmodelled("jump target " + ops[0].label)
            return self.branch(s, ins, s.cond(mn[1:]), tgt)
        if mn in SETCC:
            c = s.cond(mn[3:])
            s.write(ops[0], z3.If(c, bv(1, 8), bv(0, 8)), 8)
            s.ip += 1
            return []
        base, size = self.base_size(mn, ops)
        h = getattr(self, "g_" + base, None)
        if h is None:
            raise Unmodelled("mnemonic `%s`" % ins.raw)
        h(s, ins, size)
        s.ip += 1
        return []

    def base_size(self, mn, ops):
        bases = ("mov", "add", "sub", "and", "or", "xor", "cmp", "test", "shl", "shr", "sar", "neg", "not", "inc",
                 "dec", "imul", "div", "idiv", "lea", "xchg", "cmpxchg", "push", "pop")
        if mn in bases:
            for o in reversed(ops):
                if o.kind == "reg":
                    return mn, o.size
            if mn in ("push", "pop"):
                return mn, 64
            raise Unmodelled("cannot size `%s`" % mn)
        if mn[:-1] in bases and mn[-1] in SUFFIX:
            return mn[:-1], SUFFIX[mn[-1]]
        raise Unmodelled("mnemonic `%s`" % mn)

    # ---- data movement -----------------------------------------------------------------
    def g_mov(self, s, ins, size):
        src, dst = ins.ops
        if src.kind == "xmm" or dst.kind == "xmm":
            return self._movq_xmm(s, src, dst)
        if src.kind == "imm" and size == 64 and dst.kind == "mem" and src.sym is None:
            # movq $imm32, mem : sign-extended 32-bit immediate
            if not (-(1 << 31) <= src.imm < (1 << 31)):
                raise Unmodelled("64-bit immediate to memory")
        s.write(dst, s.read(src, size), size)

    def _movq_xmm(self, s, src, dst):
        if src.kind == "reg" and dst.kind == "xmm":
            s.xmm[dst.reg] = s.get(src) if src.size == 64 else None
            if src.size != 64:
                raise Unmodelled("movq from non-64 reg")
        elif src.kind == "xmm" and dst.kind == "reg":
            s.set(dst, s.xmm[src.reg])
        elif src.kind == "xmm" and dst.kind == "mem":
            s.store(s.ea(dst), s.xmm[src.reg], 8)
        elif src.kind == "mem" and dst.kind == "xmm":
            s.xmm[dst.reg] = s.load(s.ea(src), 8)
        elif src.kind == "xmm" and dst.kind == "xmm":
            s.xmm[dst.reg] = s.xmm[src.reg]
        else:
            raise Unmodelled("movq form")

    def i_movd(self, s, ins):
        """movd between a 32-bit general-purpose register and the low dword of an xmm register (upper bits zeroed)"""
        src, dst = ins.ops
        if src.kind == "reg" and dst.kind == "xmm" and src.size == 32:
            s.xmm[dst.reg] = simp(z3.ZeroExt(32, s.get(src)))
        elif src.kind == "xmm" and dst.kind == "reg" and dst.size == 32:
            s.set(dst, simp(z3.Extract(31, 0, s.xmm[src.reg])))
        else:
            raise Unmodelled("movd form")
        s.ip += 1

    def i_movq(self, s, ins):
        src, dst = ins.ops
        if src.kind == "xmm" or dst.kind == "xmm":
            self._movq_xmm(s, src, dst)
        else:
            self.g_mov(s, ins, 64)
        s.ip += 1

    def _movx(self, s, ins, frm, to, signed):
        src, dst = ins.ops
        v = s.read(src, frm)
        if dst.kind != "reg":
            raise Unmodelled("movx to non-register")
        if dst.size != to:
            raise Unmodelled("movx destination size")
        s.set(dst, z3.SignExt(to - frm, v) if signed else z3.ZeroExt(to - frm, v))
        s.ip += 1

    def i_movsbl(self, s, ins): self._movx(s, ins, 8, 32, True)
    def i_movzbl(self, s, ins): self._movx(s, ins, 8, 32, False)
    def i_movswl(self, s, ins): self._movx(s, ins, 16, 32, True)
    def i_movzwl(self, s, ins): self._movx(s, ins, 16, 32, False)
    def i_movsbq(self, s, ins): self._movx(s, ins, 8, 64, True)
    def i_movzbq(self, s, ins): self._movx(s, ins, 8, 64, False)
    def i_movswq(self, s, ins): self._movx(s, ins, 16, 64, True)
    def i_movzwq(self, s, ins): self._movx(s, ins, 16, 64, False)
    def i_movslq(self, s, ins): self._movx(s, ins, 32, 64, True)
    def i_movsxd(self, s, ins): self._movx(s, ins, 32, 64, True)

    def i_movzx(self, s, ins):
        src, dst = ins.ops
        frm = src.size if src.kind == "reg" else None
        if frm is None:
            raise Unmodelled("movzx from memory without size")
        self._movx(s, ins, frm, dst.size, False)

    def i_movzb(self, s, ins):
        self._movx(s, ins, 8, ins.ops[1].size, False)

    def g_lea(self, s, ins, size):
        src, dst = ins.ops
        if src.kind != "mem":
            raise Unmodelled("lea")
        if src.sym and src.mod == "@tlsgd":
            raise Unmodelled("TLS general-dynamic sequence")
        s.write(dst, s.ea(src) if size == 64 else z3.Extract(size - 1, 0, s.ea(src)), size)

    def g_push(self, s, ins, size):
        v = s.read(ins.ops[0], 64)
        s.regs["rsp"] = simp(s.regs["rsp"] - bv(8))
        s.store(s.regs["rsp"], v, 8)

    def g_pop(self, s, ins, size):
        v = s.load(s.regs["rsp"], 8)
        s.regs["rsp"] = simp(s.regs["rsp"] + bv(8))
        s.write(ins.ops[0], v, 64)

    def g_xchg(self, s, ins, size):
        a, b = ins.ops
        ismem = b.kind == "mem" or a.kind == "mem"
        if ismem:
            s.in_atomic = "xchg"          # xchg with a memory operand is implicitly locked
        va, vb = s.read(a, size), s.read(b, size)
        if ismem:
            mem = b if b.kind == "mem" else a
            s.events.append(Event("atomic", op="xchg", addr=s.ea(mem), size=size, observed=(vb if b.kind == "mem" else va),
                                  new=(va if b.kind == "mem" else vb), locked=True))
        s.write(a, vb, size)
        s.write(b, va, size)
        s.in_atomic = None

    def g_cmpxchg(self, s, ins, size):
        src, dst = ins.ops   # cmpxchg %reg, mem : compare acc with mem
        acc = Op("reg", reg="rax", size=size, shift=0)
        a = s.get(acc)
        s.in_atomic = "cmpxchg" if ins.prefix == "lock" else None
        mval = s.read(dst, size)
        eq = simp(a == mval)
        if dst.kind == "mem":
            s.events.append(Event("atomic", op="cmpxchg", addr=s.ea(dst), size=size, locked=(ins.prefix == "lock"),
                                  observed=mval, expected=a, new=s.read(src, size), success=eq))
        self._sub_flags(s, a, mval, size)
        newmem = z3.If(eq, s.read(src, size), mval)
        newacc = z3.If(eq, a, mval)
        s.write(dst, simp(newmem), size)
        s.in_atomic = None
        # on failure the accumulator is loaded (32-bit form zero-extends only when written)
        if size == 32:
            old = s.regs["rax"]
            s.regs["rax"] = simp(z3.If(eq, old, z3.ZeroExt(32, mval)))
        else:
            s.set(acc, simp(newacc))

    # ---- ALU ---------------------------------------------------------------------------
    def _sub_flags(self, s, d, r, size):
        res = simp(d - r)
        s.set_result_flags(res, size)
        s.flags["CF"] = simp(z3.ULT(d, r))
        sd, sr, sres = [z3.Extract(size - 1, size - 1, x) for x in (d, r, res)]
        s.flags["OF"] = simp(z3.And(sd != sr, sres != sd))
        return res

    def _add_flags(self, s, d, r, size):
        res = simp(d + r)
        s.set_result_flags(res, size)
        s.flags["CF"] = simp(z3.ULT(res, d))
        sd, sr, sres = [z3.Extract(size - 1, size - 1, x) for x in (d, r, res)]
        s.flags["OF"] = simp(z3.And(sd == sr, sres != sd))
        return res

    def _imm_ok(self, ins, size):
        src = ins.ops[0]
        if src.kind == "imm" and src.sym is None and size == 64:
            if not (-(1 << 31) <= src.imm < (1 << 31)):
                # the assembler rejects / cannot encode a 64-bit immediate here
                raise Unmodelled("ASSEMBLER-REJECT: immediate %d does not fit in 32 bits in `%s`" % (src.imm, ins.raw))

    def g_add(self, s, ins, size):
        self._imm_ok(ins, size)
        src, dst = ins.ops
        s.write(dst, self._add_flags(s, s.read(dst, size), s.read(src, size), size), size)

    def g_sub(self, s, ins, size):
        self._imm_ok(ins, size)
        src, dst = ins.ops
        s.write(dst, self._sub_flags(s, s.read(dst, size), s.read(src, size), size), size)
        if dst.kind == "reg" and dst.reg == "rsp" and size == 64 and src.kind == "reg":
            # the stack pointer moved by a run-time amount (alloca / VLA). The new stack top is a fresh region:
            # nothing else lives below it, and the temporaries relocated to [new rsp, new rsp + rcx) stay below
            # every object of the static frame because the amount is non-negative (size < 2^31 is a stated bound).
            k, o = s._decompose(simp(s.regs["rsp"]))
            if k is None and not s.spilled:
                tmp = simp(s.regs["rcx"])
                limit = tmp.as_long() if z3.is_bv_value(tmp) and tmp.as_long() < (1 << 16) else 0
                s.dyn_bases.append(("DYN%d" % len(s.dyn_bases), simp(s.regs["rsp"]), limit))

    def g_cmp(self, s, ins, size):
        self._imm_ok(ins, size)
        src, dst = ins.ops
        self._sub_flags(s, s.read(dst, size), s.read(src, size), size)

    def _logic(self, s, ins, size, f, write=True):
        self._imm_ok(ins, size)
        src, dst = ins.ops
        res = simp(f(s.read(dst, size), s.read(src, size)))
        s.set_result_flags(res, size)
        s.flags["CF"] = z3.BoolVal(False)
        s.flags["OF"] = z3.BoolVal(False)
        if write:
            s.write(dst, res, size)

    def g_and(self, s, ins, size): self._logic(s, ins, size, lambda a, b: a & b)
    def g_or(self, s, ins, size): self._logic(s, ins, size, lambda a, b: a | b)
    def g_xor(self, s, ins, size): self._logic(s, ins, size, lambda a, b: a ^ b)
    def g_test(self, s, ins, size): self._logic(s, ins, size, lambda a, b: a & b, write=False)

    def g_neg(self, s, ins, size):
        d = s.read(ins.ops[0], size)
        res = self._sub_flags(s, bv(0, size), d, size)
        s.write(ins.ops[0], res, size)

    def g_not(self, s, ins, size):
        s.write(ins.ops[0], simp(~s.read(ins.ops[0], size)), size)

    def g_inc(self, s, ins, size):
        cf = s.flags.get("CF")
        res = self._add_flags(s, s.read(ins.ops[0], size), bv(1, size), size)
        s.flags["CF"] = cf
        s.write(ins.ops[0], res, size)

    def g_dec(self, s, ins, size):
        cf = s.flags.get("CF")
        res = self._sub_flags(s, s.read(ins.ops[0], size), bv(1, size), size)
        s.flags["CF"] = cf
        s.write(ins.ops[0], res, size)

    def _shift(self, s, ins, size, kind):
        if len(ins.ops) == 1:
            cnt, dst = bv(1, 8), ins.ops[0]
        else:
            c, dst = ins.ops
            if c.kind == "imm":
                cnt = bv(c.imm & 0xff, 8)
            elif c.kind == "reg" and c.reg == "rcx" and c.size == 8 and c.shift == 0:
                cnt = s.get(c)
            else:
                raise Unmodelled("shift count operand")
        mask = 63 if size == 64 else 31
        cnt = simp(cnt & bv(mask, 8))
        n = z3.ZeroExt(size - 8, cnt)
        d = s.read(dst, size)
        if kind == "shl":
            res = d << n
        elif kind == "shr":
            res = z3.LShR(d, n)
        else:
            res = d >> n
        res = simp(res)
        # flags: unchanged if count==0, otherwise result flags; CF/OF not modelled -> undefined
        if z3.is_bv_value(cnt) and cnt.as_long() == 0:
            pass
        else:
            s.undef_flags()
        s.write(dst, res, size)

    def g_shl(self, s, ins, size): self._shift(s, ins, size, "shl")
    def g_shr(self, s, ins, size): self._shift(s, ins, size, "shr")
    def g_sar(self, s, ins, size): self._shift(s, ins, size, "sar")

    def g_imul(self, s, ins, size):
        if len(ins.ops) != 2:
            raise Unmodelled("imul form")
        src, dst = ins.ops
        s.write(dst, simp(s.read(dst, size) * s.read(src, size)), size)
        s.undef_flags()

    def _divide(self, s, ins, size, signed):
        src = ins.ops[0]
        dv = s.read(src, size)
        ax = Op("reg", reg="rax", size=size, shift=0)
        dx = Op("reg", reg="rdx", size=size, shift=0)
        lo, hi = s.get(ax), s.get(dx)
        s.undef_flags()
        if not signed and z3.is_bv_value(simp(hi)) and simp(hi).as_long() == 0:
            s.traps.append(simp(dv == bv(0, size)))
            q, r = z3.UDiv(lo, dv), z3.URem(lo, dv)
        elif signed and simp(hi).eq(simp(lo >> bv(size - 1, size))):
            s.traps.append(simp(z3.Or(dv == bv(0, size),
                                      z3.And(lo == bv(1 << (size - 1), size), dv == bv(-1, size)))))
            q, r = lo / dv, z3.SRem(lo, dv)
        else:
            wide = z3.Concat(hi, lo)
            if signed:
                dvw = z3.SignExt(size, dv)
                qw, rw = wide / dvw, z3.SRem(wide, dvw)
                fits = z3.SignExt(size, z3.Extract(size - 1, 0, qw)) == qw
            else:
                dvw = z3.ZeroExt(size, dv)
                qw, rw = z3.UDiv(wide, dvw), z3.URem(wide, dvw)
                fits = z3.Extract(2 * size - 1, size, qw) == bv(0, size)
            s.traps.append(simp(z3.Or(dv == bv(0, size), z3.Not(fits))))
            q, r = z3.Extract(size - 1, 0, qw), z3.Extract(size - 1, 0, rw)
        s.set(ax, simp(q))
        s.set(dx, simp(r))

    def g_div(self, s, ins, size): self._divide(s, ins, size, False)
    def g_idiv(self, s, ins, size): self._divide(s, ins, size, True)

    def i_cqo(self, s, ins):
        s.regs["rdx"] = simp(s.regs["rax"] >> bv(63))
        s.ip += 1

    def i_cdq(self, s, ins):
        eax = z3.Extract(31, 0, s.regs["rax"])
        s.regs["rdx"] = simp(z3.ZeroExt(32, eax >> bv(31, 32)))
        s.ip += 1

    # ---- control -----------------------------------------------------------------------
    def i_jmp(self, s, ins):
        o = ins.ops[0]
        if o.indirect:
            tgt = simp(s.read(o, 64))
            cands = []
            for name, a in self.syms.items():
                idx = self.prog.labels.get(name)
                if idx is not None:
                    cands.append((name, a, idx))
            exact = [c for c in cands if c[1].eq(tgt)]
            if exact:
                s.ip = exact[0][2]        # the target is syntactically one label's address
                return []
            # distinct labels have distinct addresses
            if len(cands) > 1 and not getattr(self, "_labels_distinct", False):
                self.assumes.append(z3.Distinct(*[c[1] for c in cands]))
                self._labels_distinct = True
            forks = []
            notany = []
            for name, a, idx in cands:
                c = simp(tgt == a)
                if z3.is_false(c):
                    continue
                if self.feasible(s.pc + [c]):
                    t = s.copy()
                    t.pc.append(c)
                    t.ip = idx
                    forks.append(t)
                notany.append(z3.Not(c))
            # a jump to anything else is recorded as a wild jump event on a terminated path
            if self.feasible(s.pc + notany):
                s.pc.extend(notany)
                s.events.append(Event("wildjump", target=tgt))
                s.done = True
                s.wild = True
                return forks
            if not forks:
                s.done = True
                s.dead = True
                return []
            first = forks.pop()
            s.__dict__.update(first.__dict__)
            return forks
        tgt = self.prog.resolve(o.label, s.ip)
        if tgt is None:
            raise Unmodelled("jump target " + o.label)
        if tgt <= s.ip:
            key = ("jmp", s.ip)
            s.visits[key] = s.visits.get(key, 0) + 1
            if s.visits[key] > self.max_visits * 8:
                raise BoundExceeded("back-edge bound exceeded at `%s`" % ins.raw)
        s.ip = tgt
        return []

    def i_call(self, s, ins):
        o = ins.ops[0]
        if o.indirect:
            tgt = simp(s.read(o, 64))
        else:
            tgt = self.symaddr(o.label.split("@")[0])
        name = None
        for n, a in self.syms.items():
            if a.eq(tgt):
                name = n
        ev = Event("call", target=tgt, name=name, regs=dict(s.regs), xmm=dict(s.xmm), st=list(s.st),
                   state=s.copy(), ip=s.ip)
        s.events.append(ev)
        lim = getattr(self, "stop_after", {}).get(name)
        if lim is not None and sum(1 for e in s.events if e.kind == "call" and e.name == name) >= lim:
            s.done = True
            s.stopped = True
            return []
        inl = getattr(self, "inline", ())
        if name is not None and self.prog.funcs.get(name) is not None and (inl == "*" or name in inl):
            # inline a function defined in this file: push return address, continue there
            s.regs["rsp"] = simp(s.regs["rsp"] - bv(8))
            ra = self.fresh_bv("retaddr")
            s.store(s.regs["rsp"], ra, 8)
            s.callstack.append((name, s.ip + 1))
            s.ip = self.prog.funcs[name]
            return []
        # external call: havoc caller-saved state per the psABI
        spec = self.extern_ret.get(name, self.extern_ret.get("*", "int"))
        if callable(spec):
            spec(s, ev)
        else:
            for r in ("rax", "rcx", "rdx", "rsi", "rdi", "r8", "r9", "r10", "r11"):
                s.regs[r] = self.fresh_bv("clob_" + r)
            for i in range(16):
                s.xmm[i] = self.fresh_bv("clob_xmm%d" % i)
            s.undef_flags()
            if spec == "x87":
                nb = self.fresh_bv("ret_st0", 79)
                s.st.append(z3.fpBVToFP(nb, X87))
            # memory: the callee may write through any pointer it was given; we havoc the heap
            # (everything that is not in the private frame map).
            newheap = z3.Array("heap_after_call!%d" % self.nfresh, z3.BitVecSort(64), z3.BitVecSort(8))
            self.nfresh += 1
            if s.spilled:
                # frame lives in the array: the callee may not touch the caller's frame, so copy it over
                lo = s._stack_off(s.regs["rsp"])
                if lo is None:
                    # rsp moved by a run-time amount (alloca/VLA): the static frame below rbp is still the caller's;
                    # whatever lies between rsp and it (the alloca blocks) may be written by the callee through pointers
                    rb = s._stack_off(s.regs["rbp"])
                    fs = self.static_frame_size(s)
                    if rb is None or fs is None:
                        raise Unmodelled("external call after frame spill with symbolic rsp and unknown frame size")
                    lo = rb - fs
                if lo < -65536:
                    raise Unmodelled("external call after frame spill with huge frame")
                for off in range(lo, 136):
                    a = simp(self.RSP0 + bv(off))
                    newheap = z3.Store(newheap, a, z3.Select(s.heap, a))
            s.hlog = []
            s.heap = newheap
            # extern objects may be written by the callee: forget what we know about them
            for k in list(s.regions):
                if k != "RSP" and not k.startswith("DYN"):
                    s.regions[k] = {}
            s.base_arr = newheap
        ev.ret_rax = s.regs["rax"]
        s.ip += 1
        return []

    def i_ret(self, s, ins):
        name, retip = s.callstack.pop()
        s.regs["rsp"] = simp(s.regs["rsp"] + bv(8))
        if retip is None:
            s.done = True
        else:
            s.ip = retip
        return []

    def i_stosb(self, s, ins):
        if ins.prefix != "rep":
            raise Unmodelled("stosb without rep")
        cnt = simp(s.regs["rcx"])
        if not z3.is_bv_value(cnt):
            raise Unmodelled("rep stosb with symbolic count")
        n = cnt.as_long()
        if n > 4096:
            raise BoundExceeded("rep stosb of %d bytes" % n)
        al = z3.Extract(7, 0, s.regs["rax"])
        base = s.regs["rdi"]
        for i in range(n):
            s.store(base + bv(i), al, 1)
        s.regs["rdi"] = simp(base + bv(n))
        s.regs["rcx"] = bv(0)
        s.ip += 1

    def i__value(self, s, ins):
        raise Unmodelled("raw .value in text (TLS sequence)")

    def i_rex64(self, s, ins):
        raise Unmodelled("rex64 (TLS sequence)")

    # ---- SSE scalar ----------------------------------------------------------------------
    def _xmm_read(self, s, op, nbits):
        if op.kind == "xmm":
            v = s.xmm[op.reg]
            return z3.Extract(nbits - 1, 0, v) if nbits < 64 else v
        if op.kind == "mem":
            return s.load(s.ea(op), nbits // 8)
        raise Unmodelled("sse operand")

    def _xmm_write_low(self, s, r, val, nbits, zero_upper=False):
        if nbits == 64:
            s.xmm[r] = simp(val)
        elif zero_upper:
            s.xmm[r] = simp(z3.ZeroExt(32, val))
        else:
            s.xmm[r] = simp(z3.Concat(z3.Extract(63, 32, s.xmm[r]), val))

    def i_movss(self, s, ins):
        src, dst = ins.ops
        if dst.kind == "xmm":
            v = self._xmm_read(s, src, 32)
            self._xmm_write_low(s, dst.reg, v, 32, zero_upper=(src.kind == "mem"))
        else:
            s.store(s.ea(dst), z3.Extract(31, 0, s.xmm[src.reg]), 4)
        s.ip += 1

    def i_movsd(self, s, ins):
        src, dst = ins.ops
        if dst.kind == "xmm":
            s.xmm[dst.reg] = self._xmm_read(s, src, 64)
        else:
            s.store(s.ea(dst), s.xmm[src.reg], 8)
        s.ip += 1

    def _xorp(self, s, ins):
        src, dst = ins.ops
        s.xmm[dst.reg] = simp(s.xmm[dst.reg] ^ s.xmm[src.reg])
        s.ip += 1

    i_xorps = _xorp
    i_xorpd = _xorp
    i_pxor = _xorp

    def _ssearith(self, s, ins, nbits, f):
        src, dst = ins.ops
        sort = F32 if nbits == 32 else F64
        a = bv2fp(self._xmm_read(s, dst, nbits), sort)
        b = bv2fp(self._xmm_read(s, src, nbits), sort)
        r = fp2bv(f(RNE, a, b))
        self._xmm_write_low(s, dst.reg, r, nbits)
        s.ip += 1

    def i_addss(self, s, ins): self._ssearith(s, ins, 32, z3.fpAdd)
    def i_subss(self, s, ins): self._ssearith(s, ins, 32, z3.fpSub)
    def i_mulss(self, s, ins): self._ssearith(s, ins, 32, z3.fpMul)
    def i_divss(self, s, ins): self._ssearith(s, ins, 32, z3.fpDiv)
    def i_addsd(self, s, ins): self._ssearith(s, ins, 64, z3.fpAdd)
    def i_subsd(self, s, ins): self._ssearith(s, ins, 64, z3.fpSub)
    def i_mulsd(self, s, ins): self._ssearith(s, ins, 64, z3.fpMul)
    def i_divsd(self, s, ins): self._ssearith(s, ins, 64, z3.fpDiv)

    def _fpcmp_flags(self, s, a, b):
        """flags for comparing a (first/destination operand) with b: a>b 000, a<b CF, a==b ZF, unordered ZF PF CF"""
        un = z3.Or(z3.fpIsNaN(a), z3.fpIsNaN(b))
        s.flags["ZF"] = simp(z3.Or(un, z3.fpEQ(a, b)))
        s.flags["PF"] = simp(un)
        s.flags["CF"] = simp(z3.Or(un, z3.fpLT(a, b)))
        s.flags["OF"] = z3.BoolVal(False)
        s.flags["SF"] = z3.BoolVal(False)

    def _ucomi(self, s, ins, nbits):
        src, dst = ins.ops
        sort = F32 if nbits == 32 else F64
        a = bv2fp(self._xmm_read(s, dst, nbits), sort)
        b = bv2fp(self._xmm_read(s, src, nbits), sort)
        self._fpcmp_flags(s, a, b)
        s.ip += 1

    def i_ucomiss(self, s, ins): self._ucomi(s, ins, 32)
    def i_ucomisd(self, s, ins): self._ucomi(s, ins, 64)

    def _cvtsi2(self, s, ins, isize, fbits):
        src, dst = ins.ops
        v = s.read(src, isize)
        sort = F32 if fbits == 32 else F64
        r = fp2bv(int2fp_signed(v, sort))
        self._xmm_write_low(s, dst.reg, r, fbits)
        s.ip += 1

    def i_cvtsi2ssl(self, s, ins): self._cvtsi2(s, ins, 32, 32)
    def i_cvtsi2sdl(self, s, ins): self._cvtsi2(s, ins, 32, 64)
    def i_cvtsi2ssq(self, s, ins): self._cvtsi2(s, ins, 64, 32)
    def i_cvtsi2sdq(self, s, ins): self._cvtsi2(s, ins, 64, 64)

    def i_cvtsi2sd(self, s, ins):
        self._cvtsi2(s, ins, ins.ops[0].size, 64)

    def i_cvtsi2ss(self, s, ins):
        self._cvtsi2(s, ins, ins.ops[0].size, 32)

    def _cvtt2si(self, s, ins, fbits, isize):
        src, dst = ins.ops
        sort = F32 if fbits == 32 else F64
        x = bv2fp(self._xmm_read(s, src, fbits), sort)
        if dst.size != isize:
            raise Unmodelled("cvtt destination size")
        s.set(dst, simp(fp_to_int(RTZ, x, isize, sort)))
        s.ip += 1

    def i_cvttss2sil(self, s, ins): self._cvtt2si(s, ins, 32, 32)
    def i_cvttss2siq(self, s, ins): self._cvtt2si(s, ins, 32, 64)
    def i_cvttsd2sil(self, s, ins): self._cvtt2si(s, ins, 64, 32)
    def i_cvttsd2siq(self, s, ins): self._cvtt2si(s, ins, 64, 64)

    def i_cvtss2sd(self, s, ins):
        src, dst = ins.ops
        x = bv2fp(self._xmm_read(s, src, 32), F32)
        self._xmm_write_low(s, dst.reg, fp2bv(z3.fpFPToFP(RNE, x, F64)), 64)
        s.ip += 1

    def i_cvtsd2ss(self, s, ins):
        src, dst = ins.ops
        x = bv2fp(self._xmm_read(s, src, 64), F64)
        self._xmm_write_low(s, dst.reg, fp2bv(z3.fpFPToFP(RNE, x, F32)), 32)
        s.ip += 1

    # ---- x87 -----------------------------------------------------------------------------
    def _push87(self, s, v):
        if len(s.st) >= 8:
            raise X87Overflow("x87 register stack overflow: a 9th value is loaded while 8 are pending (result becomes NaN)")
        s.st.append(v)

    def _pop87(self, s):
        if not s.st:
            raise X87Underflow("x87 stack underflow (value popped that this function did not push)")
        return s.st.pop()

    def i_fldt(self, s, ins):
        b = s.load(s.ea(ins.ops[0]), 10)
        s.events.append(Event("fldt", bits=b))
        self._push87(s, x87_from_bits(b))
        s.ip += 1

    def i_fstpt(self, s, ins):
        v = self._pop87(s)
        s.store(s.ea(ins.ops[0]), simp(x87_to_bits(v)), 10)
        s.ip += 1

    def i_flds(self, s, ins):
        x = bv2fp(s.load(s.ea(ins.ops[0]), 4), F32)
        self._push87(s, z3.fpFPToFP(RNE, x, X87))
        s.ip += 1

    def i_fldl(self, s, ins):
        x = bv2fp(s.load(s.ea(ins.ops[0]), 8), F64)
        self._push87(s, z3.fpFPToFP(RNE, x, X87))
        s.ip += 1

    def i_fldz(self, s, ins):
        self._push87(s, z3.fpPlusZero(X87))
        s.ip += 1

    def _fild(self, s, ins, n):
        v = s.load(s.ea(ins.ops[0]), n // 8)
        self._push87(s, int2fp_signed(v, X87))
        s.ip += 1

    def i_fildl(self, s, ins): self._fild(s, ins, 32)
    def i_fildll(self, s, ins): self._fild(s, ins, 64)
    def i_fildq(self, s, ins): self._fild(s, ins, 64)
    def i_filds(self, s, ins): self._fild(s, ins, 16)

    def _pc_rm(self, s):
        pc = simp(z3.Extract(9, 8, s.cw))
        if not (z3.is_bv_value(pc) and pc.as_long() == 3):
            raise Unmodelled("x87 precision control not extended")
        rm = rm_from_cw(s.cw)
        if rm is None:
            raise Unmodelled("symbolic x87 rounding control")
        return rm

    def i_fadds(self, s, ins):
        rm = self._pc_rm(s)
        x = z3.fpFPToFP(RNE, bv2fp(s.load(s.ea(ins.ops[0]), 4), F32), X87)
        a = self._pop87(s)
        s.st.append(z3.fpAdd(rm, a, x))
        s.ip += 1

    def i_fsubs(self, s, ins):
        rm = self._pc_rm(s)
        x = z3.fpFPToFP(RNE, bv2fp(s.load(s.ea(ins.ops[0]), 4), F32), X87)
        a = self._pop87(s)
        s.st.append(z3.fpSub(rm, a, x))
        s.ip += 1

    def _farith_p(self, s, ins, f):
        # GAS AT&T: faddp/fmulp: st1 = st1 op st0; fsubrp == Intel fsubp: st1 = st1 - st0;
        # fsubp == Intel fsubrp: st1 = st0 - st1 (the historical AT&T operand swap); same for fdiv.
        if ins.ops:
            raise Unmodelled("x87 arithmetic with explicit operands")
        rm = self._pc_rm(s)
        st0 = self._pop87(s)
        st1 = self._pop87(s)
        s.st.append(f(rm, st1, st0))
        s.ip += 1

    def i_faddp(self, s, ins): self._farith_p(s, ins, z3.fpAdd)
    def i_fmulp(self, s, ins): self._farith_p(s, ins, z3.fpMul)
    def i_fsubrp(self, s, ins): self._farith_p(s, ins, z3.fpSub)
    def i_fdivrp(self, s, ins): self._farith_p(s, ins, z3.fpDiv)
    def i_fsubp(self, s, ins): self._farith_p(s, ins, lambda rm, a, b: z3.fpSub(rm, b, a))
    def i_fdivp(self, s, ins): self._farith_p(s, ins, lambda rm, a, b: z3.fpDiv(rm, b, a))

    def i_fchs(self, s, ins):
        v = self._pop87(s)
        s.st.append(z3.fpNeg(v))
        s.ip += 1

    def _fcomip(self, s, ins):
        i = 1
        if ins.ops:
            if len(ins.ops) == 2 and ins.ops[0].kind == "st" and ins.ops[1].kind == "st" and ins.ops[1].reg == 0:
                i = ins.ops[0].reg
            else:
                raise Unmodelled("fcomip operand form")
        if len(s.st) < i + 1 or i < 1:
            raise Unmodelled("x87 stack underflow in compare")
        st0, st1 = s.st[-1], s.st[-1 - i]
        self._fpcmp_flags(s, st0, st1)
        s.st.pop()
        s.ip += 1

    i_fcomip = _fcomip
    i_fucomip = _fcomip

    def i_fstp(self, s, ins):
        o = ins.ops[0]
        if o.kind == "st" and o.reg == 0:
            self._pop87(s)
            s.ip += 1
        else:
            raise Unmodelled("fstp form")

    def i_fstps(self, s, ins):
        rm = self._pc_rm(s)
        v = self._pop87(s)
        s.store(s.ea(ins.ops[0]), fp2bv(z3.fpFPToFP(rm, v, F32)), 4)
        s.ip += 1

    def i_fstpl(self, s, ins):
        rm = self._pc_rm(s)
        v = self._pop87(s)
        s.store(s.ea(ins.ops[0]), fp2bv(z3.fpFPToFP(rm, v, F64)), 8)
        s.ip += 1

    def _fistp(self, s, ins, n):
        rm = rm_from_cw(s.cw)
        if rm is None:
            raise Unmodelled("symbolic x87 rounding control")
        v = self._pop87(s)
        s.store(s.ea(ins.ops[0]), simp(fp_to_int(rm, v, n, X87)), n // 8)
        s.ip += 1

    def _fist(self, s, ins, n):
        # non-popping store (fists/fistl): not printed by codegen.c today, kept in the vocabulary so that a
        # pop dropped by a typo (fistpl -> fistl) is decided as an x87 residue instead of "unmodelled"
        rm = rm_from_cw(s.cw)
        if rm is None:
            raise Unmodelled("symbolic x87 rounding control")
        if not s.st:
            raise X87Underflow("x87 stack underflow (value popped that this function did not push)")
        s.store(s.ea(ins.ops[0]), simp(fp_to_int(rm, s.st[-1], n, X87)), n // 8)
        s.ip += 1

    def i_fists(self, s, ins): self._fist(s, ins, 16)
    def i_fistl(self, s, ins): self._fist(s, ins, 32)

    def i_fistps(self, s, ins): self._fistp(s, ins, 16)
    def i_fistpl(self, s, ins): self._fistp(s, ins, 32)
    def i_fistpq(self, s, ins): self._fistp(s, ins, 64)
    def i_fistpll(self, s, ins): self._fistp(s, ins, 64)

    def i_fnstcw(self, s, ins):
        s.store(s.ea(ins.ops[0]), s.cw, 2)
        s.ip += 1

    def i_fldcw(self, s, ins):
        s.cw = s.load(s.ea(ins.ops[0]), 2)
        s.ip += 1


# ------------------------------------------------------------------------------------------
# Solving helpers
# ------------------------------------------------------------------------------------------
_ABS_KINDS = None


def _abs_kinds():
    global _ABS_KINDS
    if _ABS_KINDS is None:
        names = ["Z3_OP_BSDIV", "Z3_OP_BUDIV", "Z3_OP_BSREM", "Z3_OP_BUREM", "Z3_OP_BSMOD", "Z3_OP_BSDIV_I",
                 "Z3_OP_BUDIV_I", "Z3_OP_BSREM_I", "Z3_OP_BUREM_I", "Z3_OP_BSMOD_I", "Z3_OP_BMUL",
                 "Z3_OP_FPA_ADD", "Z3_OP_FPA_SUB", "Z3_OP_FPA_MUL", "Z3_OP_FPA_DIV"]
        _ABS_KINDS = {getattr(z3, n): n for n in names if hasattr(z3, n)}
    return _ABS_KINDS


def uf_abstract(exprs):
    """Replace non-linear bit-vector operators (mul of two non-constants, div, rem) by
    uninterpreted functions. The abstraction over-approximates: a proof of the abstracted
    formula is a proof of the original (functions are congruent)."""
    kinds = _abs_kinds()
    cache = {}
    ufs = {}

    def go(e):
        i = e.get_id()
        if i in cache:
            return cache[i]
        if not z3.is_app(e) or e.num_args() == 0:
            cache[i] = e
            return e
        ch = [go(c) for c in e.children()]
        k = e.decl().kind()
        r = None
        if k in kinds:
            if k == z3.Z3_OP_BMUL and any(z3.is_bv_value(c) for c in ch):
                r = None
            else:
                name = "%s_%s_%d" % (kinds[k].replace("_I", ""), str(e.sort()).replace(" ", ""), len(ch))
                if name not in ufs:
                    ufs[name] = z3.Function(name, *([c.sort() for c in ch] + [e.sort()]))
                r = ufs[name](*ch)
        if r is None:
            if all(a.eq(b) for a, b in zip(ch, e.children())):
                r = e
            else:
                try:
                    r = e.decl()(*ch)
                except Exception:
                    # n-ary/associative decls built pairwise
                    r = ch[0]
                    for c in ch[1:]:
                        r = e.decl()(r, c)
        cache[i] = r
        return r

    return [go(e) for e in exprs]


def prove(machine, hyps, goal, timeout_ms=60000):
    """Is (hyps => goal) valid?  Returns ('proved', None) | ('cex', model) | ('unknown', reason).
    First tries the UF-abstraction of non-linear operators (sound for proofs); a counterexample is
    only ever taken from the precise query."""
    g = simp(goal)
    if z3.is_true(g):
        return "proved", None
    try:
        ab = uf_abstract(list(machine.assumes) + list(hyps) + [z3.Not(g)])
        sol = z3.Solver()
        sol.set("timeout", timeout_ms)
        sol.add(*ab)
        if sol.check() == z3.unsat:
            return "proved", None
    except Exception:
        pass
    reason = None
    for attempt, seed in enumerate((0, 7)):
        sol = z3.Solver()
        sol.set("timeout", timeout_ms * (attempt + 1))
        sol.set("random_seed", seed)
        sol.add(*machine.assumes)
        sol.add(*hyps)
        sol.add(z3.Not(g))
        r = sol.check()
        if r == z3.unsat:
            return "proved", None
        if r == z3.sat:
            return "cex", sol.model()
        reason = sol.reason_unknown()
    return "unknown", reason
