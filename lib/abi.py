# Independent System V x86-64 psABI model (classification and placement), written from the
# psABI text (3.2.3 parameter passing, 3.5.7 variable argument lists) — never from chibicc.
import z3

GP_ARGS = ["rdi", "rsi", "rdx", "rcx", "r8", "r9"]


class CT:
    """C type for ABI purposes. kind: int|sse|x87|struct. fields: flattened scalar fields (offset, CT)."""

    def __init__(self, name, size, align, kind, fields=None, decl="", signed=True, cid=None, init=None):
        self.name, self.size, self.align, self.kind = name, size, align, kind
        self.fields = fields if fields is not None else [(0, self)]
        self.decl = decl
        self.signed = signed
        self.cid = cid or name.replace(" ", "_").replace("*", "p")
        self.field_paths = init or []      # C member designators parallel to fields, e.g. [".a", ".b[1]"]

    def __repr__(self):
        return self.cid


def scalar(name, size, kind, signed=True, cid=None):
    return CT(name, size, size if size <= 8 else 16, kind, signed=signed, cid=cid)


CHAR = scalar("char", 1, "int")
UCHAR = scalar("unsigned char", 1, "int", False, "uchar")
BOOL = scalar("_Bool", 1, "int", False, "bool")
SHORT = scalar("short", 2, "int")
INT = scalar("int", 4, "int")
UINT = scalar("unsigned int", 4, "int", False, "uint")
LONG = scalar("long", 8, "int")
PTR = scalar("void *", 8, "int", False, "ptr")
FLOAT = scalar("float", 4, "sse")
DOUBLE = scalar("double", 8, "sse")
LDOUBLE = CT("long double", 16, 16, "x87", cid="ldouble")
LDOUBLE.valsize = 10


def struct(cid, members, union=False, packed=False):
    """members: list of (name, CT | (CT, n) for arrays)."""
    off = 0
    align = 1
    fields, paths, decls = [], [], []
    size = 0
    for mname, mt in members:
        n = None
        if isinstance(mt, tuple):
            mt, n = mt
        a = 1 if packed else mt.align
        align = max(align, a)
        o = 0 if union else (off + a - 1) // a * a
        cnt = n if n is not None else 1
        for i in range(cnt):
            for fo, ft in mt.fields:
                fields.append((o + i * mt.size + fo, ft))
                idx = "[%d]" % i if n is not None else ""
                sub = mt.field_paths[mt.fields.index((fo, ft))] if mt.kind == "struct" else ""
                paths.append(".%s%s%s" % (mname, idx, sub))
        decls.append("%s %s%s;" % (mt.name, mname, "[%d]" % n if n is not None else ""))
        end = o + cnt * mt.size
        if union:
            size = max(size, end)
        else:
            off = end
            size = end
    size = (size + align - 1) // align * align
    kw = "union" if union else "struct"
    name = "%s %s" % (kw, cid)
    pre = "".join(m[1][0].decl if isinstance(m[1], tuple) else m[1].decl for m in members)
    decl = pre + "%s %s%s { %s };\n" % (kw, "__attribute__((packed)) " if packed else "", cid, " ".join(decls))
    t = CT(name, size, align, "struct", fields, decl, cid=cid, init=paths)
    t.packed = packed
    t.union = union
    return t


def classify(t):
    """-> 'MEMORY' or list of classes ('INTEGER'|'SSE'|'X87') per eightbyte."""
    if t.kind == "int":
        return ["INTEGER"]
    if t.kind == "sse":
        return ["SSE"]
    if t.kind == "x87":
        return "MEMORY"      # X87 class arguments are passed in memory
    if t.size > 16 or t.size == 0:
        return "MEMORY"
    n8 = (t.size + 7) // 8
    cls = [None] * n8
    for off, ft in t.fields:
        if ft.kind == "x87":
            return "MEMORY"
        if off % ft.align != 0:
            return "MEMORY"      # unaligned field
        c = "SSE" if ft.kind == "sse" else "INTEGER"
        for e in range(off // 8, (off + ft.size - 1) // 8 + 1):
            if cls[e] is None or cls[e] == "SSE":
                cls[e] = c if cls[e] is None else ("SSE" if c == "SSE" else "INTEGER")
    return [c or "SSE" for c in cls]   # an eightbyte that is only padding has class NO_CLASS -> SSE (never happens here)


def ret_class(t):
    if t is None:
        return "VOID"
    if t.kind == "x87":
        return ["X87"]
    # psABI 3.2.3: a struct/union whose eightbytes are (X87, X87UP) -- every scalar is a long double at offset 0 of a
    # 16-byte object -- is passed in memory but RETURNED in st(0)
    if t.kind == "struct" and t.size == 16 and t.fields and all(off == 0 and ft.kind == "x87" for off, ft in t.fields):
        return ["X87"]
    return classify(t)


class Loc:
    """Where the ABI puts one eightbyte / stack object."""

    def __init__(self, kind, where, off=0):
        self.kind, self.where, self.off = kind, where, off     # kind gp|sse|stack ; off = byte offset in object

    def __repr__(self):
        return "%s:%s@%d" % (self.kind, self.where, self.off)


def place(params, ret=None, first_gp=0, first_sse=0):
    """psABI 3.2.3: returns (list per param of [Loc per eightbyte] or [Loc('stack', off)]), stack bytes used,
    number of sse regs used, hidden_ret(bool))."""
    gp = first_gp
    sse = first_sse
    hidden = ret is not None and ret_class(ret) == "MEMORY"
    if hidden:
        gp += 1
    stack = 0
    out = []
    for t in params:
        c = classify(t)
        if c != "MEMORY":
            ng = sum(1 for x in c if x == "INTEGER")
            ns = sum(1 for x in c if x == "SSE")
            if gp + ng <= 6 and sse + ns <= 8:
                locs = []
                for i, x in enumerate(c):
                    if x == "INTEGER":
                        locs.append(Loc("gp", GP_ARGS[gp], 8 * i))
                        gp += 1
                    else:
                        locs.append(Loc("sse", sse, 8 * i))
                        sse += 1
                out.append(locs)
                continue
        a = max(8, t.align)
        stack = (stack + a - 1) // a * a
        out.append([Loc("stack", stack, 0)])
        stack += (t.size + 7) // 8 * 8
    return out, stack, sse, hidden


# ---- symbolic values at ABI locations -------------------------------------------------------
def entry_bytes(M, locs, t, off, n):
    """z3 value (BV 8n, little endian) of bytes [off, off+n) of a parameter of type t as seen by the
    callee at function entry (registers named in_*, stack at RSP0+8+...)."""
    import asmx
    if locs[0].kind == "stack":
        base = 8 + locs[0].where
        bs = [z3.Select(M.M0, asmx.simp(M.RSP0 + asmx.bv(base + off + i))) for i in range(n)]
        return asmx.simp(z3.Concat(*reversed(bs))) if n > 1 else bs[0]
    eb = off // 8
    assert (off + n - 1) // 8 == eb, "field straddles eightbytes"
    l = locs[eb]
    reg = z3.BitVec("in_%s" % l.where, 64) if l.kind == "gp" else z3.BitVec("in_xmm%d" % l.where, 64)
    lo = 8 * (off % 8)
    return asmx.simp(z3.Extract(lo + 8 * n - 1, lo, reg))


def call_bytes(M, ev, locs, t, off, n):
    """same, as seen at a call event (caller side): registers/stack of the calling state."""
    import asmx
    st = ev.state
    if locs[0].kind == "stack":
        addr = st.regs["rsp"] + asmx.bv(locs[0].where + off)
        return st.copy().load(addr, n)
    eb = off // 8
    l = locs[eb]
    reg = ev.regs[l.where] if l.kind == "gp" else ev.xmm[l.where]
    lo = 8 * (off % 8)
    return asmx.simp(z3.Extract(lo + 8 * n - 1, lo, reg))
