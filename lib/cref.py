# Reference C11 integer semantics over z3 bit-vectors, written from the standard
# (6.3.1.1 promotions, 6.3.1.8 usual arithmetic conversions, 6.5.x operators) — never from
# chibicc.  LP64: char 8 (signed), short 16, int 32, long 64.
import z3


class T:
    def __init__(self, name, bits, signed, is_bool=False, rank=0):
        self.name, self.bits, self.signed, self.is_bool, self.rank = name, bits, signed, is_bool, rank

    def __repr__(self):
        return self.name

    @property
    def size(self):
        return self.bits // 8

    @property
    def cid(self):
        return self.name.replace(" ", "_").replace("_Bool", "bool")


BOOL = T("_Bool", 8, False, True, 0)
CHAR = T("char", 8, True, rank=1)
SCHAR = T("signed char", 8, True, rank=1)
UCHAR = T("unsigned char", 8, False, rank=1)
SHORT = T("short", 16, True, rank=2)
USHORT = T("unsigned short", 16, False, rank=2)
INT = T("int", 32, True, rank=3)
UINT = T("unsigned int", 32, False, rank=3)
LONG = T("long", 64, True, rank=4)
ULONG = T("unsigned long", 64, False, rank=4)
INT9 = [BOOL, CHAR, SHORT, INT, LONG, UCHAR, USHORT, UINT, ULONG]
REP6 = [UCHAR, SHORT, INT, UINT, LONG, ULONG]


def promote(t):
    return INT if t.rank < 3 else t


def common(t1, t2):
    a, b = promote(t1), promote(t2)
    if a is b:
        return a
    if a.rank == b.rank:
        return a if not a.signed else b       # unsigned wins at equal rank
    hi, lo = (a, b) if a.rank > b.rank else (b, a)
    if not hi.signed:
        return hi
    # hi signed, higher rank: can it represent all values of lo?
    if lo.signed or hi.bits > lo.bits:
        return hi
    return {INT: UINT, LONG: ULONG}[hi]


def conv(v, frm, to):
    """Convert value v (BV of frm.bits) from type frm to type to (6.3.1.2-3; out-of-range signed
    targets wrap, the implementation-defined choice of every x86-64 compiler)."""
    if to.is_bool:
        return z3.If(v != z3.BitVecVal(0, frm.bits), z3.BitVecVal(1, 8), z3.BitVecVal(0, 8))
    if to.bits == frm.bits:
        return v
    if to.bits < frm.bits:
        return z3.Extract(to.bits - 1, 0, v)
    return z3.SignExt(to.bits - frm.bits, v) if frm.signed else z3.ZeroExt(to.bits - frm.bits, v)


def minval(t):
    return z3.BitVecVal(1 << (t.bits - 1), t.bits)


BINOPS = ["+", "-", "*", "/", "%", "&", "|", "^", "<<", ">>", "<", "<=", ">", ">=", "==", "!=", "&&", "||", ","]
UNOPS = ["+", "-", "~", "!"]


def binop(op, a, ta, b, tb):
    """Returns (value, type, defined) for `a op b` with a:ta, b:tb."""
    TRUE = z3.BoolVal(True)
    one = lambda c: z3.If(c, z3.BitVecVal(1, 32), z3.BitVecVal(0, 32))
    if op == ",":
        return b, tb, TRUE
    if op in ("&&", "||"):
        za = a != z3.BitVecVal(0, ta.bits)
        zb = b != z3.BitVecVal(0, tb.bits)
        return one(z3.And(za, zb) if op == "&&" else z3.Or(za, zb)), INT, TRUE
    if op in ("<<", ">>"):
        tl, tr = promote(ta), promote(tb)
        x, n = conv(a, ta, tl), conv(b, tb, tr)
        w = tl.bits
        inrange = z3.ULT(n, z3.BitVecVal(w, tr.bits))          # also excludes negative counts
        if tr.bits > w:
            cnt = z3.Extract(w - 1, 0, n)
        elif tr.bits < w:
            cnt = z3.ZeroExt(w - tr.bits, n)
        else:
            cnt = n
        if op == "<<":
            r = x << cnt
            if tl.signed:
                # E1 non-negative and E1 * 2^E2 representable in the result type
                ok = z3.And(inrange, x >= 0, (r >> cnt) == x, r >= 0)
            else:
                ok = inrange
            return r, tl, ok
        r = (x >> cnt) if tl.signed else z3.LShR(x, cnt)   # negative >> : arithmetic (impl.-defined, gcc/psABI)
        return r, tl, inrange
    tc = common(ta, tb)
    x, y = conv(a, ta, tc), conv(b, tb, tc)
    w = tc.bits
    if op in ("<", "<=", ">", ">=", "==", "!="):
        if op == "==":
            c = x == y
        elif op == "!=":
            c = x != y
        elif tc.signed:
            c = {"<": x < y, "<=": x <= y, ">": x > y, ">=": x >= y}[op]
        else:
            c = {"<": z3.ULT(x, y), "<=": z3.ULE(x, y), ">": z3.UGT(x, y), ">=": z3.UGE(x, y)}[op]
        return one(c), INT, TRUE
    if op == "+":
        ok = z3.BVAddNoOverflow(x, y, True) if tc.signed else TRUE
        if tc.signed:
            ok = z3.And(ok, z3.BVAddNoUnderflow(x, y))
        return x + y, tc, ok
    if op == "-":
        ok = z3.And(z3.BVSubNoOverflow(x, y), z3.BVSubNoUnderflow(x, y, True)) if tc.signed else TRUE
        return x - y, tc, ok
    if op == "*":
        ok = z3.And(z3.BVMulNoOverflow(x, y, True), z3.BVMulNoUnderflow(x, y)) if tc.signed else TRUE
        return x * y, tc, ok
    if op in ("/", "%"):
        nz = y != z3.BitVecVal(0, w)
        if tc.signed:
            ok = z3.And(nz, z3.Not(z3.And(x == minval(tc), y == z3.BitVecVal(-1, w))))
            return ((x / y) if op == "/" else z3.SRem(x, y)), tc, ok
        return (z3.UDiv(x, y) if op == "/" else z3.URem(x, y)), tc, nz
    if op == "&":
        return x & y, tc, TRUE
    if op == "|":
        return x | y, tc, TRUE
    if op == "^":
        return x ^ y, tc, TRUE
    raise ValueError(op)


def unop(op, a, ta):
    TRUE = z3.BoolVal(True)
    if op == "!":
        return z3.If(a == z3.BitVecVal(0, ta.bits), z3.BitVecVal(1, 32), z3.BitVecVal(0, 32)), INT, TRUE
    tp = promote(ta)
    x = conv(a, ta, tp)
    if op == "+":
        return x, tp, TRUE
    if op == "-":
        return -x, tp, (x != minval(tp)) if tp.signed else TRUE
    if op == "~":
        return ~x, tp, TRUE
    raise ValueError(op)


def cond_type(tb, tc):
    return common(tb, tc)


# ---- floating types -------------------------------------------------------------------------
class FT:
    def __init__(self, name, bits, sort, cid):
        self.name, self.bits, self.sort, self.cid = name, bits, sort, cid
        self.is_fp = True
        self.is_bool = False

    def __repr__(self):
        return self.name

    @property
    def size(self):
        return {32: 4, 64: 8, 80: 16}[self.bits]


FLOAT = FT("float", 32, z3.Float32(), "float")
DOUBLE = FT("double", 64, z3.Float64(), "double")
LDOUBLE = FT("long double", 80, z3.FPSort(15, 64), "ldouble")
FP3 = [FLOAT, DOUBLE, LDOUBLE]
ARITH12 = INT9 + FP3


def is_fp(t):
    return getattr(t, "is_fp", False)
