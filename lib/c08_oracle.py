# C08 oracle validation: the reference layout algorithm (harness/c08/ref_layout.h) is compared
# against gcc's own layout on enumerated small shapes.  This validates the ORACLE only; it
# decides nothing about chibicc (that is done by cbmc over the real struct_decl/union_decl).
import os, itertools, random
import vf

# (C spelling, size, align)
SCALARS = [("char", 1, 1), ("short", 2, 2), ("int", 4, 4), ("long", 8, 8), ("long double", 16, 16),
           ("_Bool", 1, 1), ("float", 4, 4), ("void *", 8, 8)]
DERIVED = [("char", "[3]", 3, 1), ("short", "[2]", 4, 2), ("int", "[0]", 0, 4),
           ("struct N1", "", 8, 4), ("struct N2", "", 3, 1), ("struct N3", "", 32, 16)]
PRELUDE = ("struct N1 { int a; char b; };\nstruct N2 { char a[3]; };\n"
           "struct N3 { long double a; char b; };\n")
BFTYPES = [("_Bool", 1), ("char", 1), ("unsigned char", 1), ("short", 2), ("int", 4), ("unsigned", 4),
           ("long", 8), ("enum E", 4)]


def palette():
    """member descriptors: dict(decl=fmt with %s for name, is_bf,size,align,req,width,named)"""
    out = []
    for sp, s, a in SCALARS:
        out.append(dict(decl=sp + " %s;", is_bf=0, size=s, align=a, req=0, width=0, named=1))
    for sp, suf, s, a in DERIVED:
        out.append(dict(decl=sp + " %s" + suf + ";", is_bf=0, size=s, align=a, req=0, width=0, named=1))
    for sp, s, a in SCALARS[:4]:
        for req in (4, 8, 16, 32):
            if req >= a:
                out.append(dict(decl="_Alignas(%d) %s %%s;" % (req, sp), is_bf=0, size=s, align=a, req=req,
                                width=0, named=1))
    for sp, s in BFTYPES:
        ws = sorted(set(w for w in (1, 2, 3, 7, 8, 9, 15, 16, 17, 25, 31, 32, 33, 63, 64) if w <= s * 8))
        if sp == "_Bool":
            ws = [1]
        for w in ws:
            out.append(dict(decl="%s %%s:%d;" % (sp, w), is_bf=1, size=s, align=s, req=0, width=w, named=1))
            out.append(dict(decl="%s :%d;" % (sp, w), is_bf=1, size=s, align=s, req=0, width=w, named=0))
        out.append(dict(decl="%s :0;" % sp, is_bf=1, size=s, align=s, req=0, width=0, named=0))
    return out


def shapes(seed, n_random):
    pal = palette()
    small = [p for p in pal if p["is_bf"] == 0 and p["req"] == 0][::2] + \
            [p for p in pal if p["req"]][::5] + \
            [p for p in pal if p["is_bf"] and p["width"] in (0, 3, 9, 31) and
             p["decl"].split()[0] in ("char", "int", "long", "short")]
    out = []
    heads = [(u, pk, at) for u in (0, 1) for pk in (0, 1) for at in (0, 2, 16)]
    # exhaustive: all 1-member shapes over the full palette and all 2-member shapes over a
    # reduced palette, for every head (struct/union x packed x aligned)
    for h in heads:
        for m in pal:
            out.append((h, (m,)))
        for ms in itertools.product(small, repeat=2):
            out.append((h, ms))
    rnd = random.Random(seed)
    for _ in range(n_random):
        n = rnd.choice((3, 4, 5))
        out.append((rnd.choice(heads), tuple(rnd.choice(pal) for _ in range(n))))
    return out


def gen_c(shs):
    L = ['#include <stdio.h>', '#include <string.h>', '#include <stddef.h>', 'enum E { E0, E1 };', PRELUDE,
         '#include "c08/ref_layout.h"',
         'static int bad;',
         'static long scanbit(const unsigned char *p, int n) { for (long i = 0; i < n * 8L; i++) '
         'if (p[i / 8] >> (i % 8) & 1) return i; return -1; }']
    body = []
    for k, ((u, pk, at), ms) in enumerate(shs):
        attrs = []
        if pk:
            attrs.append("packed")
        if at:
            attrs.append("aligned(%d)" % at)
        attr = ("__attribute__((%s)) " % ",".join(attrs)) if attrs else ""
        decls = []
        named_any = False
        for i, m in enumerate(ms):
            decls.append(m["decl"] % ("m%d" % i) if m["named"] else m["decl"])
        L.append("%s %sS%d { %s };" % ("union" if u else "struct", attr, k, " ".join(decls)))
        b = ["{ RMem m[%d] = {%s}; RPos o[%d]; long sz, al;" % (
            len(ms), ",".join("{%d,%d,%d,%d,%d,%d}" % (m["is_bf"], m["size"], m["align"], m["req"], m["width"],
                                                       m["named"]) for m in ms), len(ms)),
             "ref_layout(%d,%d,%d,%d,m,o,&sz,&al);" % (u, pk, at, len(ms)),
             "%s S%d v;" % ("union" if u else "struct", k),
             'if (sz != (long)sizeof v || al != (long)_Alignof(v)) { bad++; printf("shape %d: size/align ref %%ld/%%ld gcc %%ld/%%ld\\n", sz, al, (long)sizeof v, (long)_Alignof(v)); }' % k]
        for i, m in enumerate(ms):
            if not m["named"]:
                continue
            if not m["is_bf"]:
                b.append('if (o[%d].off != (long)offsetof(%s S%d, m%d)) { bad++; printf("shape %d: m%d off ref %%d gcc %%ld\\n", o[%d].off, (long)offsetof(%s S%d, m%d)); }'
                         % (i, "union" if u else "struct", k, i, k, i, i, "union" if u else "struct", k, i))
            else:
                b.append('memset(&v, 0, sizeof v); v.m%d = -1; { long g = scanbit((unsigned char *)&v, sizeof v); if (g != o[%d].bitpos) { bad++; printf("shape %d: m%d bitpos ref %%ld gcc %%ld\\n", o[%d].bitpos, g); } }'
                         % (i, i, k, i, i))
        b.append("}")
        body.append("static void f%d(void) %s" % (k, "\n".join(b)))
    L += body
    L.append("int main(void) {")
    L += ["f%d();" % k for k in range(len(shs))]
    L.append('printf("checked %d shapes, %%d disagreements\\n", bad); return bad != 0; }' % len(shs))
    return "\n".join(L) + "\n", None


def validate(seed=0, n_random=1500, ref_dir=None, workers=4):
    """Returns (ok, nshapes, text).  Shapes are split in chunks compiled/run in parallel."""
    shs = shapes(seed, n_random)
    d = vf.subdir("c08oracle")
    inc = ref_dir or os.path.join(vf.VERIF, "harness")
    chunks = [shs[i:i + 1500] for i in range(0, len(shs), 1500)]

    def go(ic):
        i, ch = ic
        src, _ = gen_c(ch)
        p = os.path.join(d, "oracle%d.c" % i)
        with open(p, "w") as fh:
            fh.write(src)
        exe = os.path.join(d, "oracle%d.exe" % i)
        rc, o, e, s = vf.run(["gcc", "-w", "-O0", "-I", inc, "-o", exe, p], timeout=600)
        if rc != 0:
            return False, "oracle build failed: " + e[-1500:]
        rc, o, e, s = vf.run([exe], timeout=120)
        return rc == 0, (o + e)[-1500:]

    res = vf.pmap(go, list(enumerate(chunks)), workers)
    ok = all(r[0] for r in res)
    bad = [r[1] for r in res if not r[0]]
    return ok, len(shs), ("\n".join(bad)[-3000:] if bad else "all %d shapes agree with gcc" % len(shs))


if __name__ == "__main__":
    import sys
    ok, n, text = validate(0, int(sys.argv[1]) if len(sys.argv) > 1 else 1500)
    print(text)
    print("OK" if ok else "DISAGREE", n)
