# C07 oracle validation: the reference evaluator (harness/c07/ref_eval.h) is compared with gcc on
# generated expressions.  Operands are loaded from volatile objects so gcc evaluates at run time
# with ordinary C semantics; an expression is only executed when the reference says C11 defines
# it.  Both the value and the TYPE (via _Generic) are compared.  This validates the oracle only.
import os, random
import vf

LIT = [("int", 4, False, 4), ("unsigned", 4, True, 8), ("long", 8, False, 5), ("unsigned long", 8, True, 9)]
CAST = {1: "_Bool", 2: "char", 3: "short", 4: "int", 5: "long", 6: "unsigned char", 7: "unsigned short",
        8: "unsigned", 9: "unsigned long"}
BIN = [("R_ADD", "+"), ("R_SUB", "-"), ("R_MUL", "*"), ("R_DIV", "/"), ("R_MOD", "%"), ("R_BITAND", "&"),
       ("R_BITOR", "|"), ("R_BITXOR", "^"), ("R_SHL", "<<"), ("R_SHR", ">>"), ("R_EQ", "=="), ("R_NE", "!="),
       ("R_LT", "<"), ("R_LE", "<="), ("R_LOGAND", "&&"), ("R_LOGOR", "||"), ("R_COMMA", ",")]
UN = [("R_NEG", "-"), ("R_BITNOT", "~"), ("R_NOT", "!")]


def rnd_val(r, size, uns):
    bits = size * 8
    lo, hi = (0, 2 ** bits - 1) if uns else (-2 ** (bits - 1), 2 ** (bits - 1) - 1)
    k = r.random()
    if k < 0.45:
        v = r.randint(-4, 70)
    elif k < 0.7:
        v = r.choice([lo, hi, lo + 1, hi - 1, 0, 1, -1, 2 ** 31 - 1, 2 ** 31, -2 ** 31, 2 ** 32 - 1, 2 ** 32, 255, 256,
                      127, 128, -128, -129, 65535, 65536, 32767, 32768])
    else:
        v = r.randint(lo, hi)
    return min(max(v, lo), hi)


class Gen:
    def __init__(self, r):
        self.r = r
        self.decls = []

    def leaf(self):
        r = self.r
        name, size, uns, sel = r.choice(LIT)
        v = rnd_val(r, size, uns)
        var = "v%d" % len(self.decls)
        suffix = {"int": "", "unsigned": "u", "long": "l", "unsigned long": "ul"}[name]
        if v < 0:
            init = "(-%d%s - 1)" % (-(v + 1), suffix)
        else:
            init = "%d%s" % (v, suffix)
        self.decls.append("static volatile %s %s = %s;" % (name, var, init))
        ctext, rtext = var, "rleaf(%d, (int64_t)%s)" % (sel, var)
        if r.random() < 0.5:
            c = r.choice(list(CAST))
            ctext = "(%s)%s" % (CAST[c], ctext)
            rtext = "r_conv(%s, rt_sel(%d))" % (rtext, c)
        return ctext, rtext

    def expr(self, depth):
        r = self.r
        if depth == 0 or r.random() < 0.15:
            return self.leaf()
        k = r.random()
        if k < 0.68:
            code, op = r.choice(BIN)
            a, ra = self.expr(depth - 1)
            b, rb = self.expr(depth - 1)
            return "((%s) %s (%s))" % (a, op, b), "r_binop(%s, %s, %s)" % (code, ra, rb)
        if k < 0.82:
            code, op = r.choice(UN)
            a, ra = self.expr(depth - 1)
            return "(%s(%s))" % (op, a), "r_unop(%s, %s)" % (code, ra)
        if k < 0.92:
            c, rc = self.expr(depth - 1)
            a, ra = self.expr(depth - 1)
            b, rb = self.expr(depth - 1)
            return "((%s) ? (%s) : (%s))" % (c, a, b), "r_cond(%s, %s, %s)" % (rc, ra, rb)
        cs = r.choice(list(CAST))
        a, ra = self.expr(depth - 1)
        return "((%s)(%s))" % (CAST[cs], a), "r_conv(%s, rt_sel(%d))" % (ra, cs)


def gen_c(seed, n):
    r = random.Random(seed)
    g = Gen(r)
    L = ['#include <stdio.h>', '#include "c07/ref_eval.h"',
         'static RV rleaf(int sel, int64_t v) { RV r = {rt_sel(sel), v, true}; return r; }',
         '#define TC(e) _Generic((e), _Bool:1, char:2, signed char:2, short:3, int:4, long:5, long long:5, '
         'unsigned char:6, unsigned short:7, unsigned:8, unsigned long:9, unsigned long long:9)',
         'static int tcode(RT t) { return t.isbool ? 1 : t.uns ? (t.sz == 1 ? 6 : t.sz == 2 ? 7 : t.sz == 4 ? 8 : 9) '
         ': (t.sz == 1 ? 2 : t.sz == 2 ? 3 : t.sz == 4 ? 4 : 5); }',
         'static int bad, ran;']
    funcs = []
    for k in range(n):
        c, rt = g.expr(r.choice((1, 2, 2, 3)))
        funcs.append('static void f%d(void) { RV w = %s; if (!w.ok) return; ran++; '
                     'int64_t g = (int64_t)(%s); int tc = TC(%s); '
                     'if (g != w.v || tc != tcode(w.t)) { bad++; printf("expr %d: ref %%ld (type %%d) gcc %%ld (type %%d): %%s\\n", '
                     '(long)w.v, tcode(w.t), (long)g, tc, "%s"); } }' % (k, rt, c, c, k, c.replace('"', "'").replace("%", "%%")))
    L += g.decls + funcs
    L.append("int main(void) {")
    L += ["f%d();" % k for k in range(n)]
    L.append('printf("%%d expressions, %%d defined and compared, %%d disagreements\\n", %d, ran, bad); return bad != 0; }' % n)
    return "\n".join(L) + "\n"


def validate(seed=0, n=1200, ref_dir=None):
    d = vf.subdir("c07oracle")
    inc = ref_dir or os.path.join(vf.VERIF, "harness")
    chunks = [(i, min(600, n - i)) for i in range(0, n, 600)]

    def go(c):
        i, m = c
        p = os.path.join(d, "oracle%d.c" % i)
        with open(p, "w") as fh:
            fh.write(gen_c(seed * 1000003 + i, m))
        exe = p[:-2] + ".exe"
        rc, o, e, s = vf.run(["gcc", "-w", "-O0", "-I", inc, "-o", exe, p], timeout=600)
        if rc != 0:
            return False, "oracle build failed: " + e[-1500:]
        rc, o, e, s = vf.run([exe], timeout=120)
        return rc == 0, (o + e)[-1500:]

    res = vf.pmap(go, chunks, 4)
    ok = all(x[0] for x in res)
    return ok, n, "\n".join(x[1].strip().splitlines()[-1] if x[0] else x[1] for x in res)[-3000:]


if __name__ == "__main__":
    import sys
    ok, n, text = validate(0, int(sys.argv[1]) if len(sys.argv) > 1 else 1200)
    print(text)
    print("OK" if ok else "DISAGREE", n)
