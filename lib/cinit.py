# Reference semantics of C11 6.7.9 initialization (brace elision, designators, unions, strings, arrays of unknown
# bound, later-overrides-earlier) and a generator of initializer spellings. Written from the standard; the
# reference is additionally validated against gcc on every generated program before it is used as an oracle.
import random


class Scalar:
    def __init__(self, name, size, signed=True, width=None):
        self.name, self.size, self.signed, self.width = name, size, signed, width

    def leaves(self, path):
        return [(path, self)]

    def is_char(self):
        return self.size == 1 and self.width is None and self.name != "_Bool"


class Array:
    def __init__(self, elem, n):
        self.elem, self.n = elem, n

    def leaves(self, path, n=None):
        out = []
        for i in range(n if n is not None else self.n):
            out += self.elem.leaves("%s[%d]" % (path, i))
        return out


class Struct:
    def __init__(self, tag, members, union=False):
        self.tag, self.all_members, self.union = tag, members, union     # members: [(name, type)]; "" = unnamed bit-field
        self.members = [m for m in members if m[0]]                      # unnamed members do not participate in initialization (6.7.9p9)

    def leaves(self, path):
        out = []
        for nme, t in (self.members[:1] if self.union else self.members):   # a union's value is its first member unless designated
            out += t.leaves("%s.%s" % (path, nme))
        return out

    @property
    def kw(self):
        return "union" if self.union else "struct"


def decl(t, seen=None):
    """C declarations needed for t (structs), dependency ordered"""
    seen = seen if seen is not None else {}
    out = ""
    if isinstance(t, Array):
        return decl(t.elem, seen)
    if isinstance(t, Struct):
        if t.tag in seen:
            return ""
        for _, mt in t.members:
            out += decl(mt, seen)
        seen[t.tag] = 1
        body = " ".join(field(mt, nme) + ";" for nme, mt in t.all_members)
        out += "%s %s { %s };\n" % (t.kw, t.tag, body)
    return out


def field(t, name):
    if isinstance(t, Scalar):
        return "%s %s%s" % (t.name, name, " : %d" % t.width if t.width is not None else "")
    if isinstance(t, Struct):
        return "%s %s %s" % (t.kw, t.tag, name)
    dims = ""
    while isinstance(t, Array):
        dims += "[%s]" % ("" if t.n is None else t.n)
        t = t.elem
    return field(t, name + dims)


class Invalid(Exception):
    pass


def c_escape(text):
    """spell the characters of one string-literal piece; control characters as escapes: octal with three digits inside
    the piece (cannot absorb a following digit), hexadecimal when it is the LAST character of the piece (a hex escape
    has no length limit, so it would absorb a following hex digit if adjacent pieces were pasted before escape processing)"""
    out = ""
    for i, ch in enumerate(text):
        o = ord(ch)
        if ch in '"\\':
            out += "\\" + ch
        elif o < 32 or o == 127:
            out += ("\\x%x" % o) if i == len(text) - 1 else ("\\%03o" % o)
        else:
            out += ch
    return out


def str_prefix(init):
    return init[2] if len(init) > 2 else ""


def str_units(text, prefix):
    """code units of a string literal body (C11 6.4.5): UTF-8 for "" and u8"", UTF-16 for u"", code points for U"" and L"" """
    if prefix in ("", "u8"):
        return list(text.encode("utf-8"))
    if prefix == "u":
        b = text.encode("utf-16-le")
        return [b[i] | (b[i + 1] << 8) for i in range(0, len(b), 2)]
    return [ord(c) for c in text]


def str_fits(init, t):
    """may the string literal `init` initialise an object of type t? (6.7.9p14/15: character array for narrow/UTF-8 literals,
    array of the matching wide element type otherwise)"""
    if not (isinstance(t, Array) and isinstance(t.elem, Scalar) and t.elem.width is None and t.elem.name != "_Bool"):
        return False
    p = str_prefix(init)
    if p in ("", "u8"):
        return t.elem.size == 1
    if p == "u":
        return t.elem.name == "unsigned short"
    if p == "U":
        return t.elem.name == "unsigned int"
    return t.elem.name == "int"          # L"": wchar_t is int


def nelems(t):
    if isinstance(t, Array):
        return t.n            # None = unknown bound
    if t.union:
        return 1
    return len(t.members)


def sub(t, i):
    """(type, path suffix) of the i-th subobject"""
    if isinstance(t, Array):
        return t.elem, "[%d]" % i
    nme, mt = t.members[i]
    return mt, "." + nme


def truncate(v, t):
    if t.name == "_Bool":
        return 1 if v != 0 else 0
    bits = t.width or t.size * 8
    v &= (1 << bits) - 1
    if t.signed and v >= 1 << (bits - 1):
        v -= 1 << bits
    return v


class Ref:
    """reference initialization of one object"""

    def __init__(self, ty):
        self.ty = ty
        self.vals = {}
        self.assigned = set()
        self.maxidx = -1          # for arrays of unknown bound

    def set_leaf(self, path, t, v):
        self.vals[path] = truncate(v, t)
        self.assigned.add(path)

    def activate(self, t, i, path):
        """a union holds the member that was initialised last: only that member's leaves are compared"""
        if isinstance(t, Struct) and t.union:
            keep = path + "." + t.members[i][0]
            for k in [k for k in self.vals if k.startswith(path + ".") and not (k == keep or k.startswith(keep + ".") or k.startswith(keep + "["))]:
                del self.vals[k]
                self.assigned.discard(k)
            for lp, lt in t.members[i][1].leaves(keep):
                self.vals.setdefault(lp, 0)

    def clear(self, t, path):
        n = None
        for p, lt in (t.leaves(path) if not (isinstance(t, Array) and t.n is None) else []):
            self.vals[p] = 0

    def init_object(self, t, init, path):
        if isinstance(t, Scalar):
            while init[0] == "list":
                if len(init[1]) != 1 or init[1][0][0]:
                    raise Invalid("braced scalar")
                init = init[1][0][1]
            if init[0] != "expr":
                raise Invalid("string for scalar")
            self.set_leaf(path, t, init[1])
            return
        if init[0] == "str":
            if not str_fits(init, t):
                raise Invalid("string for non-char-array")
            self.init_string(t, init, path)
            return
        if init[0] != "list":
            raise Invalid("scalar expression for an aggregate")
        # 6.7.9p14: the string literal initialising a character array may be enclosed in braces
        if len(init[1]) == 1 and not init[1][0][0] and init[1][0][1][0] == "str" and str_fits(init[1][0][1], t):
            self.init_string(t, init[1][0][1], path)
            return
        if any(a.startswith(path) for a in self.assigned) and path != "":
            # re-initialising a whole aggregate after one of its members (C11 6.7.9p19 / DR 413): not generated
            raise Invalid("braced re-initialisation of a partly initialised aggregate")
        self.clear(t, path)
        self.init_list(t, init[1], path)

    def init_string(self, t, init, path):
        if any(a.startswith(path + "[") for a in self.assigned):
            raise Invalid("string re-initialisation")
        self.assigned.add(path + "[0]")
        bs = str_units(init[1], str_prefix(init)) + [0]
        n = t.n
        if n is None:
            raise Invalid("nested unknown bound")
        if len(bs) - 1 > n:
            raise Invalid("string too long")
        for i in range(n):
            self.vals["%s[%d]" % (path, i)] = truncate(bs[i], t.elem) if i < len(bs) else 0

    def init_list(self, ty, items, path):
        # GNU range designators: `[lo ... hi] = v` initialises every element lo..hi with v and initialisation continues
        # after element hi, i.e. it is the item sequence [lo] = v, [lo+1] = v, ..., [hi] = v (v has no side effects here)
        exp = []
        for desig, init in items:
            chains = [[]]
            for d in desig:
                if d[0] == "r":
                    if d[1] > d[2]:
                        raise Invalid("empty range")
                    chains = [c + [("i", k)] for c in chains for k in range(d[1], d[2] + 1)]
                else:
                    chains = [c + [d] for c in chains]
            exp += [(c, init) for c in chains]
        items = exp
        top_unknown = isinstance(ty, Array) and ty.n is None
        stack = [[ty, 0, path]]             # frames: [aggregate type, index, path of the aggregate]
        first = True
        for desig, init in items:
            if desig:
                stack = [[ty, 0, path]]
                for k, d in enumerate(desig):
                    t, _, p = stack[-1]
                    if d[0] == "m":
                        if not isinstance(t, Struct):
                            raise Invalid("member designator in array")
                        names = [m[0] for m in t.members]
                        if d[1] not in names:
                            raise Invalid("no such member")
                        stack[-1][1] = names.index(d[1])
                        self.activate(t, stack[-1][1], p)
                    else:
                        if not isinstance(t, Array):
                            raise Invalid("index designator in struct")
                        if t.n is not None and not (0 <= d[1] < t.n):
                            raise Invalid("index out of range")
                        stack[-1][1] = d[1]
                    if k < len(desig) - 1:
                        st, suf = sub(t, stack[-1][1])
                        if isinstance(st, Scalar):
                            raise Invalid("designator into scalar")
                        stack.append([st, 0, p + suf])
            elif not first:
                pass
            first = False
            if not stack:
                raise Invalid("excess initializer")
            # current subobject
            t, i, p = stack[-1]
            n = nelems(t)
            if n is not None and i >= n:
                raise Invalid("excess initializer")
            st, suf = sub(t, i)
            self.activate(t, i, p)
            if top_unknown and len(stack) >= 1 and stack[0][0] is ty:
                self.maxidx = max(self.maxidx, stack[0][1])
            if init[0] == "list":
                self.init_object(st, init, p + suf)
            elif init[0] == "str" and str_fits(init, st):
                self.init_string(st, init, p + suf)
            else:
                # brace elision: descend to the first scalar (or char array for a string)
                while not isinstance(st, Scalar):
                    if init[0] == "str" and str_fits(init, st):
                        break
                    stack.append([st, 0, p + suf])
                    t, i, p = stack[-1]
                    st, suf = sub(t, 0)
                    self.activate(t, 0, p)
                if init[0] == "str":
                    if isinstance(st, Scalar):
                        raise Invalid("string for scalar")
                    self.init_string(st, init, p + suf)
                else:
                    self.set_leaf(p + suf, st, init[1])
            # advance
            stack[-1][1] += 1
            while stack:
                t, i, p = stack[-1]
                n = nelems(t)
                if n is None or i < n:
                    break
                if len(stack) == 1:
                    stack.pop()          # the braced aggregate is full; any further item is an excess initializer
                    break
                stack.pop()
                stack[-1][1] += 1

    def run(self, init):
        t = self.ty
        if isinstance(t, Array) and t.n is None:
            if init[0] == "str":
                n = len(str_units(init[1], str_prefix(init))) + 1
                self.ty = Array(t.elem, n)
                if not str_fits(init, self.ty):
                    raise Invalid("string for non-char-array")
                self.init_string(self.ty, init, "")
                return self
            if init[0] != "list":
                raise Invalid("bad initializer for array")
            if len(init[1]) == 1 and not init[1][0][0] and init[1][0][1][0] == "str" and str_fits(init[1][0][1], Array(t.elem, 1)):
                return self.run(init[1][0][1])           # braced string literal for an array of unknown bound
            # two passes: find the bound, then initialize
            probe = Ref(Array(t.elem, 10 ** 6))
            probe_vals_before = probe.vals
            probe.clear = lambda *a: None
            probe.init_list(Array(t.elem, None), init[1], "")
            n = probe.maxidx + 1
            # elided trailing elements: maxidx tracks the top index reached
            if n <= 0:
                raise Invalid("empty array")
            self.ty = Array(t.elem, n)
            for p, lt in self.ty.leaves(""):
                self.vals[p] = 0
            self.init_list(self.ty, init[1], "")
            return self
        for p, lt in t.leaves(""):
            self.vals[p] = 0
        self.init_object(t, init, "")
        return self


def ctext(init):
    if init[0] == "expr":
        return str(init[1])
    if init[0] == "str":
        pieces = init[3] if len(init) > 3 else [(str_prefix(init), init[1])]
        return " ".join('%s"%s"' % (p, c_escape(t)) for p, t in pieces)
    parts = []
    for desig, sub_ in init[1]:
        d = "".join((".%s" % x[1]) if x[0] == "m" else ("[%d]" % x[1]) if x[0] == "i" else ("[%d ... %d]" % (x[1], x[2])) for x in desig)
        parts.append((d + " = " if d else "") + ctext(sub_))
    return "{ " + ", ".join(parts) + (", " if init[2] else " ") + "}"


class Gen:
    def __init__(self, rnd):
        self.rnd = rnd
        self.v = 0

    def val(self):
        self.v += 1
        k = self.rnd.random()
        if k < 0.08:
            return ("expr", self.rnd.choice([300, 65537, 0x1234567890, -129, 256, 1 << 40, -(1 << 33) - 5]) + self.v)
        return ("expr", self.v if k < 0.87 else -self.v)

    def nleaves(self, t):
        if isinstance(t, Scalar):
            return 1
        if isinstance(t, Array):
            return (t.n or 3) * self.nleaves(t.elem)
        if t.union:
            return self.nleaves(t.members[0][1])
        return sum(self.nleaves(m[1]) for m in t.members)

    def designator(self, t, depth=0):
        """random valid designator chain within aggregate t -> (chain, designated type)"""
        chain = []
        cur = t
        while True:
            if isinstance(cur, Array):
                n = cur.n if cur.n is not None else 4
                i = self.rnd.randrange(n)
                if self.rnd.random() < 0.2 and (isinstance(cur.elem, Scalar) or self.rnd.random() < 0.3):
                    # a range designator, always the LAST designator of the chain
                    j = self.rnd.randrange(i, n)
                    chain.append(("r", i, j))
                    return chain, cur.elem
                chain.append(("i", i))
                cur = cur.elem
            else:
                k = self.rnd.randrange(len(cur.members))
                chain.append(("m", cur.members[k][0]))
                cur = cur.members[k][1]
            if isinstance(cur, Scalar) or self.rnd.random() < 0.55 or len(chain) >= 3:
                return chain, cur

    def init_for(self, t, depth=0):
        """an initializer for an object of type t (braced for aggregates)"""
        r = self.rnd
        if isinstance(t, Scalar):
            if r.random() < 0.08:
                return ("list", [([], self.val())], False)
            return self.val()
        if isinstance(t, Array) and isinstance(t.elem, Scalar) and self.prefixes(t.elem) and r.random() < 0.5:
            st_ = self.string_for(t)
            return ("list", [([], st_)], r.random() < 0.4) if r.random() < 0.3 else st_
        items = []
        budget = r.randrange(1, self.nleaves(t) + 1)
        count = r.randrange(1, min(6, budget) + 1)        # C11 has no empty initializer list
        for _ in range(count):
            if r.random() < 0.35:
                chain, st = self.designator(t)
            else:
                chain, st = [], None
            if st is None:
                # positional: we do not know the current subobject here; use a scalar (elision-safe) or rely on validation
                if r.random() < 0.25:
                    sub_t = self.first_sub(t)
                    items.append((chain, self.init_for(sub_t, depth + 1) if depth < 2 else self.val()))
                else:
                    items.append((chain, self.val()))
            else:
                if isinstance(st, Scalar) or r.random() < 0.4 or depth >= 2:
                    if isinstance(st, Array) and isinstance(st.elem, Scalar) and self.prefixes(st.elem) and r.random() < 0.5:
                        st_ = self.string_for(st)
                        items.append((chain, ("list", [([], st_)], False) if r.random() < 0.3 else st_))
                    else:
                        items.append((chain, self.val()))
                else:
                    items.append((chain, self.init_for(st, depth + 1)))
        return ("list", items, r.random() < 0.3)

    def prefixes(self, e):
        if e.width is not None or e.name == "_Bool":
            return []
        if e.size == 1:
            return ["", "", "u8"]
        return {"unsigned short": ["u"], "unsigned int": ["U"], "int": ["L"]}.get(e.name, [])

    def string_for(self, t):
        """a string literal that fits the array type t (element count incl. the optional terminator, 6.7.9p14)"""
        r = self.rnd
        p = r.choice(self.prefixes(t.elem))
        n = t.n if t.n is not None else 4
        alpha = ["a", "b", "x", "y", "z", "q", "1", "f", "\x01", "\n", "\\", "\""] + (["\u00e9", "\u20ac", "\U0001f600"] if p else [])
        for _ in range(20):
            text = "".join(r.choice(alpha) for _ in range(r.randrange(0, n + 1)))
            if len(str_units(text, p)) <= n:
                break
        else:
            text = ""
        if len(text) >= 2 and r.random() < 0.4:
            # adjacent string literals (6.4.5p5): concatenated in translation phase 6, AFTER escape sequences were converted;
            # a narrow piece next to a prefixed one takes the prefix
            cuts = sorted(set(r.randrange(1, len(text)) for _ in range(r.choice([1, 1, 2]))))
            parts = [text[a:b] for a, b in zip([0] + cuts, cuts + [len(text)])]
            pref = [p if r.random() < 0.6 else "" for _ in parts]
            if p and p not in pref:
                pref[r.randrange(len(pref))] = p
            return ("str", text, p, list(zip(pref, parts)))
        return ("str", text, p)

    def first_sub(self, t):
        if isinstance(t, Array):
            return t.elem
        return t.members[0][1]


def overlaps(items_paths):
    return False


INT = Scalar("int", 4)
CHAR = Scalar("char", 1)
SHORT = Scalar("short", 2)
LONG = Scalar("long", 8)
UCHAR = Scalar("unsigned char", 1, False)
P2 = Struct("P2", [("x", INT), ("y", INT)])
IN3 = Struct("In3", [("a", CHAR), ("b", Array(SHORT, 2)), ("c", LONG)])
UN = Struct("Un", [("i", INT), ("c", Array(CHAR, 4)), ("l", LONG)], union=True)
BF = Struct("Bf", [("p", Scalar("int", 4, True, 3)), ("", Scalar("int", 4, True, 2)), ("q", Scalar("unsigned int", 4, False, 5)), ("", Scalar("int", 4, True, 0)),
                   ("r", Scalar("int", 4, True, 9)), ("t", INT)])
USHORT = Scalar("unsigned short", 2, False)
UINT_ = Scalar("unsigned int", 4, False)
WIDE = Struct("Wide", [("n", INT), ("u", Array(USHORT, 4)), ("w", Array(INT, 3)), ("c", Array(CHAR, 5)), ("z", LONG)])
BOOL_ = Scalar("_Bool", 1, False)
BF2 = Struct("Bf2", [("a", Scalar("long", 8, True, 64)), ("b", Scalar("long", 8, True, 40)), ("c", Scalar("unsigned long", 8, False, 24)),
                     ("f", Scalar("_Bool", 1, False, 1)), ("g", BOOL_), ("h", Scalar("unsigned long", 8, False, 64)), ("k", Array(BOOL_, 2))])
OUT = Struct("Out", [("n", INT), ("pts", Array(P2, 2)), ("in", IN3), ("s", Array(CHAR, 4)), ("u", UN), ("z", LONG)])
DEEP = Struct("Deep", [("m", Array(Array(INT, 2), 2)), ("o", OUT), ("bf", BF)])
TYPES = [
    ("p2", P2), ("in3", IN3), ("arr5", Array(INT, 5)), ("mat", Array(Array(INT, 3), 2)), ("pts", Array(P2, 3)), ("un", UN), ("bf", BF),
    ("out", OUT), ("deep", DEEP), ("str8", Array(CHAR, 8)), ("unk_int", Array(INT, None)), ("unk_p2", Array(P2, None)), ("unk_char", Array(CHAR, None)),
    ("unk_in3", Array(IN3, None)), ("arr_un", Array(UN, 2)), ("strs", Array(Array(CHAR, 4), 3)),
    ("bf2", BF2), ("arr_bf2", Array(BF2, 2)),
    ("u16s", Array(USHORT, 6)), ("u32s", Array(UINT_, 5)), ("wcs", Array(INT, 5)), ("unk_u16", Array(USHORT, None)), ("unk_u32", Array(UINT_, None)),
    ("wide_in", WIDE),
]


def chains(t, depth=4):
    """every designator chain (up to `depth` designators) into aggregate t"""
    out = []
    if depth == 0 or isinstance(t, Scalar):
        return out
    if isinstance(t, Array):
        subs = [(("i", i), t.elem) for i in range(t.n if t.n is not None else 3)]
    else:
        subs = [(("m", n), mt) for n, mt in t.members]
    for d, st in subs:
        out.append([d])
        out.extend([d] + c for c in chains(st, depth - 1))
    return out


def systematic(limit_per_type=None):
    """deterministic family: for every type and every designator chain D into it, the spellings
       { D = 1, 2, 3 } and { 1, D = 2, 3 } -- "initialization continues with the next subobject after the one
       described by the designator" (6.7.9p17), at every position of every aggregate (incl. after unnamed bit-fields,
       at the end of nested aggregates, inside unions)."""
    out = []
    for tid, t in TYPES:
        cs = chains(t)
        if limit_per_type and len(cs) > limit_per_type:
            step = len(cs) / float(limit_per_type)
            cs = [cs[int(i * step)] for i in range(limit_per_type)]
        for c in cs:
            for form in (0, 1):
                items = [(c, ("expr", 11)), ([], ("expr", 12)), ([], ("expr", 13))] if form == 0 else \
                        [([], ("expr", 21)), (c, ("expr", 22)), ([], ("expr", 23))]
                init = ("list", items, False)
                for cut in (3, 2):
                    try:
                        ref = Ref(t).run(("list", items[:cut], False))
                    except (Invalid, IndexError, KeyError, RecursionError):
                        continue
                    out.append((tid, t, ("list", items[:cut], False), ref.vals, ref.ty))
                    break
    return out


def generate(seed, count):
    """[(type id, type, init, reference values dict, actual type)]"""
    rnd = random.Random(seed)
    out = []
    tries = 0
    while len(out) < count and tries < count * 40:
        tries += 1
        tid, t = TYPES[tries % len(TYPES)]
        g = Gen(rnd)
        init = g.init_for(t)
        if init[0] == "expr":
            continue
        try:
            ref = Ref(t).run(init)
        except Invalid:
            continue
        except (IndexError, KeyError, RecursionError):
            continue
        out.append((tid, t, init, ref.vals, ref.ty))
    return out
