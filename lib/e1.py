# E1 `cbmc-src`: run sets of cbmc harnesses that #include the real translation units.
import os, re, json, time
import vf

HARNESS = os.path.join(vf.VERIF, "harness")


class H:
    """One harness function = one obligation (+ its vacuity witness twin)."""

    def __init__(self, fn, key=None, unwind=None, unwindset=(), defines=(), flags=(), timeout=600,
                 replace_calls=(), witness=True, native=True, family=None, object_bits=None,
                 std=True, desc="", unwind_violation=False, instrument=()):
        self.fn = fn
        self.key = key or fn
        self.unwind = unwind
        self.unwindset = tuple(unwindset)
        self.defines = tuple(defines)
        self.flags = tuple(flags)
        self.timeout = timeout
        self.replace_calls = tuple(replace_calls)
        self.witness = witness
        self.native = native
        self.family = family
        self.object_bits = object_bits
        self.std = std
        self.desc = desc
        self.instrument = tuple(instrument)
        self.unwind_violation = unwind_violation     # True: a failed unwinding assertion is a termination VIOLATION, not a too-small bound


def _flatten(prefix, v, out):
    """Flatten a cbmc JSON trace value into C assignments to IN.*"""
    if not isinstance(v, dict):
        return
    if "members" in v:
        for m in v["members"]:
            if m["name"].startswith("$"):
                continue
            _flatten(prefix + "." + m["name"], m.get("value"), out)
    elif "elements" in v:
        for e in v["elements"]:
            _flatten("%s[%s]" % (prefix, e["index"]), e.get("value"), out)
    elif "binary" in v:
        b = v["binary"]
        n = int(b, 2)
        out.append("%s = (__typeof__(%s))0x%xULL;" % (prefix, prefix, n))
    elif v.get("name") == "pointer":
        pass


def inputs_from_trace(trace):
    """C statements reproducing the final value of the harness input struct IN."""
    state = {}
    order = []
    for st in trace or []:
        if st.get("stepType") != "assignment":
            continue
        lhs = st.get("lhs", "")
        if not (lhs == "IN" or lhs.startswith("IN.") or lhs.startswith("IN[")):
            continue
        out = []
        lhs_c = re.sub(r"\[(\d+)[a-zA-Z]*\]", r"[\1]", lhs)
        _flatten(lhs_c, st.get("value"), out)
        for a in out:
            k = a.split(" = ")[0]
            if "$" in k:
                continue
            if k not in state:
                order.append(k)
            state[k] = a
    return [state[k] for k in order]


def native_replay(src, fn, assigns, defines=(), extra_src=()):
    """Compile the harness natively against /repo and run one harness function with the
    counterexample inputs. Returns (reproduced: bool|None, output, replay_text)."""
    text = "// native replay of a cbmc counterexample against the real code in /repo\n"
    text += "// build: gcc -w -I /repo -I %s <this file> && ./a.out\n" % HARNESS
    text += "#define NATIVE 1\n"
    for d in defines:
        if "=" in d:
            k, v = d.split("=", 1)
            text += "#define %s %s\n" % (k, v)
        else:
            text += "#define %s 1\n" % d
    text += "#define LOAD_INPUTS " + " ".join(assigns) + "\n"
    text += '#include "%s"\n' % src
    text += "int main(void) { %s(); return 0; }\n" % fn
    d = vf.subdir("native")
    p = os.path.join(d, "replay_%s_%d.c" % (fn, os.getpid()))
    with open(p, "w") as fh:
        fh.write(text)
    exe = p[:-2] + ".exe"
    rc, o, e, _ = vf.run(["gcc", "-w", "-O0", "-I", vf.REPO, "-I", HARNESS, "-o", exe, p] + list(extra_src),
                         timeout=120)
    if rc != 0:
        return None, "native build failed: " + e[-800:], text
    rc, o, e, _ = vf.run([exe], timeout=60)
    out = (o + e)[-800:]
    if rc == 1 and "ASSERT-FAILED" in o:
        return True, out, text
    if rc is not None and rc < 0:
        return True, "died with signal %d\n%s" % (-rc, out), text
    if rc == 134:
        return True, "abort()\n" + out, text
    if rc == 0:
        return False, out, text
    return None, "rc=%s %s" % (rc, out), text


def run_set(chk, src, harnesses, workers=None, extra_src=()):
    """Compile `src` (a harness file that includes real /repo units) per distinct define set,
    run every harness + witness twin, add obligations to chk."""
    src = os.path.join(HARNESS, src) if not os.path.isabs(src) else src
    if os.environ.get("VERIF_KEYS"):      # development aid: run only the obligations whose key contains one of these
        pats = os.environ["VERIF_KEYS"].split(",")
        harnesses = [h for h in harnesses if any(p in h.key for p in pats)]
    work = vf.subdir("e1")
    bins = {}

    def binfor(defs):
        k = tuple(defs)
        if k not in bins:
            out = os.path.join(work, "%s_%d_%x.gb" % (os.path.basename(src), os.getpid(), hash(k) & 0xffffff))
            vf.goto_cc([src] + list(extra_src), out, defines=defs, includes=[HARNESS])
            bins[k] = out
        return bins[k]

    # compile serially (fast), run in parallel
    jobs = []
    for h in harnesses:
        jobs.append((h, False, binfor(h.defines)))
        if h.witness:
            jobs.append((h, True, binfor(h.defines + ("WITNESS",))))

    def go(job):
        h, wit, gb = job
        r = vf.cbmc(gb, h.fn, unwind=h.unwind, unwindset=h.unwindset, flags=h.flags,
                    timeout=h.timeout, replace_calls=h.replace_calls, trace=not wit,
                    object_bits=h.object_bits, std=h.std, instrument=h.instrument)
        return job, r

    results = vf.pmap(go, jobs, workers or vf.NCPU)
    by = {}
    for (h, wit, gb), r in results:
        by.setdefault(h.key, {})[wit] = (h, r)
    for key, d in by.items():
        h, r = d[False]
        secs = r.secs
        if True in d:
            wr = d[True][1]
            secs += wr.secs
            wit_ok = (wr.status == "violated" and
                      any("WITNESS" in (f[1] or "") for f in wr.failed) and not wr.unwind_failed)
        else:
            wit_ok = True
        chk.functions.add("%s:%s" % (os.path.basename(src), h.fn))
        fam = h.family or key.split("/")[0]
        if r.status == "proved":
            if wit_ok:
                chk.witnesses += 1 if True in d else 0
                chk.add(key, "proved", "%d cbmc properties, %s" % (r.nprops, h.desc), secs, family=fam)
            else:
                chk.add(key, "inconclusive", "vacuity witness did not reach the end of the harness (%s %s)"
                        % (d[True][1].status, d[True][1].detail[:200]), secs, family=fam)
        elif r.status == "violated":
            descs = "; ".join("%s [%s:%s]" % (f[1], f[2].get("file", "?").split("/")[-1], f[2].get("line", "?"))
                              for f in r.failed[:4])
            if r.unwind_failed and all("unwind" in (f[0] or "") for f in r.failed) and not h.unwind_violation:
                chk.add(key, "inconclusive", "unwinding assertion failed (bound too small): " + descs,
                        secs, family=fam)
                continue
            assigns = inputs_from_trace(r.trace)
            if h.native:
                rep, out, text = native_replay(src, h.fn, assigns, h.defines, extra_src)
            else:
                rep, out, text = None, "no native replay for this harness", "\n".join(assigns)
            path = chk.write_replay(key, text + "\n/* cbmc: %s\n   failed: %s\n   native: %s */\n"
                                    % (r.cmd, descs, out.replace("*/", "* /")))
            if rep is True:
                chk.add(key, "violated", descs + " | native: " + out.strip()[:200], secs, replay=path, family=fam)
            elif rep is False:
                chk.add(key, "mismatch", "cbmc counterexample did not reproduce natively: " + descs, secs,
                        replay=path, family=fam)
            else:
                # cannot replay natively (stubbed environment): report, flagged as model-level
                chk.add(key, "violated" if not h.native else "mismatch",
                        descs + " | replay: " + out.strip()[:200], secs, replay=path, family=fam)
        else:
            chk.add(key, "inconclusive", r.detail[:300], secs, family=fam)
    for b in bins.values():
        for p in (b, b + ".rc.gb"):
            try:
                os.remove(p)
            except OSError:
                pass
