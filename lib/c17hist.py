# C17: turn a counterexample of the inductive-step harness (a table state at capacity 4/8/16 plus one
# operation) into a concrete HISTORY through the public API (hashmap_put2/get2/delete2) starting from
# an EMPTY map, at the real initial capacity 16, and run it natively against /repo's hashmap.c.
# The state is re-embedded: probe order, home-slot offsets, tombstones and key-equalities are kept;
# the key strings are new ones chosen (by evaluating FNV-1 in Python) to have the required home slots
# modulo 16.  Only used to REPLAY a solver counterexample, never to decide anything.
import re

FNV_BASIS = 0xcbf29ce484222325
FNV_PRIME = 0x100000001b3
M64 = (1 << 64) - 1


def fnv(b):
    h = FNV_BASIS
    for c in b:
        h = (h * FNV_PRIME) & M64
        h ^= c
    return h


def parse_inputs(text):
    """IN.* assignments of an e1 native replay file -> dict name -> {index tuple: value}"""
    vals = {}
    for m in re.finditer(r"IN\.(\w+)((?:\[\d+\])*) = \(__typeof__\([^;]*?\)\)0x([0-9a-fA-F]+)ULL;", text):
        idx = tuple(int(x) for x in re.findall(r"\[(\d+)\]", m.group(2)))
        vals.setdefault(m.group(1), {})[idx] = int(m.group(3), 16)
    return vals


def build_history(text, op):
    """Returns (C source, description) or (None, reason)."""
    m = re.search(r"#define CAP (\d+)", text)
    cap = int(m.group(1)) if m else 4
    m = re.search(r"#define KLEN (\d+)", text)
    klen = int(m.group(1)) if m else 2
    IN = parse_inputs(text)
    kind = [IN.get("kind", {}).get((s,), 0) for s in range(cap)]
    def keybytes(p):
        n = IN.get("kl", {}).get((p,), 0)
        return bytes(IN.get("kb", {}).get((p, i), 0) for i in range(n))
    keys = [keybytes(p) for p in range(cap + 2)]
    opk, xk = keys[cap], keys[cap + 1]
    nulls = [s for s in range(cap) if kind[s] == 0]
    if not nulls:
        return None, "state has no NULL slot"
    if sum(1 for k in kind if k) > 11:
        return None, "more than 11 occupied slots: not reachable at capacity 16 without a rehash"
    r = nulls[-1]
    pos = lambda s: (s - r - 1) % cap
    home = lambda kb: (fnv(kb) % cap - r - 1) % cap
    # choose real key strings with the required residues mod 16
    pool = {}
    n = 0
    used_names = set()
    def fresh(res):
        nonlocal n
        while True:
            s = "k%d" % n
            n += 1
            if fnv(s.encode()) % 16 == res and s not in used_names:
                used_names.add(s)
                return s
    name_of = {}
    def name(kb):
        if kb not in name_of:
            name_of[kb] = fresh(home(kb))
        return name_of[kb]
    ops = []   # (op, keyname, val)
    v = 0x100
    dummies = []
    order = sorted(range(cap), key=pos)
    for s in order:
        if kind[s] == 0:
            continue
        if kind[s] == 2:
            ops.append(("put", name(keys[s]), v))
        else:
            d = fresh(pos(s))
            dummies.append(d)
            ops.append(("put", d, v))
        v += 1
    for d in dummies:
        ops.append(("del", d, 0))
    nbuild = len(ops)
    ops.append((op, name(opk), v))
    v += 1
    # exposing suffix: observe every key, then delete each key in turn observing all keys each time
    allkeys = []
    for o in ops:
        if o[1] not in allkeys:
            allkeys.append(o[1])
    if name(xk) not in allkeys:
        allkeys.append(name(xk))
    for k in allkeys:
        ops.append(("del", k, 0))
    lines = []
    lines.append("// C17 replay: a history through the PUBLIC hashmap API from an EMPTY map (capacity 16), derived")
    lines.append("// from a cbmc counterexample of the inductive-step harness (capacity %d state, operation %s)." % (cap, op))
    lines.append("// After every operation every key is looked up and compared with a plain reference dictionary.")
    lines.append("// build: gcc -w -I /repo <this file> && ./a.out   (exit 1 = dictionary semantics violated)")
    lines.append('#include "hashmap.c"')
    lines.append("void error(char *fmt, ...) { printf(\"VIOLATION: unreachable()/error() reached in hashmap.c\\n\"); exit(1); }")
    lines.append("char *format(char *fmt, ...) { return 0; }")
    lines.append("static HashMap map;   // empty map")
    lines.append("static char *K[] = { %s };" % ", ".join('"%s"' % k for k in allkeys))
    lines.append("static void *model[%d];" % len(allkeys))
    lines.append("static int step;")
    lines.append("static void observe(const char *what, const char *key) {")
    lines.append("  step++;")
    lines.append("  printf(\"%2d  %s(\\\"%s\\\")\\n\", step, what, key);")
    lines.append("  for (int i = 0; i < %d; i++) {" % len(allkeys))
    lines.append("    void *got = hashmap_get2(&map, K[i], strlen(K[i]));")
    lines.append("    if (got != model[i]) {")
    lines.append("      printf(\"VIOLATION after step %d: hashmap_get2(\\\"%s\\\") returned %p, the dictionary says %p%s\\n\",")
    lines.append("             step, K[i], got, model[i], model[i] ? \"\" : \" (absent)\");")
    lines.append("      exit(1);")
    lines.append("    }")
    lines.append("  }")
    lines.append("}")
    lines.append("int main(void) {")
    for i, (o, k, val) in enumerate(ops):
        ki = allkeys.index(k)
        if i == nbuild:
            lines.append("  // --- the operation of the counterexample ---")
        if i == nbuild + 1:
            lines.append("  // --- afterwards: delete every key in turn, observing the whole dictionary each time ---")
        if o == "put":
            lines.append("  hashmap_put2(&map, K[%d], strlen(K[%d]), (void *)0x%x); model[%d] = (void *)0x%x; observe(\"put\", K[%d]);"
                         % (ki, ki, val, ki, val, ki))
        elif o == "del":
            lines.append("  hashmap_delete2(&map, K[%d], strlen(K[%d])); model[%d] = 0; observe(\"delete\", K[%d]);" % (ki, ki, ki, ki))
        else:
            lines.append("  observe(\"get\", K[%d]);" % ki)
    lines.append("  printf(\"history replayed: dictionary semantics held\\n\");")
    lines.append("  return 0;")
    lines.append("}")
    desc = " ".join("%s(%s)" % (o, k) for (o, k, _) in ops[:nbuild + 1])
    return "\n".join(lines) + "\n", desc
