# Replay of an E1 counterexample file whose harness includes parse.c and therefore needs further real
# translation units linked in (vf.generic_replay compiles the replay file alone).
import os
import vf


def replay_with(path, units=("type.c", "hashmap.c")):
    """Exit status convention of ./check --replay: 1 = violation reproduces, 0 = it does not, 2 = cannot build."""
    if not path.endswith(".c"):
        return vf.generic_replay(path)
    d = vf.subdir("replay")
    exe = os.path.join(d, "replay.exe")
    extra = [os.path.join(vf.REPO, u) for u in units]
    rc, o, e, _ = vf.run(["gcc", "-w", "-O0", "-I", vf.REPO, "-I", os.path.join(vf.VERIF, "harness"), "-o", exe, path]
                         + extra, timeout=120)
    if rc != 0:
        print("replay build failed:\n" + e[-2000:])
        return 2
    rc, o, e, _ = vf.run([exe], timeout=60)
    print(o + e)
    if rc == 0:
        print("replay: property held on this input (not reproduced)")
        return 0
    print("replay: reproduced (rc=%s)" % rc)
    return 1
