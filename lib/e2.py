# E2 driver: probe programs -> chibicc -S (fresh build of /repo) -> symbolic execution (asmx)
# -> z3 queries -> native replay of counterexamples -> obligations.
import os, sys, time, random, traceback, struct
import multiprocessing as mp
import z3
import vf, asmx, cref
from cref import is_fp

GP_ARGS = ["rdi", "rsi", "rdx", "rcx", "r8", "r9"]


# ------------------------------------------------------------------------------------------
# Probes
# ------------------------------------------------------------------------------------------
class Goal:
    def __init__(self, name, hyps, goal, values=None, note=""):
        self.name, self.hyps, self.goal = name, hyps, goal
        self.values = values or {}      # name -> z3 expr to evaluate in a counterexample model
        self.note = note


class Probe:
    """Base class. Subclasses set key, family, csrc (C text), fn (function to execute)."""
    key = family = csrc = fn = None
    max_visits = 4
    extern_ret = None
    timeout_ms = 30000
    inline = ()

    def init(self, M, s):
        pass

    def goals(self, M, finals):
        raise NotImplementedError

    def replay_sources(self, values):
        """(probe_c, driver_c) for a native replay, or None."""
        return None

    def validation(self):
        """Optional concrete differential validation descriptor."""
        return None


def arg_layout(argtypes):
    """psABI placement for scalar args: returns list of ('gp', reg) | ('sse', n) | ('mem', offset from RSP0)."""
    gp = sse = 0
    mem = 8
    out = []
    for t in argtypes:
        if is_fp(t) and t.bits == 80:
            mem = (mem + 15) // 16 * 16 if False else mem
            out.append(("mem", mem))
            mem += 16
        elif is_fp(t):
            if sse < 8:
                out.append(("sse", sse))
                sse += 1
            else:
                out.append(("mem", mem))
                mem += 8
        else:
            if gp < 6:
                out.append(("gp", GP_ARGS[gp]))
                gp += 1
            else:
                out.append(("mem", mem))
                mem += 8
    return out


def fits_abi_simple(argtypes):
    """long double stack args need 16-byte alignment: RSP0+8 is 16-aligned at entry (RSP0 = 16n+8)."""
    return True


class ScalarProbe(Probe):
    """`RT fn(T1 a1, ..., Tn an) { body }` whose result must equal ref(args) whenever defined(args)."""

    def __init__(self, key, fn, ret, args, body, ref, family=None, pre="", extern_ret=None, max_visits=4,
                 timeout_ms=30000, note="", extra_hyps=None):
        self.key, self.fn, self.ret, self.args, self.body, self.ref = key, fn, ret, args, body, ref
        self.family = family or key.split("/")[0]
        self.pre = pre
        self.extern_ret = extern_ret
        self.max_visits = max_visits
        self.timeout_ms = timeout_ms
        self.note = note
        self.extra_hyps = extra_hyps
        names = ["a", "b", "c", "d", "e", "f", "g", "h", "i", "j", "k", "l"]
        self.argnames = names[:len(args)]
        params = ", ".join("%s %s" % (t.name, n) for t, n in zip(args, self.argnames)) or "void"
        self.proto = "%s %s(%s)" % (ret.name if ret else "void", fn, params)
        self.csrc = "%s\n%s { %s }\n" % (pre, self.proto, body)

    # symbolic argument values as seen in the ABI entry state
    def arg_values(self, M, s0regs=None):
        vals, hyps = [], []
        for t, (kind, where) in zip(self.args, arg_layout(self.args)):
            if kind == "gp":
                r = z3.BitVec("in_" + where, 64)
                v = z3.Extract(t.bits - 1, 0, r) if t.bits < 64 else r
            elif kind == "sse":
                r = z3.BitVec("in_xmm%d" % where, 64)
                v = z3.Extract(31, 0, r) if t.bits == 32 else r
            else:
                n = 10 if (is_fp(t) and t.bits == 80) else t.bits // 8
                bs = [z3.Select(M.M0, z3.simplify(M.RSP0 + asmx.bv(where + i))) for i in range(n)]
                v = z3.simplify(z3.Concat(*reversed(bs))) if n > 1 else bs[0]
            if t.is_bool:
                hyps.append(z3.ULE(v, asmx.bv(1, 8)))
            if is_fp(t) and t.bits == 80:
                hyps.append(asmx.x87_canonical(v))
            vals.append(v)
        return vals, hyps

    @staticmethod
    def as_fp(v, t):
        if t.bits == 80:
            return asmx.x87_from_bits(v)
        return asmx.bv2fp(v, t.sort)

    def goals(self, M, finals):
        vals, hyps = self.arg_values(M)
        if self.extra_hyps:
            hyps = hyps + self.extra_hyps(vals)
        refv, defined = self.ref(*vals)
        out = []
        values = {n: v for n, v in zip(self.argnames, vals)}
        # a _Bool argument has two values: decide each case separately (the solver then propagates constants)
        import itertools
        bools = [v for v, t in zip(vals, self.args) if t.is_bool]
        cases = [[]]
        if bools and any(is_fp(t) for t in list(self.args) + [self.ret] if t is not None):
            cases = [[v == asmx.bv(c, 8) for v, c in zip(bools, combo)] for combo in itertools.product((0, 1), repeat=len(bools))]
        for (pi, s), (ci, case) in itertools.product(enumerate(finals), enumerate(cases)):
            if s.dead:
                continue
            H = hyps + [defined] + s.pc + case
            tag = ("" if len(finals) == 1 else "/path%d" % pi) + ("" if len(cases) == 1 else "/b%d" % ci)
            if s.wild:
                out.append(Goal("wildjump" + tag, H, z3.BoolVal(False), values))
                continue
            # frame discipline at ret
            fr = z3.And(s.regs["rsp"] == M.RSP0 + asmx.bv(8), s.regs["rbp"] == z3.BitVec("in_rbp", 64),
                        s.regs["rbx"] == z3.BitVec("in_rbx", 64))
            want_depth = 1 if (self.ret is not None and is_fp(self.ret) and self.ret.bits == 80) else 0
            if len(s.st) != want_depth or s.x87_overflowed:
                out.append(Goal("x87depth" + tag, H, z3.BoolVal(False), values,
                                note="x87 depth %d at ret, expected %d" % (len(s.st), want_depth)))
                continue
            out.append(Goal("frame" + tag, H, fr, values))
            for tr in s.traps:
                out.append(Goal("notrap" + tag, H, z3.Not(tr), values))
            if self.ret is None:
                continue
            t = self.ret
            if is_fp(t):
                if t.bits == 80:
                    got = s.st[-1]
                    goal = got == refv
                else:
                    raw = s.xmm[0]
                    gb = z3.Extract(31, 0, raw) if t.bits == 32 else raw
                    got = asmx.bv2fp(gb, t.sort)
                    goal = z3.If(z3.fpIsNaN(refv), z3.fpIsNaN(got), z3.And(z3.Not(z3.fpIsNaN(got)), got == refv))
            else:
                rax = s.regs["rax"]
                got = z3.Extract(t.bits - 1, 0, rax) if t.bits < 64 else rax
                goal = got == refv
            vv = dict(values)
            vv["__expected"] = refv
            out.append(Goal("value" + tag, H, goal, vv))
        return out

    # ---- native replay / validation -----------------------------------------------------
    def c_literal(self, t, v):
        if is_fp(t):
            if t.bits == 32:
                return "u2f(0x%xu)" % v
            if t.bits == 64:
                return "u2d(0x%xUL)" % v
            return "u2ld(0x%xUL, 0x%xu)" % (v & ((1 << 64) - 1), v >> 64)
        if t.signed:
            if v >= 1 << (t.bits - 1):
                v -= 1 << t.bits
            if t.bits == 64:
                return "(long)0x%xUL" % (v & ((1 << 64) - 1))
            return "(%s)(%d)" % (t.name, v)
        return "(%s)0x%xUL" % (t.name, v)

    DRIVER_PRE = r'''
#include <stdio.h>
#include <string.h>
#include <stdint.h>
static float u2f(uint32_t u){ float f; memcpy(&f,&u,4); return f; }
static double u2d(uint64_t u){ double f; memcpy(&f,&u,8); return f; }
static long double u2ld(uint64_t lo, unsigned hi){ long double f=0; memcpy(&f,&lo,8); uint16_t h=hi; memcpy((char*)&f+8,&h,2); return f; }
static void show(const void *p, int n){ const unsigned char *c=p; for(int i=n-1;i>=0;i--) printf("%02x", c[i]); printf("\n"); }
'''

    def driver(self, tuples):
        """C driver (for gcc) that calls fn on each tuple of raw argument values and prints the result bytes."""
        d = self.DRIVER_PRE + "extern %s;\nint main(void){\n" % self.proto
        for tup in tuples:
            call = "%s(%s)" % (self.fn, ", ".join(self.c_literal(t, v) for t, v in zip(self.args, tup)))
            if self.ret is None:
                d += "  %s; printf(\"void\\n\");\n" % call
            else:
                n = 10 if (is_fp(self.ret) and self.ret.bits == 80) else self.ret.bits // 8
                d += "  { %s r = %s; show(&r, %d); }\n" % (self.ret.name, call, n)
        d += "  return 0;\n}\n"
        return d

    def replay_sources(self, values):
        tup = [values.get(n, 0) for n in self.argnames]
        exp = values.get("__expected")
        d = self.driver([tup])
        return self.csrc, d, exp

    def expected_hex(self, exp):
        t = self.ret
        n = 10 if (is_fp(t) and t.bits == 80) else t.bits // 8
        return "%0*x" % (2 * n, exp)


# ------------------------------------------------------------------------------------------
# Worker
# ------------------------------------------------------------------------------------------
_PROBES = []
_BUILD = None


def model_int(model, e):
    v = model.eval(e, model_completion=True)
    if z3.is_bv_value(v):
        return v.as_long()
    if z3.is_fp_value(v) and v.isNaN():
        srt = v.sort()
        if srt == asmx.X87:
            return 0x7fffc000000000000000
        return 0x7fc00000 if srt == z3.Float32() else 0x7ff8000000000000
    if z3.is_fp_value(v) or z3.is_fp(v):
        b = model.eval(z3.fpToIEEEBV(v), model_completion=True)
        if v.sort() == asmx.X87:
            # 79-bit IEEE image -> 80-bit x87 image
            b = model.eval(asmx.x87_to_bits(v), model_completion=True)
        if z3.is_bv_value(b):
            return b.as_long()
        return None
    if z3.is_true(v):
        return 1
    if z3.is_false(v):
        return 0
    return None


def native_run(probe_c, driver_c, tag):
    """Compile probe with the fresh chibicc, driver with gcc, link, run. Returns (rc, stdout, stderr)."""
    d = vf.subdir("e2n")
    base = os.path.join(d, "%s_%d" % (tag, os.getpid()))
    with open(base + "_p.c", "w") as fh:
        fh.write(probe_c)
    with open(base + "_d.c", "w") as fh:
        fh.write(driver_c)
    chib = os.path.join(_BUILD, "chibicc")
    rc, o, e, _ = vf.run([chib, "-I" + os.path.join(_BUILD, "include"), "-c", "-o", base + "_p.o", base + "_p.c"],
                         timeout=120)
    try:
        if rc != 0:
            return ("cc-fail", rc, o + e)
        rc, o, e, _ = vf.run(["gcc", "-w", "-O1", "-pthread", "-o", base + ".exe", base + "_d.c", base + "_p.o", "-lm"], timeout=120)
        if rc != 0:
            return ("link-fail", rc, o + e)
        rc, o, e, _ = vf.run([base + ".exe"], timeout=60)
        return ("ran", rc, o)
    finally:
        for suf in ("_p.c", "_d.c", "_p.o", ".exe"):
            try:
                os.remove(base + suf)
            except OSError:
                pass


NOREPLAY_SH = r'''#!/bin/bash
# This counterexample has no stand-alone native replay (the property is about machine state at a point inside the
# function, e.g. a call site). The probe below is the input; re-run the check to re-derive the verdict.
cat <<'EOF_INFO'
%s
EOF_INFO
cat > "$WORK/p.c" <<'EOF_P'
%s
EOF_P
"$CHIBICC" -I"$CHIBICC_INCLUDE" -S -o "$WORK/p.s" "$WORK/p.c" && echo "probe compiled to $WORK/p.s (inspect the emitted code)"
exit 1
'''

REPLAY_SH = r'''#!/bin/bash
# Replay of an E2 (asm-smt) counterexample against the real compiler.
# env: CHIBICC (binary built from /repo's tree), CHIBICC_INCLUDE, WORK (scratch dir)
# exit 0 = property held on this input, non-zero = violation reproduced
set -u
cat > "$WORK/p.c" <<'EOF_P'
%(probe)s
EOF_P
cat > "$WORK/d.c" <<'EOF_D'
%(driver)s
EOF_D
"$CHIBICC" -I"$CHIBICC_INCLUDE" -c -o "$WORK/p.o" "$WORK/p.c" || { echo "chibicc failed"; exit 3; }
gcc -w -O0 -o "$WORK/t.exe" "$WORK/d.c" "$WORK/p.o" -lm || exit 4
got=$("$WORK/t.exe" | head -1)
echo "query: %(key)s"
echo "got=$got expected=%(expected)s   # %(note)s"
[ "$got" = "%(expected)s" ]
'''


def _assembles(asm, tag):
    """does the real assembler accept the emitted text? (every probe program is also an instance of C13's
    'output that the assembler accepts')"""
    d = vf.subdir("as")
    sp = os.path.join(d, tag + ".s")
    with open(sp, "w") as fh:
        fh.write(asm)
    rc, o, e, _ = vf.run(["as", "-o", os.path.join(d, tag + ".o"), sp], timeout=120)
    for f in (sp, os.path.join(d, tag + ".o")):
        try:
            os.remove(f)
        except OSError:
            pass
    return rc == 0


def _work(idxs):
    """Worker: compile a chunk of probes into one translation unit, execute, prove."""
    global _BUILD
    results = []
    probes = [_PROBES[i] for i in idxs]
    t0 = time.time()
    src = "\n".join(p.csrc for p in probes)
    rc, asm, err = vf.chibicc_S(src, name="chunk%d_%d" % (idxs[0], os.getpid()), builddir=_BUILD, want_rc=True)
    progs = {}
    P = None
    if rc == 0 and not _assembles(asm, "chunk%d_%d" % (idxs[0], os.getpid())):
        rc = -999           # the assembler rejects the emitted text: isolate the probe(s) below
    if rc == 0:
        try:
            P = asmx.Program(asm, comm_zero=all(getattr(p, "comm_zero", False) for p in probes))
        except asmx.Unmodelled:
            P = None
    if P is not None:
        for p in probes:
            progs[p.key] = P
    else:
        for p in probes:
            rc1, asm1, err1 = vf.chibicc_S(p.csrc, name="one%d_%s" % (os.getpid(), p.fn), builddir=_BUILD, want_rc=True)
            if rc1 == 0 and not _assembles(asm1, "one%d_%s" % (os.getpid(), p.fn)):
                progs[p.key] = ("asm-unparsable", "the assembler rejects the emitted text", asm1)
            elif rc1 == 0:
                try:
                    progs[p.key] = asmx.Program(asm1, comm_zero=getattr(p, "comm_zero", False))
                except asmx.Unmodelled as ex:
                    progs[p.key] = ("asm-unparsable", str(ex), asm1)
            else:
                progs[p.key] = ("compile-fail", rc1, err1)
    for p in probes:
        t1 = time.time()
        P = progs[p.key]
        res = dict(key=p.key, family=p.family, status="proved", detail="", secs=0.0, replay=None, nq=0,
                   insns=0, paths=0, validated=0)
        try:
            if isinstance(P, tuple) and P[0] == "asm-unparsable":
                # the emitted text is outside the closed vocabulary: does the real assembler accept it?
                kind, rc2, out = native_run(p.csrc, "int main(void){return 0;}\n", "as")
                if kind == "cc-fail":
                    res["status"] = "violated"
                    res["detail"] = "emitted assembly is not assemblable (%s): %s" % (P[1], out.strip()[-200:])
                    res["replay"] = ("#!/bin/bash\n# emitted assembly is rejected by the assembler\ncat > \"$WORK/p.c\" <<'EOF_P'\n%s\nEOF_P\n"
                                     "\"$CHIBICC\" -I\"$CHIBICC_INCLUDE\" -c -o \"$WORK/p.o\" \"$WORK/p.c\"\n" % p.csrc)
                else:
                    res["status"] = "inconclusive"
                    res["detail"] = "unmodelled assembly: " + P[1]
                res["secs"] = time.time() - t1
                results.append(res)
                continue
            if isinstance(P, tuple):
                _, rc1, err1 = P
                res["status"] = "violated"
                res["detail"] = "chibicc rejected/crashed on a valid probe program (rc=%s): %s" % (rc1, err1.strip()[-300:])
                res["replay"] = ("#!/bin/bash\n# valid program rejected by chibicc\ncat > \"$WORK/p.c\" <<'EOF_P'\n%s\nEOF_P\n"
                                 "\"$CHIBICC\" -I\"$CHIBICC_INCLUDE\" -c -o \"$WORK/p.o\" \"$WORK/p.c\"\n" % p.csrc)
                results.append(res)
                continue
            M = asmx.Machine(P, max_visits=p.max_visits, extern_ret=p.extern_ret)
            M.inline = p.inline
            M.stop_after = getattr(p, "stop_after", {})
            M.cut_loops = getattr(p, "cut_loops", False)
            for v in getattr(p, "volatile", ()):
                M.volatile.add("&" + v)
                M.symaddr(v)
            if hasattr(p, "assumptions"):
                M.assumes.extend(p.assumptions(M))      # input preconditions: prune infeasible paths while exploring
            finals = M.run(p.fn, init=lambda s: p.init(M, s))
            res["paths"] = len(finals)
            res["insns"] = sum(M.insn_count.values())
            goals = p.goals(M, finals)
            res["nq"] = len(goals)
            # vacuity guard: the hypotheses of the probe's main goal must be satisfiable (otherwise every goal
            # "holds" for no input at all)
            main = [g for g in goals if g.name.startswith(("value", "linearization", "trace", "param", "arg", "bits", "byte", "vararg", "ret"))] or goals[:1]
            if main and (len(main[0].hyps) <= 30 or hash(p.key) % 5 == 0):
                vr = z3.unsat
                for mg in main[:8]:          # some paths are legitimately infeasible under the definedness precondition
                    vs = z3.Solver()
                    vs.set("timeout", 20000)
                    vs.add(*M.assumes)
                    vs.add(*mg.hyps)
                    vr = vs.check()
                    if vr != z3.unsat:
                        break
                if vr == z3.unsat:
                    res["status"] = "vacuous"
                    res["detail"] = "vacuous: the hypotheses of every main goal (%s ...) are unsatisfiable" % main[0].name
                    res["secs"] = time.time() - t1
                    results.append(res)
                    continue
                res["witness"] = 1 if vr == z3.sat else 0
            for g in goals:
                st, model = asmx.prove(M, g.hyps, g.goal, timeout_ms=p.timeout_ms)
                if st == "proved":
                    continue
                if st == "unknown":
                    res["status"] = "inconclusive"
                    res["detail"] = "solver unknown on goal %s: %s" % (g.name, model)
                    break
                # counterexample: evaluate, replay natively
                vals = {k: model_int(model, v) for k, v in g.values.items()}
                desc = "goal `%s` refuted %s; cex %s" % (g.name, g.note, {k: (hex(v) if isinstance(v, int) else v)
                                                                          for k, v in vals.items()})
                if hasattr(p, "runtime_replay") and p.runtime_replay() is not None:
                    ok, out, script = run_runtime_replay(p.runtime_replay())
                    res["replay"] = script
                    res["status"] = "mismatch" if ok else "violated"
                    res["detail"] = desc + " | native: " + out
                    break
                rs = p.replay_sources(vals)
                if rs is None or vals.get("__expected") is None or g.name.split("/")[0] != "value":
                    res["status"] = "violated-unreplayed"
                    res["detail"] = desc
                    res["replay"] = NOREPLAY_SH % (desc.replace("'", "").replace("`", ""), p.csrc)
                    break
                probe_c, driver_c, exp = rs
                exp_hex = p.expected_hex(exp)
                kind, rc2, out = native_run(probe_c, driver_c, "rp")
                got = out.strip().split("\n")[0] if kind == "ran" else "%s rc=%s" % (kind, rc2)
                script = REPLAY_SH % dict(probe=probe_c, driver=driver_c, key=p.key, expected=exp_hex,
                                          note=desc.replace("'", "").replace("`", "").replace("$", ""))
                res["replay"] = script
                if kind == "ran" and rc2 == 0 and _same_result(p, got, exp_hex):
                    res["status"] = "mismatch"
                    res["detail"] = desc + " | native run gives the expected value %s" % got
                else:
                    res["status"] = "violated"
                    res["detail"] = desc + " | native: got %s expected %s" % (got, exp_hex)
                break
        except (asmx.X87Underflow, asmx.X87Overflow) as ex:
            rs = p.runtime_replay() if hasattr(p, "runtime_replay") else None
            res["status"] = "violated-unreplayed"
            res["detail"] = str(ex)
            res["replay"] = NOREPLAY_SH % (str(ex).replace("'", ""), p.csrc)
            if rs is not None:
                ok, out, script = run_runtime_replay(rs)
                res["replay"] = script
                res["status"] = "mismatch" if ok else "violated"
                res["detail"] = str(ex) + " | native: " + out
        except asmx.Unmodelled as ex:
            msg = str(ex)
            if msg.startswith("ASSEMBLER-REJECT"):
                # confirm natively: does the assembler reject chibicc's output?
                kind, rc2, out = native_run(p.csrc, "int main(void){return 0;}\n", "as")
                if kind == "cc-fail":
                    res["status"] = "violated"
                    res["detail"] = msg + " | native: chibicc -c fails: " + out.strip()[-200:]
                    res["replay"] = ("#!/bin/bash\n# emitted assembly is rejected by the assembler\ncat > \"$WORK/p.c\" <<'EOF_P'\n%s\nEOF_P\n"
                                     "\"$CHIBICC\" -I\"$CHIBICC_INCLUDE\" -c -o \"$WORK/p.o\" \"$WORK/p.c\"\n" % p.csrc)
                else:
                    res["status"] = "mismatch"
                    res["detail"] = msg + " | but natively the assembler accepted it"
            else:
                res["status"] = "inconclusive"
                res["detail"] = "unmodelled: " + msg
        except asmx.BoundExceeded as ex:
            res["status"] = "inconclusive"
            res["detail"] = "bound exceeded: " + str(ex)
        except Exception as ex:
            res["status"] = "inconclusive"
            res["detail"] = "executor error: %s\n%s" % (ex, traceback.format_exc()[-600:])
        res["secs"] = time.time() - t1
        results.append(res)
    return results


RUNTIME_SH = r'''#!/bin/bash
# Run-time demonstration: probe compiled by the real chibicc, observer/driver by gcc.
# exit 0 = property held, non-zero = violation reproduced.
set -u
cat > "$WORK/p.c" <<'EOF_P'
%s
EOF_P
cat > "$WORK/d.c" <<'EOF_D'
%s
EOF_D
"$CHIBICC" -I"$CHIBICC_INCLUDE" -c -o "$WORK/p.o" "$WORK/p.c" || { echo "chibicc failed"; exit 3; }
gcc -w -O1 -pthread -o "$WORK/t.exe" "$WORK/d.c" "$WORK/p.o" -lm || exit 4
"$WORK/t.exe"; rc=$?; echo "exit status $rc"; exit $rc
'''


def run_runtime_replay(srcs):
    """srcs = (probe_c for chibicc, driver_c for gcc); the linked program exits 0 iff the property held.
    Returns (held, text, script)."""
    probe_c, driver_c = srcs
    script = RUNTIME_SH % (probe_c, driver_c)
    kind, rc, out = native_run(probe_c, driver_c, "rt")
    if kind != "ran":
        return False, "%s rc=%s %s" % (kind, rc, out[-200:]), script
    return rc == 0, "exit status %s %s" % (rc, out.strip()[-160:]), script


def _same_result(p, got_hex, exp_hex):
    t = getattr(p, "ret", None)
    if t is not None and is_fp(t):
        try:
            g, e = int(got_hex, 16), int(exp_hex, 16)
        except ValueError:
            return False
        if _isnan_bits(g, t.bits) and _isnan_bits(e, t.bits):
            return True
        return g == e
    return got_hex.strip().lower() == exp_hex.strip().lower()


def _isnan_bits(v, bits):
    if bits == 32:
        return (v >> 23) & 0xff == 0xff and v & 0x7fffff != 0
    if bits == 64:
        return (v >> 52) & 0x7ff == 0x7ff and v & ((1 << 52) - 1) != 0
    return (v >> 64) & 0x7fff == 0x7fff and v & ((1 << 63) - 1) != 0


def run_probes(chk, probes, workers=None, chunk=24):
    """Run all probes (parallel, forked workers), record one obligation per probe."""
    global _PROBES, _BUILD
    _BUILD = vf.build_chibicc()
    _PROBES = probes
    keys = set()
    for p in probes:
        if p.key in keys:
            raise RuntimeError("duplicate probe key " + p.key)
        keys.add(p.key)
    idx = list(range(len(probes)))
    chunks = [idx[i:i + chunk] for i in range(0, len(idx), chunk)]
    workers = workers or min(vf.NCPU, max(1, len(chunks)))
    ctx = mp.get_context("fork")
    if workers == 1 or len(chunks) == 1:
        allres = [_work(c) for c in chunks]
    else:
        with ctx.Pool(workers) as pool:
            allres = pool.map(_work, chunks, chunksize=1)
    nq = 0
    nvac = 0
    for rs in allres:
        for r in rs:
            st = r["status"]
            if st == "vacuous":
                # C11 defines the expression for no operand value at all (e.g. `~uc << n`): the probe decides nothing
                nvac += 1
                chk.extra.setdefault("vacuous_probes_dropped", []).append(r["key"])
                continue
            rp = None
            if st in ("violated", "violated-unreplayed", "mismatch") and r["replay"]:
                rp = chk.write_replay(r["key"], r["replay"], ext=".sh")
            if st == "violated-unreplayed":
                st = "violated"
            chk.add(r["key"], st, r["detail"], r["secs"], replay=rp, family=r["family"])
            nq += r["nq"]
    if nvac > max(20, len(probes) // 50):
        chk.add("vacuity/too-many-vacuous-probes", "inconclusive", "%d of %d probes have unsatisfiable hypotheses" % (nvac, len(probes)))
    chk.extra["solver_queries"] = chk.extra.get("solver_queries", 0) + nq
    chk.witnesses += sum(r.get("witness", 0) for rs in allres for r in rs)
    paths = sum(r.get("paths", 0) for rs in allres for r in rs)
    insns = sum(r.get("insns", 0) for rs in allres for r in rs)
    chk.extra["paths_explored"] = chk.extra.get("paths_explored", 0) + paths
    chk.extra["asm_instructions_executed_symbolically"] = chk.extra.get("asm_instructions_executed_symbolically", 0) + insns
    chk.extra["states"] = max(1, chk.extra["paths_explored"])
    chk.extra["transitions"] = max(1, chk.extra["asm_instructions_executed_symbolically"])
    return allres


# ------------------------------------------------------------------------------------------
# Translator validation: the executor's symbolic result, evaluated at concrete inputs, must
# equal what the real CPU computes for the same emitted code.
# ------------------------------------------------------------------------------------------
def boundary_values(t, rnd):
    if is_fp(t):
        if t.bits == 32:
            pool = [0, 0x80000000, 0x3f800000, 0xbf800000, 0x7f800000, 0xff800000, 0x7fc00000, 1, 0x4b800000,
                    0x4f000000, 0x4f800000, 0x5f000000, 0x5f800000, 0x7f7fffff, 0x3effffff, 0xcf000000]
            return pool + [rnd.getrandbits(32) for _ in range(4)]
        if t.bits == 64:
            pool = [0, 1 << 63, 0x3ff0000000000000, 0xbff0000000000000, 0x7ff0000000000000, 0xfff0000000000000,
                    0x7ff8000000000000, 1, 0x41e0000000000000, 0x41f0000000000000, 0x43e0000000000000,
                    0x43f0000000000000, 0x4340000000000001, 0x3fe0000000000000, 0xc1e0000000000000, 0x47efffffe0000000]
            return pool + [rnd.getrandbits(64) for _ in range(4)]
        mk = lambda s, e, m: (s << 79) | (e << 64) | m
        pool = [mk(0, 0, 0), mk(1, 0, 0), mk(0, 16383, 1 << 63), mk(1, 16383, 1 << 63), mk(0, 32767, 1 << 63),
                mk(1, 32767, 1 << 63), mk(0, 32767, 3 << 62), mk(0, 16383 + 63, 1 << 63), mk(0, 16383 + 64, 1 << 63),
                mk(0, 16383 + 31, 1 << 63), mk(0, 16383 + 62, (1 << 64) - 1), mk(0, 0, 1), mk(0, 16382, 1 << 63)]
        return pool + [mk(rnd.getrandbits(1), rnd.randrange(1, 32767), (1 << 63) | rnd.getrandbits(63)) for _ in range(4)]
    if t.is_bool:
        return [0, 1]
    n = t.bits
    pool = [0, 1, 2, (1 << n) - 1, 1 << (n - 1), (1 << (n - 1)) - 1, (1 << (n - 1)) + 1, 0x55 % (1 << n), 7, 31, 32, 63, 64]
    pool = [v & ((1 << n) - 1) for v in pool]
    return pool + [rnd.getrandbits(n) for _ in range(4)]


def validate_scalar(chk, probes, per_probe=6, max_probes=40, seed=0):
    """Differential validation of the executor on ScalarProbes. Records obligations
    `xval/<key>` only when a disagreement is found (as inconclusive: the ENCODING is wrong)."""
    global _BUILD
    _BUILD = vf.build_chibicc()
    rnd = random.Random(seed)
    cand = [p for p in probes if isinstance(p, ScalarProbe) and p.ret is not None]
    rnd.shuffle(cand)
    cand = cand[:max_probes]
    if not cand:
        return 0
    ok = 0
    bad = []
    # one translation unit, one driver per probe batch
    src = "\n".join(p.csrc for p in cand)
    rc, asm, err = vf.chibicc_S(src, name="xval%d" % os.getpid(), builddir=_BUILD, want_rc=True)
    if rc != 0:
        return 0
    P = asmx.Program(asm)
    drivers = ScalarProbe.DRIVER_PRE
    body = "int main(void){\n"
    plan = []
    for p in cand:
        try:
            M = asmx.Machine(P, max_visits=p.max_visits, extern_ret=p.extern_ret)
            finals = [s for s in M.run(p.fn) if not s.dead]
        except Exception:
            continue
        vals, hyps = p.arg_values(M)
        refv, defined = p.ref(*vals)
        tuples = []
        tries = 0
        while len(tuples) < per_probe and tries < 60:
            tries += 1
            tup = [rnd.choice(boundary_values(t, rnd)) for t in p.args]
            sub = []
            for v, t, x in zip(vals, p.args, tup):
                n = 80 if (is_fp(t) and t.bits == 80) else t.bits
                sub.append((v, z3.BitVecVal(x, n)))
            # substitute by constraining: use a solver-free evaluation through a model
            sol = z3.Solver()
            for v, c in sub:
                sol.add(v == c)
            sol.add(*hyps)
            sol.add(defined)
            if sol.check() != z3.sat:
                continue
            tuples.append((tup, sub))
        if not tuples:
            continue
        drivers += "extern %s;\n" % p.proto
        for tup, sub in tuples:
            n = 10 if (is_fp(p.ret) and p.ret.bits == 80) else p.ret.bits // 8
            call = "%s(%s)" % (p.fn, ", ".join(p.c_literal(t, v) for t, v in zip(p.args, tup)))
            body += "  { %s r = %s; show(&r, %d); }\n" % (p.ret.name, call, n)
            plan.append((p, M, finals, tup, sub))
    body += "  return 0;\n}\n"
    kind, rc2, out = native_run(src, drivers + body, "xv")
    if kind != "ran":
        chk.add("xval/native-build", "inconclusive", "validation driver failed: %s %s" % (kind, out[-300:]))
        return 0
    lines = out.strip().split("\n")
    if len(lines) != len(plan):
        chk.add("xval/native-run", "inconclusive", "validation driver printed %d lines for %d cases (rc=%s)"
                % (len(lines), len(plan), rc2))
        return 0
    for (p, M, finals, tup, sub), line in zip(plan, lines):
        # executor's prediction: find the path whose condition holds under these inputs
        pred = None
        for s in finals:
            sol = z3.Solver()
            for v, c in sub:
                sol.add(v == c)
            sol.add(*s.pc)
            if sol.check() != z3.sat:
                continue
            m = sol.model()
            t = p.ret
            if is_fp(t) and t.bits == 80:
                if not s.st:
                    continue
                pred = model_int(m, s.st[-1])
            elif is_fp(t):
                raw = s.xmm[0]
                pred = model_int(m, asmx.bv2fp(z3.Extract(31, 0, raw) if t.bits == 32 else raw, t.sort))
            else:
                rax = s.regs["rax"]
                pred = model_int(m, z3.Extract(t.bits - 1, 0, rax) if t.bits < 64 else rax)
            break
        if pred is None:
            continue
        exp_hex = p.expected_hex(pred)
        if _same_result(p, line.strip(), exp_hex):
            ok += 1
        else:
            bad.append("%s%s: executor %s, cpu %s" % (p.key, [hex(x) for x in tup], exp_hex, line.strip()))
    if bad:
        chk.add("xval/disagreement", "inconclusive",
                "executor disagrees with the CPU on %d cases (encoding bug): %s" % (len(bad), "; ".join(bad[:5])))
    chk.extra["validated"] = chk.extra.get("validated", 0) + ok
    return ok
